import XdocModel.Parser
import XdocModel.CoreExamples
import XdocModel.Lemmas.Parser
/-!
# C14 — Malformed docstrings are contained: bad syntax never crashes collection

Theorems about the models `Parser.parse` (every failure of a phase is a value) and
`CoreExamples.docExamples` / `moduleExamples` (the downgrade to a warning, the per-docstring loop).
What CPython itself may raise for input outside the mini-lexer is not modelled: the correspondence
suite compares the outcome class of the real functions on grammar-fuzzed text.
-/
namespace Xdoc.C14
open Xdoc Py Parser CoreExamples

/-! ## the parser is total, its fuels are not observable -/

/-- ★ `parse` is a total function (accepted by Lean without `partial`; every loop of the code is a
    structural recursion or has explicit fuel): on every input it answers, with parts or with
    exactly one (fail point, error) pair -/
theorem parse_total (docstr : Str) (facts : List ChunkFacts) :
    (∃ ps, parse docstr facts = .ok ps) ∨ (∃ fp e, parse docstr facts = .error (fp, e)) := by
  cases h : parse docstr facts with
  | ok ps => exact Or.inl ⟨ps, rfl⟩
  | error x => obtain ⟨fp, e⟩ := x; exact Or.inr ⟨fp, e, rfl⟩

/-- the inner `while` of `balanced_intervals` moves the head strictly up: an interval start found
    for the end `b` is smaller than `b` -/
theorem findStart_lt {lines : List Str} {b n a : Nat} (h : findStart lines b n = some a) : a < b := by
  induction n with
  | zero => simp [findStart] at h
  | succ n ih =>
    unfold findStart at h
    split at h
    · rename_i hc
      simp only [Option.some.injEq] at h; subst h
      simp only [Bool.and_eq_true, decide_eq_true_eq] at hc
      exact hc.1
    · exact ih h

/-- ★ the fuel of the outer `while b > 0` of `balanced_intervals` is not observable: any fuel of at
    least `b` gives the same answer, because `b` strictly decreases (so the loop of the code
    terminates, and `lines.length` is enough) -/
theorem intervalStarts_fuel (lines : List Str) (f1 f2 b : Nat) (h1 : b ≤ f1) (h2 : b ≤ f2) :
    intervalStarts lines f1 b = intervalStarts lines f2 b := by
  induction f1 generalizing f2 b with
  | zero =>
    have : b = 0 := by omega
    subst this
    cases f2 <;> simp [intervalStarts]
  | succ f1 ih =>
    cases b with
    | zero => cases f2 <;> simp [intervalStarts]
    | succ b =>
      cases f2 with
      | zero => omega
      | succ f2 =>
        simp only [intervalStarts]
        cases hf : findStart lines (b + 1) (b + 1) with
        | none => rfl
        | some a =>
          have := findStart_lt hf
          simp only
          rw [ih f2 a (by omega) (by omega)]

/-! ## every failure is a parse error -/

/-- what `DoctestParser.parse` can do, as seen by a caller -/
inductive ParseOutcome where
  | parts (ps : List Piece)
  | raised (e : PyExc)

/-- `DoctestParser.parse` with its `except Exception` wrapper -/
def parseWrapped (facts : Str → List ChunkFacts) (docstr : Str) : ParseOutcome :=
  match parseDocOf facts docstr with
  | .ok ps => .parts ps
  | .error e => .raised e

/-- ★ every failure of any of the three phases leaves `parse` as `DoctestParseError` carrying the
    fail point and the original error — never as another exception class -/
theorem parse_error_is_ParseError (facts : Str → List ChunkFacts) (docstr : Str) :
    (∃ ps, parseWrapped facts docstr = .parts ps ∧ parse docstr (facts docstr) = .ok ps) ∨
    (∃ fp e, parseWrapped facts docstr = .raised (.parseError fp e) ∧
        parse docstr (facts docstr) = .error (fp, e)) := by
  unfold parseWrapped parseDocOf
  cases h : parse docstr (facts docstr) with
  | ok ps => exact Or.inl ⟨ps, rfl, rfl⟩
  | error x => obtain ⟨fp, e⟩ := x; exact Or.inr ⟨fp, e, rfl, rfl⟩

theorem parseDocOf_not_other (facts : Str → List ChunkFacts) (docstr : Str) (e : PyExc)
    (h : parseDocOf facts docstr = .error e) : e.isOther = false := by
  unfold parseDocOf at h
  split at h
  · simp at h
  · simp only [Except.error.injEq] at h; subst h; rfl

/-- the fail point names the phase: a label error means the labeller failed, and so on -/
theorem failpoint_is_phase (docstr : Str) (facts : List ChunkFacts) (fp : FailPoint) (e : ParseError)
    (h : parse docstr facts = .error (fp, e)) :
    (fp = .label ∧ labelLines (prepareLines docstr) = .error e) ∨
    (fp = .group ∧ ∃ labeled, labelLines (prepareLines docstr) = .ok labeled ∧ groupLines labeled = .error e) ∨
    (fp = .package ∧ ∃ chunks, chunksOf docstr = .ok chunks ∧ packageGroups chunks facts 0 = .error e) := by
  unfold parse at h
  split at h
  · rename_i e' he
    simp only [Except.error.injEq, Prod.mk.injEq] at h
    obtain ⟨rfl, rfl⟩ := h
    exact Or.inl ⟨rfl, he⟩
  · rename_i labeled hl
    split at h
    · rename_i e' he
      simp only [Except.error.injEq, Prod.mk.injEq] at h
      obtain ⟨rfl, rfl⟩ := h
      exact Or.inr (Or.inl ⟨rfl, labeled, hl, he⟩)
    · rename_i chunks hg
      split at h
      · rename_i e' he
        simp only [Except.error.injEq, Prod.mk.injEq] at h
        obtain ⟨rfl, rfl⟩ := h
        refine Or.inr (Or.inr ⟨rfl, chunks, ?_, he⟩)
        unfold chunksOf
        simp [hl, hg, bind, Except.bind]
      · simp at h

/-- the errors the labeller can raise: bad indentation inside a statement (SyntaxError), an
    unexpected prefix (AssertionError), the text ends inside a statement (IncompleteParseError) -/
theorem label_error_classes (ls : List Str) (e : ParseError) (h : labelLines ls = .error e) :
    e = .syntax ∨ e = .assertion ∨ e = .incomplete := by
  unfold labelLines at h
  split at h
  · rename_i e' hf
    simp only [Except.error.injEq] at h; subst h
    -- some step failed
    have key : ∀ (ls : List Str) (st : LabelState), ls.foldlM labelStep st = .error e' →
        e' = .syntax ∨ e' = .assertion := by
      intro ls
      induction ls with
      | nil => intro st h; simp [pure, Except.pure] at h
      | cons l ls ih =>
        intro st h
        rw [List.foldlM_cons] at h
        cases hs : labelStep st l with
        | ok st1 => simp only [hs, bind, Except.bind] at h; exact ih st1 h
        | error e1 =>
          simp only [hs, bind, Except.bind, Except.error.injEq] at h; subst h
          unfold labelStep at hs
          split at hs
          · dsimp only at hs
            split at hs
            · simp only [Except.error.injEq] at hs; exact Or.inl hs.symm
            · split at hs <;> split at hs <;> simp at hs
          · extract_lets li stripL cur sind norm pre lab st1 ps at hs
            split at hs
            · split at hs
              · simp only [Except.error.injEq] at hs; exact Or.inr hs.symm
              · split at hs <;> simp at hs
            · simp at hs
    rcases key ls {} hf with h | h
    · exact Or.inl h
    · exact Or.inr (Or.inl h)
  · split at h
    · simp only [Except.error.injEq] at h; exact Or.inr (Or.inr h.symm)
    · simp at h

/-- the only error the grouping phase can raise is the `assert prev_source is not None` -/
theorem group_error_classes (labeled : List LLine) (e : ParseError) (h : groupLines labeled = .error e) :
    e = .assertion := by
  unfold groupLines at h
  rw [group3_eq] at h
  split at h
  · rename_i e' hf
    simp only [Except.error.injEq] at h; subst h
    have key : ∀ (gs : List Group) (st : G3), gs.foldlM g3Step st = .error e' → e' = .assertion := by
      intro gs
      induction gs with
      | nil => intro st h; simp [pure, Except.pure] at h
      | cons g gs ih =>
        intro st h
        rw [List.foldlM_cons] at h
        cases hs : g3Step st g with
        | ok st1 => simp only [hs, bind, Except.bind] at h; exact ih st1 h
        | error e1 =>
          simp only [hs, bind, Except.bind, Except.error.injEq] at h; subst h
          unfold g3Step at hs
          split at hs
          · simp at hs
          · split at hs
            · simp only [Except.error.injEq] at hs; exact hs.symm
            · simp at hs
          · simp at hs
    exact key _ _ hf
  · split at h <;> simp at h

/-! ## examples or a warning -/

/-- the environment in which `parse_docstr_examples` runs when the parser is the model parser and
    the google splitter raises nothing but `MalformedDocstr` -/
def Contained (env : Env) : Prop :=
  (∀ d e, env.parseDoc d = .error e → e.isOther = false) ∧
  (∀ d e, env.googleBlocks d = .error e → e.isOther = false)

theorem googleLoop_contained {env : Env} (hc : Contained env) (name : Str) (bs : List (Str × Str)) (n : Nat)
    (e : PyExc) (h : (googleLoop env name bs n).2 = some e) : e.isOther = false := by
  induction bs generalizing n with
  | nil => simp [googleLoop] at h
  | cons b bs ih =>
    obtain ⟨tag, body⟩ := b
    unfold googleLoop at h
    split at h
    · rename_i e' he
      simp only [Option.some.injEq] at h; subst h
      exact hc.1 _ _ he
    · exact ih (n + 1) h

theorem gen_contained {env : Env} (hc : Contained env) (style : Style) (name doc : Str) (e : PyExc) :
    (genOf env style name doc).2 = some e → e.isOther = false := by
  unfold genOf
  have hfree : ∀ e, (freeform env name doc).2 = some e → e.isOther = false := by
    intro e h
    unfold freeform at h
    split at h
    · rename_i e' he
      simp only [Option.some.injEq] at h; subst h
      exact hc.1 _ _ he
    · split at h <;> simp at h
  have hgoogle : ∀ e, (google env name doc).2 = some e → e.isOther = false := by
    intro e h
    unfold google at h
    split at h
    · rename_i e' he
      simp only [Option.some.injEq] at h; subst h
      exact hc.2 _ _ he
    · exact googleLoop_contained hc name _ 0 e h
  cases style with
  | freeform => exact hfree e
  | google => exact hgoogle e
  | auto =>
    intro h
    simp only [auto] at h
    split at h
    · rename_i x xs e' hg
      have : (google env name doc).2 = e' := by rw [hg]
      simp only at h
      exact hgoogle e (by rw [this, h])
    · exact hfree e h

/-- ★ containment: whatever the docstring and the style, no exception leaves
    `parse_docstr_examples` — a parse error or a malformed google docstring is downgraded to a
    warning -/
theorem docExamples_never_raises {env : Env} (hc : Contained env) (style : Style) (name doc : Str) :
    (docExamples env style name doc).escaped = none := by
  unfold docExamples
  simp only
  split
  · rfl
  · rename_i e he
    have := gen_contained hc style name doc e he
    simp [this]

/-- ★ a warning is emitted exactly when the generator ended with an exception -/
theorem warned_iff_error (env : Env) (style : Style) (name doc : Str) :
    (docExamples env style name doc).warned = true ↔ ∃ e, (genOf env style name doc).2 = some e := by
  unfold docExamples
  simp only
  split
  · rename_i h; simp [h]
  · rename_i e h; simp [h]

/-- ★ freeform: a docstring whose text does not parse contributes no example and one warning -/
theorem examples_or_warning_freeform {env : Env} (hc : Contained env) (name doc : Str) (e : PyExc)
    (h : env.parseDoc doc = .error e) :
    (docExamples env .freeform name doc).examples = [] ∧
    (docExamples env .freeform name doc).warned = true ∧
    (docExamples env .freeform name doc).escaped = none := by
  refine ⟨?_, ?_, docExamples_never_raises hc _ _ _⟩ <;> simp [docExamples, genOf, freeform, h]

/-- ★ google: if the FIRST example block does not parse (or the splitter rejects the docstring)
    the docstring contributes no example and one warning -/
theorem examples_or_warning_google {env : Env} (hc : Contained env) (name doc : Str) :
    (∃ e, env.googleBlocks doc = .error e) ∨
    (∃ bs tag body rest e, env.googleBlocks doc = .ok bs ∧
        bs.filter (fun b => isExampleTag b.1) = (tag, body) :: rest ∧ env.parseDoc body = .error e) →
    (docExamples env .google name doc).examples = [] ∧
    (docExamples env .google name doc).warned = true ∧
    (docExamples env .google name doc).escaped = none := by
  intro h
  refine ⟨?_, ?_, docExamples_never_raises hc _ _ _⟩
  · rcases h with ⟨e, he⟩ | ⟨bs, tag, body, rest, e, hb, hf, hp⟩
    · simp [docExamples, genOf, google, he]
    · simp [docExamples, genOf, google, hb, hf, googleLoop, hp]
  · rcases h with ⟨e, he⟩ | ⟨bs, tag, body, rest, e, hb, hf, hp⟩
    · simp [docExamples, genOf, google, he]
    · simp [docExamples, genOf, google, hb, hf, googleLoop, hp]

/-- google, general form: the blocks before the first one that fails are kept (the code yields them
    before it reaches the bad block), every later block is lost, one warning -/
theorem googleLoop_prefix (env : Env) (name : Str) (good : List (Str × Str)) (tag body : Str)
    (rest : List (Str × Str)) (n : Nat) (e : PyExc)
    (hgood : ∀ b ∈ good, ∃ ps, env.parseDoc b.2 = .ok ps) (hbad : env.parseDoc body = .error e) :
    (googleLoop env name (good ++ (tag, body) :: rest) n).2 = some e ∧
    (googleLoop env name (good ++ (tag, body) :: rest) n).1.length = good.length := by
  induction good generalizing n with
  | nil => simp [googleLoop, hbad]
  | cons g gs ih =>
    obtain ⟨t, b⟩ := g
    obtain ⟨ps, hps⟩ := hgood (t, b) (by simp)
    have := ih (n + 1) (fun x hx => hgood x (by simp [hx]))
    simp only [List.cons_append, googleLoop, hps]
    exact ⟨this.1, by simp [this.2]⟩

/-- ★ auto: if neither reading of the docstring parses (the google attempt yields nothing and the
    freeform parse of the whole text fails) there is no example and one warning -/
theorem examples_or_warning_auto {env : Env} (hc : Contained env) (name doc : Str) (e : PyExc)
    (hg : (google env name doc).1 = []) (h : env.parseDoc doc = .error e) :
    (docExamples env .auto name doc).examples = [] ∧
    (docExamples env .auto name doc).warned = true ∧
    (docExamples env .auto name doc).escaped = none := by
  have ha : auto env name doc = freeform env name doc := by
    unfold auto
    split
    · rename_i x xs e' hx; rw [hx] at hg; simp at hg
    · rfl
  refine ⟨?_, ?_, docExamples_never_raises hc _ _ _⟩ <;> simp [docExamples, genOf, ha, freeform, h]

/-- ★ the per-docstring loop is independent: when nothing escapes, a module's examples are the
    concatenation of what each docstring contributes on its own -/
theorem module_is_concat {env : Env} (hc : Contained env) (style : Style) (docs : List (Str × Str)) :
    (moduleExamples env style docs).examples =
        docs.flatMap (fun d => (docExamples env style d.1 d.2).examples) ∧
    (moduleExamples env style docs).escaped = none := by
  induction docs with
  | nil => simp [moduleExamples]
  | cons d ds ih =>
    obtain ⟨name, doc⟩ := d
    have hn := docExamples_never_raises hc style name doc
    simp only [moduleExamples, hn, List.flatMap_cons]
    exact ⟨by rw [ih.1], ih.2⟩

/-- ★ the other docstrings of the module are unaffected: replacing one docstring by ANY other text
    (in particular a malformed one) changes nothing but that docstring's own contribution; the
    examples collected before and after it are the same lists -/
theorem siblings_unaffected {env : Env} (hc : Contained env) (style : Style)
    (pre post : List (Str × Str)) (name doc doc' : Str) :
    ∃ own own',
      (moduleExamples env style (pre ++ (name, doc) :: post)).examples =
        (moduleExamples env style pre).examples ++ own ++ (moduleExamples env style post).examples ∧
      (moduleExamples env style (pre ++ (name, doc') :: post)).examples =
        (moduleExamples env style pre).examples ++ own' ++ (moduleExamples env style post).examples ∧
      own = (docExamples env style name doc).examples ∧ own' = (docExamples env style name doc').examples := by
  refine ⟨_, _, ?_, ?_, rfl, rfl⟩ <;>
    simp [(module_is_concat hc style _).1, List.flatMap_append]

/-- ★ `examples_or_warning`, for the model parser: with `parse` (any CPython facts) as the parser and
    a splitter that raises only `MalformedDocstr`, a docstring whose text the parser rejects yields,
    in freeform style, no example, a warning and no exception; and the module loop goes on -/
theorem examples_or_warning (facts : Str → List ChunkFacts)
    (blocks : Str → Except PyExc (List (Str × Str)))
    (hb : ∀ d e, blocks d = .error e → e = .malformed)
    (pre post : List (Str × Str)) (name doc : Str) (fp : FailPoint) (err : ParseError)
    (hbad : parse doc (facts doc) = .error (fp, err)) :
    let env : Env := { parseDoc := parseDocOf facts, googleBlocks := blocks }
    (docExamples env .freeform name doc).examples = [] ∧
    (docExamples env .freeform name doc).warned = true ∧
    (∀ style, (docExamples env style name doc).escaped = none) ∧
    (moduleExamples env .freeform (pre ++ (name, doc) :: post)).examples =
      (moduleExamples env .freeform pre).examples ++ (moduleExamples env .freeform post).examples ∧
    (∀ style, (moduleExamples env style (pre ++ (name, doc) :: post)).escaped = none) := by
  intro env
  have hc : Contained env := by
    refine ⟨fun d e h => parseDocOf_not_other facts d e h, fun d e h => ?_⟩
    rw [hb d e h]; rfl
  have hp : env.parseDoc doc = .error (.parseError fp err) := by
    show parseDocOf facts doc = _
    unfold parseDocOf; rw [hbad]
  have h1 := examples_or_warning_freeform hc name doc _ hp
  refine ⟨h1.1, h1.2.1, fun s => docExamples_never_raises hc s name doc, ?_, fun s => (module_is_concat hc s _).2⟩
  simp [(module_is_concat hc .freeform _).1, List.flatMap_append, h1.1]

/-! ## non-vacuity -/

def errOf {α : Type} : Except (FailPoint × ParseError) α → Option (FailPoint × ParseError)
  | .ok _ => none
  | .error e => some e

/-- a failing docstring exists for every phase that can fail on text alone -/
example : errOf (parse ">>> x = (\n".toList []) = some (.label, .incomplete) := by decide +kernel
example : errOf (parse ">>> x = (1,\n  2)\n".toList []) = some (.label, .syntax) := by decide +kernel
example : errOf (parse ">>> x = 1\n".toList [.syntaxError]) = some (.package, .syntax) := by decide +kernel
example : errOf (parse ">>> 1 # xdoctest: +SKIP(\n".toList [.parsed [0] true]) = some (.package, .directive) := by
  decide +kernel
/-- and a docstring on which every phase succeeds -/
example : (match parse "text\n>>> 1\n1\n".toList [.parsed [0] true] with | .ok ps => ps.length | .error _ => 0) = 2 := by
  decide +kernel

/-- an environment satisfying `Contained` in which a docstring fails to parse -/
def exEnv : Env :=
  { parseDoc := parseDocOf (fun _ => []), googleBlocks := fun _ => .error .malformed }

example : Contained exEnv :=
  ⟨fun d e h => parseDocOf_not_other (fun _ => []) d e h, fun d e h => by simp [exEnv] at h; subst h; rfl⟩
example : (docExamples exEnv .freeform "f".toList ">>> x = (".toList).warned = true := by decide +kernel
example : (docExamples exEnv .auto "f".toList ">>> x = (".toList).examples.length = 0 := by decide +kernel
example : (moduleExamples exEnv .freeform [("f".toList, ">>> x = (".toList), ("g".toList, "no test".toList)]).warnings = 1 := by
  decide +kernel

/-- K-C14-a: google style keeps the examples of the blocks before the malformed one -/
def exEnvGoogle : Env :=
  { parseDoc := parseDocOf (fun t => if t == ">>> print(1)\n1\n".toList then [.parsed [0] true] else []),
    googleBlocks := fun _ => .ok [("Example".toList, ">>> print(1)\n1\n".toList), ("Example".toList, ">>> x = (\n".toList)] }

theorem witness_K_C14_a :
    (docExamples exEnvGoogle .google "f".toList []).examples.length = 1 ∧
    (docExamples exEnvGoogle .google "f".toList []).warned = true ∧
    (docExamples exEnvGoogle .auto "f".toList []).examples.length = 1 := by
  decide +kernel

end Xdoc.C14

import XdocModel.Lemmas.Compose
import XdocModel.Proofs.C01
import XdocModel.Proofs.C08
import XdocModel.Proofs.C13
import XdocModel.CoreExamples
import XdocModel.Proofs.C18Labels
/-!
# Compositions — theorems of one cluster whose hypothesis is a theorem of another cluster

## C08 ∘ C13 (∘ C01) : parse, then locate

C08 proves the line arithmetic of the freeform collection for every list of pieces that is `Tiled`
(hypothesis). C13 proves that the model parser's output `Tiles` the docstring. `Tiles` is weaker
than `Tiled` in two places (both are findings about the statements, not about the code):

* a text piece `'\n'.join(ls)` counts as `count('\n') + 1` lines in the freeform loop; that is
  `ls.length` only when `ls ≠ []` and no line contains `\n`. Both are proved here for the parser
  (`groupLines_textNonempty`, `prepareLines_no_newline` + the labeller keeps that).
* `Covers` fixes `line_offset` only for parts that have a first line. A part with no line at a
  wrong offset is possible in the MODEL when the oracle `ChunkFacts` names a statement start beyond
  the chunk (`tiled_needs_facts_in_range`). CPython never does; this is hypothesis `FactsOk`
  (C01's `FactsInRange` for every chunk), and C01's `part_offsets` then gives the missing clause.

`parse_tiled` is the composed fact, `parse_then_lineno` the C08 conclusions without any tiling
hypothesis.
-/
namespace Xdoc.Compose
open Xdoc Py Parser Core

/-! ## the oracle hypothesis, per docstring -/

/-- C01's `FactsInRange` for every code chunk, the facts being consumed in order as `packageGroups`
    consumes them -/
def FactsInRangeAll : List Chunk → List ChunkFacts → Prop
  | [], _ => True
  | .text _ :: cs, fs => FactsInRangeAll cs fs
  | .code src _ :: cs, f :: fs => C01.FactsInRange f src.length ∧ FactsInRangeAll cs fs
  | .code _ _ :: cs, [] => FactsInRangeAll cs []

/-- what CPython guarantees about the oracle answers for a docstring: the statement starts it
    reports for a chunk are lines of that chunk -/
def FactsOk (docstr : Str) (facts : List ChunkFacts) : Prop :=
  ∀ chunks, chunksOf docstr = .ok chunks → FactsInRangeAll chunks facts

/-- decidable form, for concrete instances -/
def factsInRangeB : ChunkFacts → Nat → Bool
  | .syntaxError, _ => true
  | .parsed starts _, n => starts.all (· ≤ n)

def factsInRangeAllB : List Chunk → List ChunkFacts → Bool
  | [], _ => true
  | .text _ :: cs, fs => factsInRangeAllB cs fs
  | .code src _ :: cs, f :: fs => factsInRangeB f src.length && factsInRangeAllB cs fs
  | .code _ _ :: cs, [] => factsInRangeAllB cs []

theorem factsInRange_of_b {f : ChunkFacts} {n : Nat} (h : factsInRangeB f n = true) : C01.FactsInRange f n := by
  intro starts e hf s hs
  subst hf
  simp only [factsInRangeB, List.all_eq_true, decide_eq_true_eq] at h
  exact h s hs

theorem factsInRangeAll_of_b {cs : List Chunk} {fs : List ChunkFacts} (h : factsInRangeAllB cs fs = true) :
    FactsInRangeAll cs fs := by
  induction cs generalizing fs with
  | nil => trivial
  | cons c cs ih =>
    cases c with
    | text ls => exact ih h
    | code src want =>
      cases fs with
      | nil => exact ih h
      | cons f fs =>
        simp only [factsInRangeAllB, Bool.and_eq_true] at h
        exact ⟨factsInRange_of_b h.1, ih h.2⟩

theorem factsOk_of_b {docstr : Str} {facts : List ChunkFacts} {chunks : List Chunk}
    (hc : (chunksOf docstr).toOption = some chunks) (h : factsInRangeAllB chunks facts = true) :
    FactsOk docstr facts := by
  intro cs hcs
  rw [hcs] at hc
  simp only [Except.toOption, Option.some.injEq] at hc
  subst hc
  exact factsInRangeAll_of_b h

/-! ## the parser's output is tiled in the sense of C08 -/

/-- layer (d) of C13 with C01's offsets: `_package_groups` tiles the chunk lines exactly -/
theorem packageGroups_exactTiles {cs : List Chunk} {fs : List ChunkFacts} {o : Nat} {ps : List Piece}
    (h : packageGroups cs fs o = .ok ps) (ht : TextNonempty cs) (hf : FactsInRangeAll cs fs) :
    ExactTiles ps o (cs.flatMap chunkLines) := by
  induction cs generalizing fs o ps with
  | nil => simp [packageGroups] at h; subst h; exact .nil o
  | cons c cs ih =>
    have ht' : TextNonempty cs := fun ls hls => ht ls (List.mem_cons_of_mem _ hls)
    cases c with
    | text ls =>
      simp only [packageGroups, bind, Except.bind, pure, Except.pure] at h
      split at h
      · simp at h
      · rename_i rest hrest
        simp only [Except.ok.injEq] at h
        subst h
        have := ExactTiles.text (ht ls (by simp)) (ih hrest ht' hf)
        simpa [chunkLines] using this
    | code src want =>
      simp only [packageGroups, bind, Except.bind, pure, Except.pure] at h
      split at h
      · simp at h
      · split at h
        · simp at h
        · rename_i parts hparts
          split at h
          · simp at h
          · rename_i rest hrest
            simp only [Except.ok.injEq] at h
            subst h
            cases fs with
            | nil =>
              -- no oracle answer left: the chunk counts as a syntax error and packaging fails
              simp [packageChunk, locatePs1, bind, Except.bind] at hparts
            | cons f fs' =>
              obtain ⟨hf1, hf2⟩ := hf
              have := ExactTiles.code (packageChunk_tiles hparts) (C01.part_offsets hparts hf1)
                (ih hrest ht' hf2)
              simpa [chunkLines] using this

/-- everything the two clusters say about a successful parse, in one statement -/
theorem parse_exactTiles (docstr : Str) (facts : List ChunkFacts) (ps : List Piece)
    (h : parse docstr facts = .ok ps) (hf : FactsOk docstr facts) :
    ∃ (labeled : List LLine) (chunks : List Chunk),
      labelLines (prepareLines docstr) = .ok labeled ∧ groupLines labeled = .ok chunks ∧
      ExactTiles ps 0 (chunks.flatMap chunkLines) ∧
      chunks.flatMap chunkLines = labeled.map (·.2) ∧
      Forall2 LineRel (prepareLines docstr) labeled ∧
      ∀ l ∈ chunks.flatMap chunkLines, NoBreak l := by
  unfold parse at h
  split at h
  · simp at h
  · rename_i labeled hl
    split at h
    · simp at h
    · rename_i chunks hg
      split at h
      · simp at h
      · rename_i ps' hp
        simp only [Except.ok.injEq] at h; subst h
        have hco : chunksOf docstr = .ok chunks := by
          simp [chunksOf, hl, hg, bind, Except.bind]
        have hflat := groupLines_flat hg
        have hrel := labelLines_lines hl
        refine ⟨labeled, chunks, hl, hg,
          packageGroups_exactTiles hp (groupLines_textNonempty hg) (hf chunks hco), hflat, hrel, ?_⟩
        intro l hlm
        rw [hflat] at hlm
        obtain ⟨p, hp', rfl⟩ := List.mem_map.mp hlm
        exact forall2_lineRel_noBreak hrel (prepareLines_noBreak docstr) p hp'

/-- ★ C13 ⟶ C08: for EVERY docstring and every in-range answer of the CPython oracle on which the
    model parser succeeds, the pieces it returns — seen as the freeform loop sees them — are `Tiled`
    from line 0: every part's `line_offset` is the number of lines (text pieces: `count('\n') + 1`,
    parts: `n_lines`) of all pieces before it. This discharges the hypothesis `ht` of C08. -/
theorem parse_tiled (docstr : Str) (facts : List ChunkFacts) (ps : List Piece)
    (h : parse docstr facts = .ok ps) (hf : FactsOk docstr facts) :
    Tiled 0 (toFPieces ps) := by
  obtain ⟨_, _, _, _, ht, _, _, hnb⟩ := parse_exactTiles docstr facts ps h hf
  exact tiled_of_tiles ht (fun l hl => (hnb l hl).no_nl)

/-- ★ `parse_then_lineno` (first half, C08 `freeform_offset_is_first_part_offset` with the parser
    in front): the doctest collected from a parsed docstring is reported at
    `lineno + line_offset of the first kept part`, and no kept part lies before it -/
theorem parse_then_lineno (docstr : Str) (facts : List ChunkFacts) (ps : List Piece)
    (callname : Str) (lineno : Nat) (e : Ex)
    (h : parse docstr facts = .ok ps) (hf : FactsOk docstr facts)
    (he : e ∈ freeform (toFPieces ps) callname lineno) :
    ∃ p0 rest, ((toFPieces ps).foldl fstep {}).curParts = p0 :: rest ∧
      e.lineno = lineno + p0.lineOffset ∧ e.num = 0 ∧ e.parts = some (rebase (p0 :: rest)) ∧
      ∀ p ∈ p0 :: rest, p0.lineOffset ≤ p.lineOffset :=
  C08.freeform_offset_is_first_part_offset (toFPieces ps) callname lineno e
    (parse_tiled docstr facts ps h hf) he

/-- ★ `parse_then_lineno` (second half, C08 `part_line_is_file_line_freeform` with the parser in
    front): for a docstring literal laid out on the file lines from `a` on, the docstring line at
    which the parser placed the `k`-th kept part is the text of file line number
    `e.lineno + (re-based line_offset)`; the first kept part has offset 0 -/
theorem parse_then_file_line (F : List Str) (a : Nat) (docstr : Str) (facts : List ChunkFacts)
    (ps : List Piece) (callname : Str) (e : Ex)
    (hlay : C08.LiteralLayout F a docstr)
    (h : parse docstr facts = .ok ps) (hf : FactsOk docstr facts)
    (he : e ∈ freeform (toFPieces ps) callname (a + 1)) :
    ∃ orig reb, ((toFPieces ps).foldl fstep {}).curParts = orig ∧ e.parts = some reb ∧
      reb.length = orig.length ∧
      (∀ p', reb[0]? = some p' → p'.lineOffset = 0) ∧
      ∀ (k : Nat) (p p' : Part) (l : Str), orig[k]? = some p → reb[k]? = some p' →
        (splitOn '\n' docstr)[p.lineOffset]? = some l →
        ∃ fl, F[e.lineno + p'.lineOffset - 1]? = some fl ∧ l <:+: fl :=
  C08.part_line_is_file_line_freeform F a docstr callname (toFPieces ps) e hlay
    (parse_tiled docstr facts ps h hf) he

/-! ### non-vacuity and necessity of the hypotheses -/

/-- `Tiled`, decidable form -/
def tiledB : Nat → List FPiece → Bool
  | _, [] => true
  | off, .text s :: r => tiledB (off + pieceSize (.text s)) r
  | off, .part p :: r => p.lineOffset == off && tiledB (off + p.nLines) r

theorem tiled_iff_b (off : Nat) (fs : List FPiece) : Tiled off fs ↔ tiledB off fs = true := by
  induction fs generalizing off with
  | nil => simp [Tiled, tiledB]
  | cons x r ih =>
    cases x with
    | text s => simp only [Tiled, tiledB]; exact ih _
    | part p => simp only [Tiled, tiledB, Bool.and_eq_true, beq_iff_eq, ih]

/-- C13's example docstring (prose, a two-line statement, an expression with a want, prose) with
    the oracle answers CPython gives: the hypotheses of `parse_tiled` hold -/
example : C13.isOk (parse C13.exDoc C13.exFacts) = true ∧ FactsOk C13.exDoc C13.exFacts :=
  ⟨by decide +kernel,
   factsOk_of_b (chunks := [.text ["intro text".toList],
      .code [">>> x = [1,".toList, "...      2]".toList] [],
      .code [">>> print(x)".toList] ["[1, 2]".toList],
      .text [[], "more text".toList]]) (by decide +kernel) (by decide +kernel)⟩

/-- ... and the doctest it yields: reported at line 10 + 1, parts re-based to offsets 0 and 2 -/
example : (match parse C13.exDoc C13.exFacts with
    | .ok ps => (freeform (toFPieces ps) "f".toList 10).map
        (fun e => (e.lineno, (e.parts.getD []).map (·.lineOffset)))
    | .error _ => []) = [(11, [0, 2])] := by decide +kernel

/-- all hypotheses of `parse_then_file_line` together: the file `def f():` / `    """intro` /
    `>>> f()` / `1"""` holds the docstring `intro\n>>> f()\n1` from file line index 1; it parses, the
    oracle answer is in range, and the doctest is reported at file line 3, where the prompt is -/
def layFile : List Str := ["def f():".toList, "    \"\"\"intro".toList, ">>> f()".toList, "1\"\"\"".toList]
def layDoc : Str := "intro\n>>> f()\n1".toList

example : C08.LiteralLayout layFile 1 layDoc := by
  have hsplit : splitOn '\n' layDoc = ["intro".toList, ">>> f()".toList, "1".toList] := by
    decide +kernel
  intro i l h
  rw [hsplit] at h
  rcases i with _ | _ | _ | i
  · have : l = "intro".toList := by simpa using h.symm
    subst this
    exact ⟨_, rfl, "    \"\"\"".toList, [], by decide +kernel⟩
  · have : l = ">>> f()".toList := by simpa using h.symm
    subst this
    exact ⟨_, rfl, [], [], by decide +kernel⟩
  · have : l = "1".toList := by simpa using h.symm
    subst this
    exact ⟨_, rfl, [], "\"\"\"".toList, by decide +kernel⟩
  · simp at h

example : C13.isOk (parse layDoc [.parsed [0] true]) = true ∧ FactsOk layDoc [.parsed [0] true] ∧
    (match parse layDoc [.parsed [0] true] with
     | .ok ps => (freeform (toFPieces ps) "f".toList (1 + 1)).map (·.lineno)
     | .error _ => []) = [3] :=
  ⟨by decide +kernel,
   factsOk_of_b (chunks := [.text ["intro".toList], .code [">>> f()".toList] ["1".toList]])
     (by decide +kernel) (by decide +kernel),
   by decide +kernel⟩

/-- the hypothesis `FactsOk` cannot be dropped: an oracle that reports a statement start beyond the
    chunk (CPython never does) makes the model parser emit an EMPTY part whose `line_offset` is not
    the number of lines before it — `Tiles` (C13) holds, `Tiled` (C08) does not -/
theorem tiled_needs_facts_in_range :
    ∃ ps, parse ">>> f()\n1".toList [.parsed [0, 5] true] = .ok ps ∧
      (toFPieces ps).map (fun p => match p with
          | .part q => (q.lineOffset, q.nLines) | .text _ => (0, 0)) = [(0, 1), (5, 1)] ∧
      ¬ Tiled 0 (toFPieces ps) := by
  have hp : (parse ">>> f()\n1".toList [.parsed [0, 5] true]).toOption.map
      (fun ps => ((toFPieces ps).map (fun p => match p with
          | .part q => (q.lineOffset, q.nLines) | .text _ => (0, 0)), tiledB 0 (toFPieces ps))) =
        some ([(0, 1), (5, 1)], false) := by
    decide +kernel
  cases hps : parse ">>> f()\n1".toList [.parsed [0, 5] true] with
  | error e => rw [hps] at hp; simp [Except.toOption] at hp
  | ok ps =>
    rw [hps] at hp
    simp only [Except.toOption, Option.map_some, Option.some.injEq, Prod.mk.injEq] at hp
    refine ⟨ps, rfl, hp.1, ?_⟩
    intro ht
    rw [tiled_iff_b, hp.2] at ht
    cases ht

/-! ### what is AT the offset: the part's own first line

C08's `part_line_is_file_line_freeform` speaks about "the docstring line at index `line_offset`".
That this line is the part's first source line is again C13 (`Covers`): -/

/-- ★ `parse_part_line`: for every part of a parsed docstring that has a first line, line number
    `line_offset` of the lines the labeller saw (`prepareLines`) IS that first line: `orig_lines[0]`
    is it, without the chunk's indentation `k` (and with the `... ` prompt inserted when the line is
    the inside of a triple-quoted string: `HackRel`) -/
theorem parse_part_line (docstr : Str) (facts : List ChunkFacts) (ps : List Piece)
    (h : parse docstr facts = .ok ps) (q : PPart) (hq : Piece.part q ∈ ps) (x : Str) (xs : List Str)
    (hx : q.part.origLines = some (x :: xs)) :
    ∃ k line raw, (prepareLines docstr)[q.part.lineOffset]? = some line ∧ HackRel line raw ∧
      x = raw.drop k := by
  obtain ⟨labeled, chunks, _, hrel, _, ht, hflat⟩ := C13.parse_partition docstr facts ps h
  obtain ⟨k, raw, _, h2, h3⟩ := tiles_part_line ht q hq x xs hx
  rw [hflat, Nat.sub_zero] at h2
  obtain ⟨p, hp, hpe⟩ : ∃ p, labeled[q.part.lineOffset]? = some p ∧ p.2 = raw := by
    simpa [List.getElem?_map] using h2
  obtain ⟨line, hl, hr⟩ := forall2_getElem? hrel _ p hp
  exact ⟨k, line, raw, hl, hpe ▸ hr.1, h3⟩

/-- finding (model AND code, checked on the library): the parser counts `str.splitlines()` lines and
    re-joins text with `\n`, the file and C08's `LiteralLayout` count `\n`. A form feed (or `\r`,
    `\x0b`, `\x1c`-`\x1e`, `\x85`, U+2028/9) inside the prose before a doctest therefore shifts the
    reported line: the prompt of `a\x0cb\n>>> f()` is on docstring line 1, `line_offset` is 2, a
    doctest collected at line 10 is reported at line 12, and docstring line 2 does not exist — the
    conclusion of `parse_then_file_line` is vacuous for such docstrings. -/
theorem lineno_counts_splitlines_witness :
    (parse "a\x0cb\n>>> f()".toList [.parsed [0] true]).toOption.map
      (fun ps => ((toFPieces ps).map (fun p => match p with
          | .part q => (q.lineOffset, q.nLines) | .text s => (0, countChar '\n' s + 1)),
        (freeform (toFPieces ps) "f".toList 10).map (·.lineno))) = some ([(0, 2), (2, 1)], [12]) ∧
    (splitOn '\n' "a\x0cb\n>>> f()".toList)[1]? = some ">>> f()".toList ∧
    (splitOn '\n' "a\x0cb\n>>> f()".toList)[2]? = none := by
  decide +kernel

/-! ## C01 ∘ C13 : the parts of a parsed docstring are the program, and running them is running it

`chunk_partition` is stated twice: C13 (`SrcTiles`: part by part, with offsets and wants) and C01
(the `exec_lines` / `orig_lines` of all parts concatenate to the de-prompted / de-indented source
lines). The C13 form implies the C01 form (`chunk_partition_c01_of_c13`), and the want clause of
C01's `only_last_part_has_want` (`only_last_want_of_c13`); the two `chunkIndent`s are the same
function (`chunkIndent_eq`). -/

theorem chunkIndent_eq (src : List Str) : chunkIndentP src = chunkIndent src := rfl

theorem srcTiles_flatten {k : Nat} {want : List Str} {parts : List PPart} {o : Nat} {src : List Str}
    (h : SrcTiles k want parts o src) :
    (parts.map (·.part.execLines)).flatten = src.map (fun l => (l.drop k).drop 4) ∧
    (parts.map (fun p => p.part.origLines.getD [])).flatten = src.map (·.drop k) := by
  induction h with
  | last hc _ => obtain ⟨h1, h2, _⟩ := hc; simp [h1, h2]
  | cons hc _ _ ih => obtain ⟨h1, h2, _⟩ := hc; simp [h1, h2, ih.1, ih.2]

/-- C13's `chunk_partition` implies C01's -/
theorem chunk_partition_c01_of_c13 {src want : List Str} {o : Nat} {parts : List PPart}
    (h : SrcTiles (chunkIndentP src) want parts o src) :
    (parts.map (·.part.execLines)).flatten = C01.dePrompted src ∧
    (parts.map (fun p => p.part.origLines.getD [])).flatten = C01.sourceLinesOf src := by
  have := srcTiles_flatten h
  simpa [C01.dePrompted, C01.sourceLinesOf, chunkIndent_eq, List.map_map, Function.comp_def] using this

/-- C13's `chunk_partition` implies the want clause of C01's `only_last_part_has_want` -/
theorem only_last_want_of_c13 {k : Nat} {want : List Str} {parts : List PPart} {o : Nat} {src : List Str}
    (h : SrcTiles k want parts o src) :
    ∃ init last, parts = init ++ [last] ∧ (∀ p ∈ init, p.part.wantLines = none) ∧
      last.part.wantLines = some (want.map (·.drop k)) := by
  induction h with
  | @last p _ _ _ hw => exact ⟨[], p, rfl, by simp, hw⟩
  | @cons p ps _ _ _ _ hw _ ih =>
    obtain ⟨init, last, h1, h2, h3⟩ := ih
    refine ⟨p :: init, last, by rw [h1]; rfl, ?_, h3⟩
    intro q hq
    rcases List.mem_cons.mp hq with rfl | hq
    · exact hw
    · exact h2 q hq

/-- the same statement reached through either cluster: C01's theorem re-proved from C13's -/
theorem chunk_partition_agree {src want : List Str} {lineno : Nat} {facts : ChunkFacts} {parts : List PPart}
    (h : packageChunk src want lineno facts = .ok parts) :
    (parts.map (·.part.execLines)).flatten = C01.dePrompted src ∧
    (parts.map (fun p => p.part.origLines.getD [])).flatten = C01.sourceLinesOf src :=
  chunk_partition_c01_of_c13 (C13.chunk_partition h)

/-- the de-prompted source lines of a chunk: what `exec` gets to see of it -/
def chunkProgram : Chunk → List Str
  | .text _ => []
  | .code src _ => C01.dePrompted src

open _root_.Xdoc.CoreExamples (partsOf)

theorem partsOf_append (a b : List Piece) : partsOf (a ++ b) = partsOf a ++ partsOf b := by
  simp [partsOf]

theorem partsOf_parts (parts : List PPart) : partsOf (parts.map Piece.part) = parts := by
  induction parts with
  | nil => rfl
  | cons p ps ih => simp only [partsOf, List.map_cons, List.filterMap_cons] at ih ⊢; rw [ih]

theorem packageGroups_program {cs : List Chunk} {fs : List ChunkFacts} {o : Nat} {ps : List Piece}
    (h : packageGroups cs fs o = .ok ps) :
    ((partsOf ps).map (·.part.execLines)).flatten = cs.flatMap chunkProgram := by
  induction cs generalizing fs o ps with
  | nil => simp [packageGroups] at h; subst h; rfl
  | cons c cs ih =>
    cases c with
    | text ls =>
      simp only [packageGroups, bind, Except.bind, pure, Except.pure] at h
      split at h
      · simp at h
      · rename_i rest hrest
        simp only [Except.ok.injEq] at h
        subst h
        simpa [partsOf, chunkProgram] using ih hrest
    | code src want =>
      simp only [packageGroups, bind, Except.bind, pure, Except.pure] at h
      split at h
      · simp at h
      · split at h
        · simp at h
        · rename_i parts hparts
          split at h
          · simp at h
          · rename_i rest hrest
            simp only [Except.ok.injEq] at h
            subst h
            rw [partsOf_append, partsOf_parts, List.map_append, List.flatten_append, ih hrest,
              (C01.chunk_partition hparts).1]
            simp [chunkProgram]

/-- ★ `parse_exec_lines_are_program`: for every successfully parsed docstring, the `exec_lines` of
    all parts, concatenated in order, are exactly the de-prompted source lines of all code chunks
    of the docstring, in source order — each line once, none added, none moved, and no text or
    want line among them -/
theorem parse_exec_lines_are_program (docstr : Str) (facts : List ChunkFacts) (ps : List Piece)
    (h : parse docstr facts = .ok ps) :
    ∃ chunks, chunksOf docstr = .ok chunks ∧
      ((partsOf ps).map (·.part.execLines)).flatten = chunks.flatMap chunkProgram := by
  unfold parse at h
  split at h
  · simp at h
  · rename_i labeled hl
    split at h
    · simp at h
    · rename_i chunks hg
      split at h
      · simp at h
      · rename_i ps' hp
        simp only [Except.ok.injEq] at h; subst h
        exact ⟨chunks, by simp [chunksOf, hl, hg, bind, Except.bind], packageGroups_program hp⟩

/-- a parsed part as `DocTest.run` sees it; `dirs` = the directives the part reports (`part.directives`:
    the ones the parser attached, or extracted from the source on demand) -/
def toRunPart (dirs : PPart → List Directive) (q : PPart) : RunPart :=
  { part := q.part, directives := dirs q }

variable {Env : Type}

/-- ★ `parse_run_eq_program`: parse a docstring, run ALL its parts as one doctest. If no part is
    skipped and the loop is not left early, then for EVERY semantics `sem` of executing a part
    * the final environment is `foldl sem` over the parts in order, in ONE environment, each part
      exactly once (`executed = [0, …, n-1]`), the logged stdout is that of the plain program, and
    * the sources of those parts, concatenated in order, are the de-prompted source lines of the
      docstring's code chunks in source order (C13/C01 `chunk_partition`).
    That the statements inside one part run one after the other is CPython's `exec` (oracle `sem`). -/
theorem parse_run_eq_program (docstr : Str) (facts : List ChunkFacts) (ps : List Piece)
    (dirs : PPart → List Directive)
    (sat : Str → Option Bool) (sem : Env → Nat → RunPart → ExecResult × Env) (cfg : RunCfg) (env0 : Env)
    (h : parse docstr facts = .ok ps)
    (hend : (runLoop sat sem cfg { env := env0, rs := RState.init cfg.defaults } 0
      ((partsOf ps).map (toRunPart dirs))).2 = none)
    (hskip : (run sat sem cfg env0 ((partsOf ps).map (toRunPart dirs))).state.skipped = []) :
    let parts := (partsOf ps).map (toRunPart dirs)
    (run sat sem cfg env0 parts).state.env =
      (parts.foldl (fun (acc : Env × Nat) p => ((sem acc.1 acc.2 p).2, acc.2 + 1)) (env0, 0)).1 ∧
    (run sat sem cfg env0 parts).state.logged.map (·.2) = (C01.program sem env0 0 parts).2 ∧
    (run sat sem cfg env0 parts).state.executed = List.range parts.length ∧
    ∃ chunks, chunksOf docstr = .ok chunks ∧
      (parts.map (·.part.execLines)).flatten = chunks.flatMap chunkProgram := by
  intro parts
  obtain ⟨h1, h2, _, h4⟩ := C01.run_eq_program sat sem cfg env0 parts hend hskip
  obtain ⟨chunks, hc, hp⟩ := parse_exec_lines_are_program docstr facts ps h
  refine ⟨by rw [h1, C01.program_eq_foldl], h2, h4, chunks, hc, ?_⟩
  rw [← hp]
  simp [parts, toRunPart, List.map_map, Function.comp_def]

/-- a semantics for the example: the environment counts the executed parts, part 1 prints the list -/
def exSem : Nat → Nat → RunPart → ExecResult × Nat := fun env i _ =>
  (.ok (if i = 1 then "[1, 2]\n".toList else []) .notEvaled, env + 1)

/-- non-vacuity of `parse_run_eq_program`: C13's example docstring, run with a counting semantics -/
example : C13.isOk (parse C13.exDoc C13.exFacts) = true ∧
    (match parse C13.exDoc C13.exFacts with
     | .ok ps =>
       let parts := (partsOf ps).map (toRunPart fun q => q.directives.getD [])
       decide ((runLoop (fun _ => none) exSem {} { env := 0, rs := RState.init [] } 0 parts).2 = none) &&
       decide ((run (fun _ => none) exSem {} 0 parts).state.skipped = []) &&
       decide ((run (fun _ => none) exSem {} 0 parts).state.env = 2) &&
       decide ((parts.map (·.part.execLines)).flatten =
         ["x = [1,".toList, "     2]".toList, "print(x)".toList])
     | .error _ => false) = true := by decide +kernel

/-! ## C18 ∘ C13 : re-parsing the display of a PARSED doctest

C18's `reparse_labels` takes the cleanliness of the parts (`CleanPart`: no line-break character in
any orig/want line), the absence of tabs and the shape of the lines as hypotheses about an
arbitrary part list. For the parts of a parsed docstring, C13's tiling gives: every orig/want line
is a line of `prepareLines` (minus indent), hence has no line break and no tab, and
`exec_lines = orig_lines` without the prompt. What stays a hypothesis (`ReparseResidue`): the parts
are not empty, no orig/want list ends with an empty line, and — the acknowledged gap — the
displayed lines are in the grammar of `C13Labels`. -/

theorem expandTabsGo_noTab_out (col : Nat) (s : Str) : '\t' ∉ expandTabsGo col s := by
  induction s generalizing col with
  | nil => simp [expandTabsGo]
  | cons c s ih =>
    simp only [expandTabsGo]
    split
    · intro hm
      rcases List.mem_append.mp hm with hm | hm
      · have := List.eq_of_mem_replicate hm; cases this
      · exact ih _ hm
    · next hc =>
      have hne : c ≠ '\t' := by simpa using hc
      split
      · intro hm
        rcases List.mem_cons.mp hm with hm | hm
        · exact hne hm.symm
        · exact ih _ hm
      · intro hm
        rcases List.mem_cons.mp hm with hm | hm
        · exact hne hm.symm
        · exact ih _ hm

/-- the lines the labeller sees contain no tab (`expandtabs` ran first) -/
theorem prepareLines_noTab (docstr : Str) : ∀ l ∈ prepareLines docstr, '\t' ∉ l := by
  intro l hl hc
  unfold prepareLines at hl
  simp only at hl
  have hs : '\t' ∉ expandTabs docstr := expandTabsGo_noTab_out 0 docstr
  have h1 := mem_of_mem_splitLines hl hc
  split at h1
  · rcases C18.mem_joinWith_nl h1 with h | ⟨r, hr, hcr⟩
    · cases h
    · obtain ⟨r0, hr0, rfl⟩ := List.mem_map.mp hr
      exact hs (mem_of_mem_splitLines hr0 (List.mem_of_mem_drop hcr))
  · exact hs h1

/-- a line without line breaks and tabs -/
def PlainLine (l : Str) : Prop := NoBreak l ∧ '\t' ∉ l

theorem plainLine_drop (l : Str) (n : Nat) (h : PlainLine l) : PlainLine (l.drop n) :=
  ⟨fun c hc => h.1 c (List.mem_of_mem_drop hc), fun hc => h.2 (List.mem_of_mem_drop hc)⟩

/-- ★ `parsed_parts_plain`: every part of a parsed docstring has its `orig_lines`, its `exec_lines`
    are those lines without the 4-column prompt, and no orig or want line contains a line-break
    character or a tab -/
theorem parsed_parts_plain (docstr : Str) (facts : List ChunkFacts) (ps : List Piece)
    (h : parse docstr facts = .ok ps) (p : Part) (hp : p ∈ C18.partsOf ps) :
    (∃ ls, p.origLines = some ls ∧ p.execLines = ls.map (·.drop 4) ∧ ∀ l ∈ ls, PlainLine l) ∧
    ∀ l ∈ C18.wantOf p, PlainLine l := by
  obtain ⟨labeled, chunks, _, hrel, _, ht, hflat⟩ := C13.parse_partition docstr facts ps h
  have hL : ∀ l ∈ chunks.flatMap chunkLines, PlainLine l := by
    intro l hl
    rw [hflat] at hl
    obtain ⟨x, hx, rfl⟩ := List.mem_map.mp hl
    refine ⟨forall2_lineRel_noBreak hrel (prepareLines_noBreak docstr) x hx, ?_⟩
    have := forall2_lineRel_allC (fun c => c == '\t') (by decide +kernel) hrel
      (fun l hl c hc => by
        have := prepareLines_noTab docstr l hl
        cases hct : (c == '\t') with
        | false => rfl
        | true => rw [beq_iff_eq] at hct; subst hct; exact absurd hc this) x hx
    intro hm
    have := this '\t' hm
    simp at this
  unfold C18.partsOf at hp
  obtain ⟨x, hx, hxe⟩ := List.mem_filterMap.mp hp
  cases x with
  | text s => simp at hxe
  | part q =>
    simp only [Option.some.injEq] at hxe; subst hxe
    exact tiles_part_lines plainLine_drop ht hL q hx

/-- what C13 does not (yet) give about the parts of a parsed doctest -/
structure ReparseResidue (parts : List Part) : Prop where
  nonempty : parts ≠ []
  hasLine : ∀ p ∈ parts, C18.origOf p ≠ []
  origLast : ∀ p ∈ parts, (C18.origOf p).getLast? ≠ some []
  wantLast : ∀ p ∈ parts, (C18.wantOf p).getLast? ≠ some []
  first : ∃ x ls, C18.shownLines parts = x :: ls ∧ hasPrefix x [ps1] = true

theorem parsed_parts_clean (docstr : Str) (facts : List ChunkFacts) (ps : List Piece)
    (h : parse docstr facts = .ok ps) (hr : ReparseResidue (C18.partsOf ps)) :
    (∀ p ∈ C18.partsOf ps, C18.CleanPart p) ∧
    (∀ p ∈ C18.partsOf ps, ∀ l ∈ C18.origOf p ++ C18.wantOf p, '\t' ∉ l) := by
  constructor
  · intro p hp
    obtain ⟨⟨ls, ho, _, hpl⟩, hw⟩ := parsed_parts_plain docstr facts ps h p hp
    have hne := hr.hasLine p hp
    have hlast := hr.origLast p hp
    simp only [C18.origOf, ho, Option.getD_some] at hne hlast
    cases ls with
    | nil => exact absurd rfl hne
    | cons x xs =>
      exact ⟨⟨x, xs, ho, fun l hl => (hpl l hl).1, hlast⟩,
        fun l hl => (hw l hl).1, hr.wantLast p hp⟩
  · intro p hp l hl
    obtain ⟨⟨ls, ho, _, hpl⟩, hw⟩ := parsed_parts_plain docstr facts ps h p hp
    rcases List.mem_append.mp hl with hl | hl
    · simp only [C18.origOf, ho, Option.getD_some] at hl
      exact (hpl l hl).2
    · exact (hw l hl).2

/-- ★ `reparse_labels_of_parse` (C18 `reparse_labels` ∘ C13): parse a docstring, display its parts
    with `format_src` (prompts and wants, no numbers), parse the display again. The labeller of the
    second parse receives exactly `orig_lines ++ want_lines`, part after part, and — whenever these
    lines are rendered by blocks of the grammar — labels them as intended; the executable lines of
    the first parse are the displayed source lines without their prompts. Cleanliness and absence of
    tabs are no longer hypotheses: they follow from the first parse. -/
theorem reparse_labels_of_parse (docstr : Str) (facts : List ChunkFacts) (ps : List Piece)
    (h : parse docstr facts = .ok ps) (hr : ReparseResidue (C18.partsOf ps))
    (bs : List C13.Block) (hbs : C18.shownLines (C18.partsOf ps) = bs.flatMap C13.Block.render)
    (hwf : ∀ b ∈ bs, b.WellFormedG ∧ b.ContOrdered) (hsep : C13.SeparatedG bs) :
    prepareLines (Format.formatSrc (C18.partsOf ps) 0 { linenos := false }) =
      C18.shownLines (C18.partsOf ps) ∧
    (∃ out, labelLines (prepareLines (Format.formatSrc (C18.partsOf ps) 0 { linenos := false })) = .ok out ∧
      out.map (·.1) = bs.flatMap C13.Block.intended) ∧
    ((C18.partsOf ps).map (·.execLines)).flatten =
      ((C18.partsOf ps).flatMap C18.origOf).map (·.drop 4) := by
  obtain ⟨hc, ht⟩ := parsed_parts_clean docstr facts ps h hr
  refine ⟨C18.prepareLines_formatSrc _ hc hr.nonempty ht hr.first,
    C18.reparse_labels _ hc hr.nonempty ht hr.first bs hbs hwf hsep, ?_⟩
  have key : ∀ (qs : List Part), (∀ p ∈ qs, p ∈ C18.partsOf ps) →
      (qs.map (·.execLines)).flatten = (qs.flatMap C18.origOf).map (·.drop 4) := by
    intro qs hq
    induction qs with
    | nil => rfl
    | cons q qs ih =>
      obtain ⟨⟨ls, ho, he, _⟩, _⟩ := parsed_parts_plain docstr facts ps h q (hq q (by simp))
      simp only [List.map_cons, List.flatten_cons, List.flatMap_cons, List.map_append]
      rw [ih (fun p hp => hq p (List.mem_cons_of_mem _ hp)), he]
      simp [C18.origOf, ho]
  exact key _ (fun p hp => hp)

/-- non-vacuity: the docstring `>>> x = 1` / `>>> x` / `1` parses into C18's example parts (up to the
    compile mode), which satisfy the residue and are in the grammar -/
def reDoc : Str := ">>> x = 1\n>>> x\n1".toList
def reFacts : List ChunkFacts := [.parsed [0, 1] true]

theorem reDoc_parts : (parse reDoc reFacts).toOption.map
    (fun ps => (C18.partsOf ps).map (fun p => (p.origLines, p.wantLines))) =
    some [(some [">>> x = 1".toList], none), (some [">>> x".toList], some ["1".toList])] := by
  decide +kernel

/-- decidable form of `ReparseResidue` -/
def residueB (parts : List Part) : Bool :=
  !parts.isEmpty &&
  parts.all (fun p => !(C18.origOf p).isEmpty && (C18.origOf p).getLast? != some [] &&
    (C18.wantOf p).getLast? != some []) &&
  (match C18.shownLines parts with | x :: _ => hasPrefix x [ps1] | [] => false)

theorem residue_of_b {parts : List Part} (h : residueB parts = true) : ReparseResidue parts := by
  simp only [residueB, Bool.and_eq_true, Bool.not_eq_eq_eq_not, Bool.not_true, List.isEmpty_eq_false_iff,
    List.all_eq_true, bne_iff_ne, ne_eq] at h
  obtain ⟨⟨h1, h2⟩, h3⟩ := h
  refine ⟨h1, fun p hp => (h2 p hp).1.1, fun p hp => (h2 p hp).1.2, fun p hp => (h2 p hp).2, ?_⟩
  cases hs : C18.shownLines parts with
  | nil => rw [hs] at h3; cases h3
  | cons x ls => rw [hs] at h3; exact ⟨x, ls, rfl, h3⟩

/-- non-vacuity of `reparse_labels_of_parse` -/
example : ∃ ps, parse reDoc reFacts = .ok ps ∧ ReparseResidue (C18.partsOf ps) ∧
    C18.shownLines (C18.partsOf ps) = C18.exBlocks.flatMap C13.Block.render ∧
    (∀ b ∈ C18.exBlocks, b.WellFormedG ∧ b.ContOrdered) ∧ C13.SeparatedG C18.exBlocks := by
  have hp : (parse reDoc reFacts).toOption.map (fun ps => residueB (C18.partsOf ps) &&
      decide (C18.shownLines (C18.partsOf ps) = C18.exBlocks.flatMap C13.Block.render)) = some true := by
    decide +kernel
  cases hps : parse reDoc reFacts with
  | error e => rw [hps] at hp; simp [Except.toOption] at hp
  | ok ps =>
    rw [hps] at hp
    simp only [Except.toOption, Option.map_some, Option.some.injEq, Bool.and_eq_true,
      decide_eq_true_eq] at hp
    exact ⟨ps, rfl, residue_of_b hp.1, hp.2,
      fun b hb => C13.Block.checkG_sound (List.all_eq_true.mp (by decide +kernel) b hb),
      C13.separatedGB_sound (by decide +kernel)⟩

end Xdoc.Compose

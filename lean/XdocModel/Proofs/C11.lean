import XdocModel.World
import XdocModel.Lemmas.World
/-!
# C11 — Runs are isolated: a doctest behaves the same whatever ran before it

Theorems about the world model (`World.lean`), for ALL programs, requirement oracles `sat`,
execution oracles `sem` (whose result may depend only on the namespace they are given — the
modelling assumption), worlds and histories (any order, repetition, subset):

* `module_globals_never_rebound`, `template_never_modified` : no run changes the module dict or the
  runtime-state template;
* `runstate_fresh` : the directive state a run starts from is built from the template and the
  doctest's own configuration only — whatever SKIP / REQUIRES / report style earlier runs (of any
  doctest, with any `on_error`) left behind;
* `other_doctests_never_matter` : with ANY `on_error`, the outcome of doctest `j` after a history
  equals its outcome after the sub-history of its own runs;
* `outcome_history_independent` : under the native discipline (`on_error='return'`) the outcome and
  logged output of a doctest are the same after any two histories;
* `names_invisible` : the namespace a doctest starts from is the module's names, nothing else;
* `stale_names_after_raise` (witness, K-C11-a): after a run that ended by propagating its failure
  (`on_error='raise'`) a re-run of the SAME object sees the names bound by the failed run.
-/
namespace Xdoc.C11
open Xdoc Py

variable {P : Prog} {sat : Str → Option Bool} {sem : Sem}

/-- ★ assignments made by doctests never rebind the globals of the module under test -/
theorem module_globals_never_rebound (P : Prog) (sat : Str → Option Bool) (sem : Sem) (w : World)
    (h : History) : (execHist P sat sem w h).moduleGlobals = w.moduleGlobals :=
  execHist_moduleGlobals w h

/-- ★ no run modifies `DEFAULT_RUNTIME_STATE` (every run works on a deep copy) -/
theorem template_never_modified (P : Prog) (sat : Str → Option Bool) (sem : Sem) (w : World)
    (h : History) : (execHist P sat sem w h).template = w.template :=
  execHist_template w h

/-- ★ `runstate_fresh`: after ANY history (any doctests, any `on_error`, any directives left
    switched on) the directive state the next run starts from is `freshRs`: the template plus the
    doctest's own configuration. In particular it does not depend on the history. -/
theorem runstate_fresh (P : Prog) (sat : Str → Option Bool) (sem : Sem) (w : World) (h : History)
    (i : Nat) (oe : OnError) (d : DocDef) (hd : P[i]? = some d) (hi : i < w.docs.length) :
    (runDoc P sat sem (execHist P sat sem w h) i oe).2.startRs = freshRs w.template d := by
  have hl : i < (execHist P sat sem w h).docs.length := by rw [execHist_docs_length]; exact hi
  unfold runDoc
  rw [hd, List.getElem?_eq_getElem hl]
  simp only [runCore, startState, execHist_template]

/-! ## other doctests never matter (any `on_error`) -/

/-- two worlds look the same to doctest `j` -/
def Agree (j : Nat) (w w' : World) : Prop :=
  w.template = w'.template ∧ w.moduleGlobals = w'.moduleGlobals ∧ w.docs[j]? = w'.docs[j]?

theorem runDoc_agree_self {w w' : World} {j : Nat} (h : Agree j w w') (oe : OnError) :
    (runDoc P sat sem w j oe).2 = (runDoc P sat sem w' j oe).2 ∧
    Agree j (runDoc P sat sem w j oe).1 (runDoc P sat sem w' j oe).1 := by
  obtain ⟨ht, hm, hd⟩ := h
  unfold runDoc
  rw [hd, ht, hm]
  cases hP : P[j]? with
  | none => exact ⟨rfl, ht, hm, hd⟩
  | some d =>
    cases hd' : w'.docs[j]? with
    | none => exact ⟨rfl, ht, hm, hd⟩
    | some st =>
      refine ⟨rfl, rfl, rfl, ?_⟩
      have h1 : j < w'.docs.length := (List.getElem?_eq_some_iff.mp hd').1
      have h2 : j < w.docs.length := by rw [hd'] at hd; exact (List.getElem?_eq_some_iff.mp hd).1
      simp [h1, h2]

theorem runDoc_agree_other (w : World) {i j : Nat} (hij : j ≠ i) (oe : OnError) :
    Agree j (runDoc P sat sem w i oe).1 w :=
  ⟨runDoc_template w i oe, runDoc_moduleGlobals w i oe, runDoc_docs_other w i j oe hij⟩

theorem agree_filter (j : Nat) (h : History) (w w' : World) (ha : Agree j w w') :
    Agree j (execHist P sat sem w h) (execHist P sat sem w' (h.filter (·.1 == j))) := by
  induction h generalizing w w' with
  | nil => exact ha
  | cons s h ih =>
    obtain ⟨i, oe⟩ := s
    by_cases hij : i = j
    · subst hij
      simp only [List.filter_cons, beq_self_eq_true, if_true, execHist]
      exact ih _ _ (runDoc_agree_self ha oe).2
    · have : ((i, oe).1 == j) = false := by simp [hij]
      simp only [List.filter_cons, this, execHist]
      refine ih _ _ ?_
      have hb := runDoc_agree_other (P := P) (sat := sat) (sem := sem) w (i := i) (j := j) (Ne.symm hij) oe
      exact ⟨hb.1.trans ha.1, hb.2.1.trans ha.2.1, hb.2.2.trans ha.2.2⟩

/-- ★ names bound (and anything else left behind) by OTHER doctests never reach doctest `j`:
    whatever the `on_error` modes, the outcome of `j` after a history is its outcome after the
    sub-history of its own runs -/
theorem other_doctests_never_matter (P : Prog) (sat : Str → Option Bool) (sem : Sem) (w : World)
    (h : History) (j : Nat) (oe : OnError) :
    (runDoc P sat sem (execHist P sat sem w h) j oe).2 =
    (runDoc P sat sem (execHist P sat sem w (h.filter (·.1 == j))) j oe).2 :=
  (runDoc_agree_self (agree_filter j h w w ⟨rfl, rfl, rfl⟩) oe).1

/-! ## history independence under the native discipline -/

/-- every `global_namespace` is empty (a session start; preserved by returning runs) -/
def Clean (w : World) : Prop := ∀ st ∈ w.docs, st.ns = []

instance (w : World) : Decidable (Clean w) := by unfold Clean; infer_instance

/-- the CPython fact also used by C09: an exception raised by executing doctest code carries a
    frame of the doctest in its traceback -/
def Frames (sem : Sem) : Prop := ∀ doc env i p o l, (sem doc env i p).1 ≠ .raised o l none

theorem runDoc_clean {w : World} (hc : Clean w) (hnat : ∀ d ∈ P, d.pytestMode = false)
    (hframe : Frames sem) (i : Nat) : Clean (runDoc P sat sem w i .ret).1 := by
  unfold runDoc
  cases hP : P[i]? with
  | none => exact hc
  | some d =>
    cases hd : w.docs[i]? with
    | none => exact hc
    | some st =>
      simp only
      intro st' hm
      rcases List.mem_or_eq_of_mem_set hm with h | h
      · exact hc st' h
      · subst h
        have hns : st.ns = [] := hc st (List.mem_of_getElem? hd)
        rw [hns]
        exact (runCore_clean (sem i) d w.template w.moduleGlobals
          (hnat d (List.mem_of_getElem? hP)) (hframe i)).1

theorem execHist_clean {w : World} (hc : Clean w) (hnat : ∀ d ∈ P, d.pytestMode = false)
    (hframe : Frames sem) (h : History) (hr : ∀ s ∈ h, s.2 = .ret) :
    Clean (execHist P sat sem w h) := by
  induction h generalizing w with
  | nil => exact hc
  | cons s h ih =>
    obtain ⟨i, oe⟩ := s
    have : oe = .ret := hr (i, oe) (by simp)
    subst this
    simp only [execHist]
    exact ih (runDoc_clean hc hnat hframe i) (fun s hs => hr s (by simp [hs]))

/-- in a clean world a run is a function of the template, the module dict and the number of objects -/
theorem runDoc_outcome_of_clean {w : World} (hc : Clean w) (i : Nat) (oe : OnError) :
    (runDoc P sat sem w i oe).2 =
      match P[i]? with
      | some d => if i < w.docs.length then (runCore sat (sem i) d oe w.template w.moduleGlobals []).2
                  else Outcome.absent
      | none => Outcome.absent := by
  unfold runDoc
  cases hP : P[i]? with
  | none => rfl
  | some d =>
    cases hd : w.docs[i]? with
    | none =>
      have : ¬ i < w.docs.length := by
        intro h; rw [List.getElem?_eq_getElem h] at hd; cases hd
      simp [this]
    | some st =>
      have hl : i < w.docs.length := (List.getElem?_eq_some_iff.mp hd).1
      have hns : st.ns = [] := hc st (List.mem_of_getElem? hd)
      simp [hl, hns]

/-- ★ `outcome_history_independent`: start a session with empty namespaces (`Clean`; every other
    persisted field of every object may hold anything). For all histories h₁ h₂ of runs under
    `on_error='return'` in native mode — any order, repetition, subset — the outcome and the logged
    output of doctest `i` after h₁ and after h₂ coincide. -/
theorem outcome_history_independent (P : Prog) (sat : Str → Option Bool) (sem : Sem) (w0 : World)
    (hclean : Clean w0) (hnat : ∀ d ∈ P, d.pytestMode = false) (hframe : Frames sem)
    (h₁ h₂ : History) (hr₁ : ∀ s ∈ h₁, s.2 = .ret) (hr₂ : ∀ s ∈ h₂, s.2 = .ret) (i : Nat) :
    (runDoc P sat sem (execHist P sat sem w0 h₁) i .ret).2 =
    (runDoc P sat sem (execHist P sat sem w0 h₂) i .ret).2 := by
  rw [runDoc_outcome_of_clean (execHist_clean hclean hnat hframe h₁ hr₁),
      runDoc_outcome_of_clean (execHist_clean hclean hnat hframe h₂ hr₂)]
  simp only [execHist_template, execHist_moduleGlobals, execHist_docs_length]

/-- ★ names bound by one doctest are not visible to another (nor to a re-run): after any history
    of returning runs, the namespace a doctest starts from holds the module's names and nothing else -/
theorem names_invisible (P : Prog) (sat : Str → Option Bool) (sem : Sem) (w0 : World)
    (hclean : Clean w0) (hnat : ∀ d ∈ P, d.pytestMode = false) (hframe : Frames sem)
    (h : History) (hr : ∀ s ∈ h, s.2 = .ret) (i : Nat) (d : DocDef) (hd : P[i]? = some d)
    (hi : i < w0.docs.length) :
    (runDoc P sat sem (execHist P sat sem w0 h) i .ret).2.startEnv = startEnvOf d w0.moduleGlobals [] := by
  rw [runDoc_outcome_of_clean (execHist_clean hclean hnat hframe h hr), hd]
  simp [execHist_docs_length, hi, runCore, startState, execHist_moduleGlobals]

/-- every returning run leaves its `global_namespace` empty -/
theorem namespace_cleared_after_return (P : Prog) (sat : Str → Option Bool) (sem : Sem) (w0 : World)
    (hclean : Clean w0) (hnat : ∀ d ∈ P, d.pytestMode = false) (hframe : Frames sem)
    (h : History) (hr : ∀ s ∈ h, s.2 = .ret) : Clean (execHist P sat sem w0 h) :=
  execHist_clean hclean hnat hframe h hr

/-! ## the mini oracle satisfies the hypotheses; concrete instances (non-vacuity) -/

theorem execStmts_frames (ev : EvalResult) (stmts : List Stmt) (ns : NS) (out : Str) (m : Bool) (ln : Nat)
    (o l : Str) : (execStmts ev ns out m ln stmts).1 ≠ .raised o l none := by
  induction stmts generalizing ns out m ln with
  | nil => simp [execStmts]
  | cons st rest ih =>
    cases st <;> simp only [execStmts] <;> (try exact ih _ _ _ _) <;> (try (split <;> first | exact ih _ _ _ _ | simp)) <;> simp

theorem semMini_frames (code : List (List (List Stmt))) : Frames (semMini code) := by
  intro doc env i p o l
  exact execStmts_frames _ _ _ _ _ _ o l

section Witness

/-- two doctests of one module with the global `G = 10`:
    doctest 0: `a = 1`, `G = G + 1`, then `# xdoctest: +SKIP` left switched on;
    doctest 1: `print(G)`, `print('a' in globals())`, `print(a)`  (reads a foreign name) -/
def exProg : Prog :=
  [{ parts := [{ part := { execLines := ["a = 1".toList, "G = G + 1".toList] } },
               { part := { execLines := ["# xdoctest: +SKIP".toList] }, directives := [{ name := "SKIP" }] }] },
   { parts := [{ part := { execLines := ["print(G)".toList, "print('a' in globals())".toList, "print(a)".toList] } }] }]
def exCode : List (List (List Stmt)) :=
  [[[.bind "a" 1, .inc "G"], [.nop]], [[.show "G", .probe "a", .show "a"]]]
def exSat : Str → Option Bool := fun _ => some true
def exW : World := World.initial exProg [("G", 10)]

example : Clean exW := by decide
example : ∀ d ∈ exProg, d.pytestMode = false := by decide
/-- doctest 1 after `0, 1, 0` = doctest 1 alone (instance of the theorem) -/
example : (runDoc exProg exSat (semMini exCode) (execHist exProg exSat (semMini exCode) exW
            [(0, .ret), (1, .ret), (0, .ret)]) 1 .ret).2 =
          (runDoc exProg exSat (semMini exCode) (execHist exProg exSat (semMini exCode) exW []) 1 .ret).2 :=
  outcome_history_independent exProg exSat (semMini exCode) exW (by decide) (by decide)
    (semMini_frames exCode) _ _ (by decide) (by decide) 1
/-- … and that outcome is the non-trivial one: `G` is still 10, `a` is not visible: NameError on line 3 -/
example : (runDoc exProg exSat (semMini exCode) (execHist exProg exSat (semMini exCode) exW
            [(0, .ret), (1, .ret), (0, .ret)]) 1 .ret).2.logged = [(0, "10\nFalse\n".toList)] := by
  decide +kernel
example : (runDoc exProg exSat (semMini exCode) (execHist exProg exSat (semMini exCode) exW
            [(0, .ret)]) 1 .ret).2.failure = some { kind := .exception, partIdx := 0, tbLineno := 3 } := by
  decide +kernel
/-- doctest 0 left SKIP on (its persisted `_runstate` says so) … -/
example : ((execHist exProg exSat (semMini exCode) exW [(0, .ret)]).docs[0]?.bind (·.runstate)).map
            (·.getBool "SKIP") = some (some true) := by decide +kernel
/-- … yet the next run of any doctest starts with SKIP off -/
example : (runDoc exProg exSat (semMini exCode) (execHist exProg exSat (semMini exCode) exW
            [(0, .ret)]) 1 .ret).2.startRs.getBool "SKIP" = some false := by decide +kernel

/-- K-C11-a: one doctest made from a bare string: `print('y' in globals())`, `y = 1`,
    `raise ValueError('boom')` -/
def kProg : Prog :=
  [{ parts := [{ part := { execLines := ["print('y' in globals())".toList, "y = 1".toList,
                                          "raise ValueError('boom')".toList] } }],
     hasModule := false }]
def kCode : List (List (List Stmt)) := [[[.probe "y", .bind "y" 1, .fail]]]
def kW : World := World.initial kProg []

/-- ☆ witness of K-C11-a: run under `on_error='raise'` the failure propagates and the namespace is
    NOT cleared; a re-run of the same object then prints `True` where a fresh one prints `False` -/
theorem stale_names_after_raise :
    (runDoc kProg exSat (semMini kCode) kW 0 .raise).2.ending = .raised .exception ∧
    ((runDoc kProg exSat (semMini kCode) kW 0 .raise).1.docs[0]?.map (·.ns)) = some [("y", 1)] ∧
    (runDoc kProg exSat (semMini kCode) (runDoc kProg exSat (semMini kCode) kW 0 .raise).1 0 .ret).2.logged
      = [(0, "True\n".toList)] ∧
    (runDoc kProg exSat (semMini kCode) kW 0 .ret).2.logged = [(0, "False\n".toList)] := by
  decide +kernel

/-- the same object re-run after a RETURNING failure is clean again (the finding needs `raise`) -/
example : (runDoc kProg exSat (semMini kCode) (runDoc kProg exSat (semMini kCode) kW 0 .ret).1 0 .ret).2.logged
    = [(0, "False\n".toList)] := by decide +kernel

end Witness

end Xdoc.C11

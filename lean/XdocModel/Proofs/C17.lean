import XdocModel.Import
import XdocModel.Lemmas.Import
/-!
# C17 — module name ↔ path resolution agrees with Python's import system

Property theorems only (helper lemmas: `Lemmas/Import.lean`). All statements quantify over ALL
file systems `fs` (two arbitrary predicates on component lists), all search path entries and all
dotted names of any depth.

Decision on PEP 420 namespace packages: the specification `pyResolve` is the *regular-package*
rule of `importlib`'s `FileFinder` (a spec with a loader). A directory without `__init__.py`
only yields a namespace *portion* (`spec.loader is None`, no file, no package directory), so it
ends the resolution — which is what xdoctest does (its docstrings say so; `TODO: PEP 420`). That
the interpreter can nevertheless import `ns.mod` through a namespace package is recorded by the
harness as known finding K-C17-a, not hidden in the model.
-/
namespace Xdoc.C17
open Xdoc Py Import

/-! ## resolution = the interpreter's regular-package rule -/

/-- ★ One search path entry: `_syspath_modname_to_modpath` finds exactly the package directory /
    module file that `FileFinder`, applied component by component, finds — and nothing when it
    finds nothing. Guard `NoInitDir`: `_isvalid` uses `exists` where the interpreter uses
    `isfile` (see `resolve_ne_python_init_directory` for the excluded point). -/
theorem resolve_eq_python (fs : FS) (hwf : FS.WF fs) (hinit : NoInitDir fs)
    (base : Path) (n : List Comp) (hn : n ≠ []) :
    checkDpath fs base n = (pyResolve fs base n).map Found.path := by
  induction n generalizing base with
  | nil => exact absurd rfl hn
  | cons c rest ih =>
    cases rest with
    | nil =>
      simp only [checkDpath, isValid_single, withExt, pyResolve, finderStep,
        Bool.and_true]
      split
      · rfl
      · split <;> rfl
    | cons c' cs =>
      rw [checkDpath_cons fs base c (by simp), hinit.ex_eq]
      have hstep : pyResolve fs base (c :: c' :: cs) =
          match finderStep fs base c with
          | some (.pkg d) => pyResolve fs d (c' :: cs)
          | _ => none := rfl
      rw [hstep]
      cases hf : fs.isFile (base ++ [c] ++ [initPy]) with
      | true =>
        have hex : fs.ex (base ++ [c]) = true := by
          exact FS.ex_of_isDir (hwf.parent_dir _ _ (FS.ex_of_isFile hf))
        simp only [finderStep, hex, hf, Bool.and_self, ↓reduceIte]
        exact ih (base ++ [c]) (by simp)
      | false =>
        simp only [finderStep, hf, Bool.and_false, Bool.false_eq_true, ↓reduceIte]
        cases fs.isFile (base ++ [c ++ dotPy]) <;> rfl

theorem pyResolve_isFile (fs : FS) (base : Path) (n : List Comp) (r : Found)
    (h : pyResolve fs base n = some r) : fs.isFile r.origin = true := by
  induction n generalizing base with
  | nil => simp [pyResolve] at h
  | cons c rest ih =>
    have hstep : ∀ r, finderStep fs base c = some r → fs.isFile r.origin = true := by
      intro r hr
      unfold finderStep at hr
      split at hr
      · rename_i h1
        cases Option.some.inj hr
        simp only [Bool.and_eq_true] at h1
        simpa [Found.origin] using h1.2
      · split at hr
        · rename_i _ h2
          cases Option.some.inj hr
          simpa [Found.origin] using h2
        · cases hr
    cases rest with
    | nil => exact hstep r h
    | cons c' cs =>
      have hs : pyResolve fs base (c :: c' :: cs) =
          match finderStep fs base c with
          | some (.pkg d) => pyResolve fs d (c' :: cs)
          | _ => none := rfl
      rw [hs] at h
      split at h
      · exact ih _ h
      · cases h

/-- ★ `modname_to_modpath(name, hide_init=False, sys_path=[entry])` is the `origin` of the spec
    the interpreter finds: the very file whose code would be executed. -/
theorem resolve_origin_eq_python (fs : FS) (hwf : FS.WF fs) (hinit : NoInitDir fs)
    (base : Path) (n : List Comp) (hn : n ≠ []) :
    modnameToModpath fs [base] n false false = (pyResolve fs base n).map Found.origin := by
  have h1 : syspathResolve fs [base] n = checkDpath fs base n := by
    simp only [syspathResolve, List.findSome?]
    cases checkDpath fs base n <;> rfl
  simp only [modnameToModpath, h1, resolve_eq_python fs hwf hinit base n hn]
  cases hr : pyResolve fs base n with
  | none => rfl
  | some r =>
    have hfile := pyResolve_isFile fs base n r hr
    cases r with
    | pkg d =>
      have : fs.ex (d ++ [initPy]) = true := by
        simp only [Found.origin] at hfile
        simp [FS.ex, hfile]
      simp [normalizeModpath, Found.path, Found.origin, this]
    | mod f =>
      simp only [Found.origin] at hfile
      have : fs.ex (f ++ [initPy]) = false := by
        cases hq : fs.ex (f ++ [initPy]) with
        | false => rfl
        | true =>
          have h2 := hwf.parent_dir _ _ hq
          rw [hwf.file_not_dir _ hfile] at h2
          cases h2
      simp [normalizeModpath, Found.path, Found.origin, this]

/-- "nothing when the interpreter would find nothing there" -/
theorem importable_iff_python (fs : FS) (hwf : FS.WF fs) (hinit : NoInitDir fs)
    (base : Path) (n : List Comp) (hn : n ≠ []) :
    isImportable fs [base] n = (pyResolve fs base n).isSome := by
  have h1 : syspathResolve fs [base] n = checkDpath fs base n := by
    simp only [syspathResolve, List.findSome?]
    cases checkDpath fs base n <;> rfl
  simp only [isImportable, h1, resolve_eq_python fs hwf hinit base n hn]
  cases pyResolve fs base n <;> rfl

/-! ## `_isvalid` -/

/-- ★ what `_isvalid` decides: every directory strictly between the search path entry and the
    module holds an `__init__.py` -/
theorem isvalid_spec (fs : FS) (base : Path) (rel : List Comp) :
    isValid fs base rel = true ↔
      ∀ pre suf, rel.dropLast = pre ++ suf → pre ≠ [] → fs.ex (base ++ pre ++ [initPy]) = true := by
  unfold isValid
  exact isValidUp_iff fs base rel.dropLast

/-- ★ the literal walk of `_isvalid` (compare `subdir` with `base`, go to `dirname`) stops at the
    entry for every path `check_dpath` builds (`join(base, …)`): it never reaches the root, where
    the real loop would spin if `/__init__.py` existed; and it computes `isValidUp`. The model
    functions themselves are structurally recursive (no fuel). -/
theorem isvalid_terminates (fs : FS) (base : Path) (dirs : List Comp) :
    isValidWalk fs base (base ++ dirs).reverse = some (isValidUp fs base dirs.reverse) := by
  rw [List.reverse_append]
  generalize dirs.reverse = up
  induction up with
  | nil =>
    simp only [List.nil_append, isValidUp]
    cases hb : base.reverse with
    | nil =>
      have : base = [] := by simpa using hb
      simp [isValidWalk, this]
    | cons d u =>
      have : (d :: u).reverse = base := by rw [← hb]; simp
      simp [isValidWalk, this]
  | cons x u ih =>
    have hrev : (x :: (u ++ base.reverse)).reverse = base ++ (x :: u).reverse := by simp
    have hne : base ++ (x :: u).reverse ≠ base := by
      intro h
      have := congrArg List.length h
      simp at this
    simp only [List.cons_append, isValidWalk, hrev, hne, ↓reduceIte, isValidUp, ih]
    cases fs.ex (base ++ (x :: u).reverse ++ [initPy]) <;> simp

/-! ## `split_modpath` -/

/-- ★ `split_modpath(p)` returns `(d, rel)` with `d ++ rel = p`, no `__init__.py` in `d`, one in
    every directory of `rel` (so `d` is the directory that must be on the search path); `p` exists
    and, when a directory, is a package. -/
theorem split_modpath_spec (fs : FS) (p : Path) (hp : p ≠ []) (d : Path) (rel : List Comp)
    (h : splitModpath fs p = .ok (d, rel)) :
    d ++ rel = p ∧ rel ≠ [] ∧ fs.ex (d ++ [initPy]) = false ∧
    (∀ pre suf, rel = pre ++ suf → pre ≠ [] → suf ≠ [] → fs.ex (d ++ pre ++ [initPy]) = true) ∧
    fs.ex p = true ∧ (fs.isDir p = true → fs.ex (p ++ [initPy]) = true) := by
  unfold splitModpath at h
  split at h
  · cases h
  · rename_i h1
    split at h
    · cases h
    · rename_i h2
      have hex : fs.ex p = true := by
        cases hq : fs.ex p with
        | true => rfl
        | false => simp [hq] at h1
      have hdir : fs.isDir p = true → fs.ex (p ++ [initPy]) = true := by
        intro hd
        cases hq : fs.ex (p ++ [initPy]) with
        | true => rfl
        | false => simp [hd, hq] at h2
      rcases List.eq_nil_or_concat p with rfl | ⟨dir, f, rfl⟩
      · exact absurd rfl hp
      · simp only [List.concat_eq_append] at *
        have hr : (dir ++ [f]).reverse = f :: dir.reverse := by simp
        rw [hr] at h
        simp only at h
        obtain ⟨hno, cl, hrel, hrev, hall⟩ := walkUp_spec fs dir.reverse [f] d rel h
        have hdir' : dir = d ++ cl := by simpa using hrev
        refine ⟨by simp [hrel, hdir'], by simp [hrel], hno, ?_, hex, hdir⟩
        intro pre suf he hne hsuf
        rcases List.eq_nil_or_concat suf with rfl | ⟨s', y, rfl⟩
        · exact absurd rfl hsuf
        · have he' : cl ++ [f] = (pre ++ s') ++ [y] := by
            rw [← hrel]; simpa [List.append_assoc] using he
          have := List.append_inj' he' rfl
          exact hall pre s' this.1 hne

/-- ★ the specification determines the answer: there is exactly one such split -/
theorem split_modpath_unique (fs : FS) (d d' : Path) (rel rel' : List Comp)
    (heq : d ++ rel = d' ++ rel') (hne : rel ≠ []) (hne' : rel' ≠ [])
    (hd : fs.ex (d ++ [initPy]) = false) (hd' : fs.ex (d' ++ [initPy]) = false)
    (hr : ∀ pre suf, rel = pre ++ suf → pre ≠ [] → suf ≠ [] → fs.ex (d ++ pre ++ [initPy]) = true)
    (hr' : ∀ pre suf, rel' = pre ++ suf → pre ≠ [] → suf ≠ [] → fs.ex (d' ++ pre ++ [initPy]) = true) :
    d = d' ∧ rel = rel' := by
  rcases List.append_eq_append_iff.mp heq with ⟨a, ha, hb⟩ | ⟨c, hc, hb⟩
  · cases a with
    | nil => simp at ha hb; exact ⟨ha.symm, hb⟩
    | cons x xs =>
      have := hr (x :: xs) rel' hb (by simp) hne'
      rw [← ha, hd'] at this
      cases this
  · cases c with
    | nil => simp at hc hb; exact ⟨hc, hb.symm⟩
    | cons x xs =>
      have := hr' (x :: xs) rel hb (by simp) hne
      rw [← hc, hd] at this
      cases this

/-! ## round trip name → path → name -/

/-- ★ `modpath_to_modname(modname_to_modpath(name, sys_path=[entry])) == name` (default flags).
    Guards: the name is well formed (`NameOK`: non-empty components without `.` and separators),
    the search path entry is not itself a package (`hbase`; excluded point:
    `roundtrip_fails_entry_is_package`), and the last component is not `__init__` (`hleaf`;
    excluded point: `roundtrip_init_leaf`, the answer is the package's name). -/
theorem roundtrip (fs : FS) (hwf : FS.WF fs) (base : Path) (n : List Comp) (hn : n ≠ [])
    (hok : NameOK n) (hbase : fs.ex (base ++ [initPy]) = false)
    (hleaf : n.getLast? ≠ some initName)
    (p : Path) (h : modnameToModpath fs [base] n = some p) :
    modpathToModname fs p = .ok (dotted n) := by
  have h1 : syspathResolve fs [base] n = checkDpath fs base n := by
    simp only [syspathResolve, List.findSome?]
    cases checkDpath fs base n <;> rfl
  simp only [modnameToModpath, h1, Option.map_eq_some_iff] at h
  obtain ⟨q, hq, hpq⟩ := h
  rcases List.eq_nil_or_concat n with rfl | ⟨dirs, leaf, rfl⟩
  · exact absurd rfl hn
  · simp only [List.concat_eq_append] at *
    have hleafok : CompOK leaf := hok leaf (by simp)
    have hdirsok : ∀ c ∈ dirs, CompOK c := fun c hc => hok c (by simp [hc])
    have hleaf' : leaf ≠ initName := by simpa using hleaf
    rcases checkDpath_some hq with ⟨rfl, hex, hfile, hv⟩ | ⟨rfl, hfile, hv⟩
    · -- package directory
      have hv' : isValidUp fs base dirs.reverse = true := by simpa [isValid] using hv
      have hne : leaf ≠ initPy := by
        intro e; exact hleafok.2.1 (e ▸ (by decide : '.' ∈ initPy))
      have hn : normalizeModpath fs (base ++ (dirs ++ [leaf])) = base ++ (dirs ++ [leaf]) := by
        apply normalize_default_id; simp [List.getLast?_append, hne]
      rw [← hpq, hn, ← List.append_assoc]
      rw [modpathToModname_of_chain fs base dirs leaf (by simpa [List.append_assoc] using hex)
        (fun _ => by simp [FS.ex, List.append_assoc] at hfile ⊢; simp [hfile]) hne hv' hbase]
      rw [relToModname_joinSlash dirs leaf leaf hdirsok hleafok.2.2.1 hleafok
        (stemOfBase_noDot leaf hleafok.2.1)]
    · -- module file
      have hv' : isValidUp fs base dirs.reverse = true := by simpa [isValid] using hv
      rw [withExt_concat] at hfile hpq
      have hne : leaf ++ dotPy ≠ initPy := by
        intro e
        have : leaf ++ dotPy = initName ++ dotPy := e
        exact hleaf' (List.append_cancel_right this)
      have hn : normalizeModpath fs (base ++ (dirs ++ [leaf ++ dotPy])) = base ++ (dirs ++ [leaf ++ dotPy]) := by
        apply normalize_default_id; simp [List.getLast?_append, hne]
      have hfile' : fs.isFile (base ++ dirs ++ [leaf ++ dotPy]) = true := by
        simpa [List.append_assoc] using hfile
      rw [← hpq, hn, ← List.append_assoc]
      rw [modpathToModname_of_chain fs base dirs (leaf ++ dotPy) (FS.ex_of_isFile hfile')
        (by intro hd; rw [hwf.file_not_dir _ hfile'] at hd; cases hd) hne hv' hbase]
      have hslash : '/' ∉ leaf ++ dotPy := by
        intro hm
        rcases List.mem_append.mp hm with h' | h'
        · exact hleafok.2.2.1 h'
        · revert h'; decide
      rw [relToModname_joinSlash dirs (leaf ++ dotPy) leaf hdirsok hslash hleafok
        (stemOfBase_ext leaf hleafok.2.1 hleafok.1)]

/-! ## several search path entries -/

/-- ★ the first entry that resolves the name wins -/
theorem first_entry_wins (fs : FS) (b : Path) (bs : List Path) (n : List Comp) (p : Path)
    (h : checkDpath fs b n = some p) : syspathResolve fs (b :: bs) n = some p := by
  simp [syspathResolve, List.findSome?, h]

/-- ★ a later entry is consulted only if every earlier one fails -/
theorem later_entry_iff_earlier_fail (fs : FS) (b : Path) (bs : List Path) (n : List Comp)
    (h : checkDpath fs b n = none) : syspathResolve fs (b :: bs) n = syspathResolve fs bs n := by
  simp [syspathResolve, List.findSome?, h]

/-- no shadowing: every entry that is passed over (it does not resolve the whole name) does not
    know the top-level name either -/
def noShadow (fs : FS) : List Path → List Comp → Bool
  | [], _ => true
  | e :: es, n =>
    (checkDpath fs e n).isSome ||
      (n.head?.all (fun c => (finderStep fs e c).isNone) && noShadow fs es n)

/-- ★ several entries: agreement with `PathFinder` (first entry that knows the TOP-LEVEL name
    fixes the package) unless an earlier entry holds a same-named top-level package/module that
    lacks the submodule (`noShadow`; excluded point: `shadowing_disagrees`). -/
theorem resolve_path_eq_python (fs : FS) (hwf : FS.WF fs) (hinit : NoInitDir fs)
    (entries : List Path) (n : List Comp) (hn : n ≠ []) (hs : noShadow fs entries n = true) :
    syspathResolve fs entries n = (pyResolvePath fs entries n).map Found.path := by
  cases n with
  | nil => exact absurd rfl hn
  | cons c rest =>
    induction entries with
    | nil => cases rest <;> simp [syspathResolve, pyResolvePath]
    | cons e es ih =>
      have he := resolve_eq_python fs hwf hinit e (c :: rest) hn
      cases hc : checkDpath fs e (c :: rest) with
      | none =>
        have hs2 : (finderStep fs e c).isNone = true ∧ noShadow fs es (c :: rest) = true := by
          simpa [noShadow, hc] using hs
        have hnone : finderStep fs e c = none := by simpa using hs2.1
        rw [later_entry_iff_earlier_fail fs e es _ hc, ih hs2.2]
        cases rest <;> simp [pyResolvePath, List.findSome?, hnone]
      | some p =>
        rw [first_entry_wins fs e es _ _ hc]
        rw [he] at hc
        cases rest with
        | nil =>
          cases hf : finderStep fs e c with
          | none => simp [pyResolve, hf] at hc
          | some r =>
            simp only [pyResolve, hf, Option.map_some, Option.some.injEq] at hc
            simp [pyResolvePath, List.findSome?, hf, hc]
        | cons c' cs =>
          have hstep : pyResolve fs e (c :: c' :: cs) =
              match finderStep fs e c with
              | some (.pkg d) => pyResolve fs d (c' :: cs)
              | _ => none := rfl
          rw [hstep] at hc
          cases hf : finderStep fs e c with
          | none => simp [hf] at hc
          | some r =>
            cases r with
            | mod f => simp [hf] at hc
            | pkg d =>
              simp only [hf] at hc
              simp [pyResolvePath, List.findSome?, hf, hc]

/-! ## Non-vacuity: a concrete tree satisfying every hypothesis, and the excluded points -/

/-- component from a literal -/
abbrev s (x : String) : Comp := x.toList

/-- `/r` holds: package `a` (with `__main__.py`), sub-package `a.b` with module `a.b.m`, a module
    file `a/b.py` shadowed by the package `a/b/`, a top-level module `top`, a directory `ns`
    without `__init__.py` holding `ns/x.py`, a package `e` (used as a search path entry that is
    itself a package) holding `e.p.q`; `/r2` holds a second top-level package `a` with `a.z`. -/
def exFiles : List Path := [
  [s "r", s "a", s "__init__.py"], [s "r", s "a", s "__main__.py"], [s "r", s "a", s "b.py"],
  [s "r", s "a", s "b", s "__init__.py"], [s "r", s "a", s "b", s "m.py"], [s "r", s "top.py"],
  [s "r", s "ns", s "x.py"],
  [s "r", s "e", s "__init__.py"], [s "r", s "e", s "p", s "__init__.py"], [s "r", s "e", s "p", s "q.py"],
  [s "r2", s "a", s "__init__.py"], [s "r2", s "a", s "z.py"]]
def exDirs : List Path := [
  [], [s "r"], [s "r", s "a"], [s "r", s "a", s "b"], [s "r", s "ns"], [s "r", s "e"],
  [s "r", s "e", s "p"], [s "r2"], [s "r2", s "a"]]
def exFS : FS := FS.ofLists exFiles exDirs

theorem exFS_wf : FS.WF exFS := wf_ofLists _ _ (by decide +kernel)
theorem exFS_noInitDir : NoInitDir exFS := noInitDir_ofLists _ _ (by decide +kernel)

/-- `resolve_eq_python`, non-trivially: a three-component module, a package that beats the module
    file of the same name, a module in a directory without init (not found), an absent name -/
example : checkDpath exFS [s "r"] [s "a", s "b", s "m"] = some [s "r", s "a", s "b", s "m.py"] ∧
    pyResolve exFS [s "r"] [s "a", s "b", s "m"] = some (.mod [s "r", s "a", s "b", s "m.py"]) ∧
    checkDpath exFS [s "r"] [s "a", s "b"] = some [s "r", s "a", s "b"] ∧
    pyResolve exFS [s "r"] [s "a", s "b"] = some (.pkg [s "r", s "a", s "b"]) ∧
    checkDpath exFS [s "r"] [s "ns", s "x"] = none ∧ pyResolve exFS [s "r"] [s "ns", s "x"] = none ∧
    checkDpath exFS [s "r"] [s "a", s "nope"] = none := by decide +kernel
example : checkDpath exFS [s "r"] [s "a", s "b", s "m"]
    = (pyResolve exFS [s "r"] [s "a", s "b", s "m"]).map Found.path :=
  resolve_eq_python exFS exFS_wf exFS_noInitDir _ _ (by simp)
example : modnameToModpath exFS [[s "r"]] [s "a", s "b"] false false
    = some [s "r", s "a", s "b", s "__init__.py"] := by decide +kernel

/-- excluded point of `NoInitDir` (witness): a DIRECTORY named `__init__.py` inside `w` makes
    xdoctest treat `w` as a package (`exists`), the interpreter's regular-package rule (`isfile`)
    does not. The real code agrees with the model here (harness suite `initdir`). -/
theorem resolve_ne_python_init_directory :
    let fs := FS.ofLists [[s "r", s "w", s "m.py"]] [[], [s "r"], [s "r", s "w"], [s "r", s "w", s "__init__.py"]]
    FS.WF fs ∧ checkDpath fs [s "r"] [s "w", s "m"] = some [s "r", s "w", s "m.py"] ∧
      pyResolve fs [s "r"] [s "w", s "m"] = none := by
  refine ⟨wf_ofLists _ _ (by decide +kernel), by decide +kernel, by decide +kernel⟩

/-- `roundtrip`, non-trivially (module, package, `__main__` file), with all guards holding -/
example : NameOK [s "a", s "b", s "m"] ∧ exFS.ex ([s "r"] ++ [initPy]) = false ∧
    [s "a", s "b", s "m"].getLast? ≠ some initName ∧
    modnameToModpath exFS [[s "r"]] [s "a", s "b", s "m"] = some [s "r", s "a", s "b", s "m.py"] ∧
    modpathToModname exFS [s "r", s "a", s "b", s "m.py"] = .ok (s "a.b.m") ∧
    modpathToModname exFS [s "r", s "a", s "b"] = .ok (s "a.b") ∧
    modnameToModpath exFS [[s "r"]] [s "a", s "__main__"] = some [s "r", s "a", s "__main__.py"] ∧
    modpathToModname exFS [s "r", s "a", s "__main__.py"] = .ok (s "a.__main__") ∧
    modpathToModname exFS [s "r", s "a", s "__main__.py"] true true = .ok (s "a") := by
  refine ⟨?_, by decide +kernel, by decide +kernel, by decide +kernel, by decide +kernel,
    by decide +kernel, by decide +kernel, by decide +kernel, by decide +kernel⟩
  intro c hc
  simp only [List.mem_cons, List.not_mem_nil, or_false] at hc
  rcases hc with rfl | rfl | rfl <;> (unfold CompOK; decide +kernel)

/-- excluded point of `hbase` (witness): when the search path entry is itself a package, the
    walk climbs past it and the name comes back prefixed (`p.q ↦ e.p.q`). Same on the real code. -/
theorem roundtrip_fails_entry_is_package :
    modnameToModpath exFS [[s "r", s "e"]] [s "p", s "q"] = some [s "r", s "e", s "p", s "q.py"] ∧
    modpathToModname exFS [s "r", s "e", s "p", s "q.py"] = .ok (s "e.p.q") := by decide +kernel

/-- excluded point of `hleaf` (witness): `a.__init__` resolves to the package directory
    (`hide_init`), whose name is `a`. Same on the real code. -/
theorem roundtrip_init_leaf :
    modnameToModpath exFS [[s "r"]] [s "a", s "__init__"] = some [s "r", s "a"] ∧
    modpathToModname exFS [s "r", s "a"] = .ok (s "a") ∧
    pyResolve exFS [s "r"] [s "a", s "__init__"] = some (.mod [s "r", s "a", s "__init__.py"]) := by
  decide +kernel

/-- `split_modpath_spec`, non-trivially: three levels of packages -/
example : splitModpath exFS [s "r", s "a", s "b", s "m.py"] = .ok ([s "r"], [s "a", s "b", s "m.py"]) ∧
    splitModpath exFS [s "r", s "ns", s "x.py"] = .ok ([s "r", s "ns"], [s "x.py"]) ∧
    splitModpath exFS [s "r", s "ns"] = .error .notAModule ∧
    splitModpath exFS [s "r", s "nope"] = .error .doesNotExist := by decide +kernel

/-- `isvalid_spec` / `isvalid_terminates`, non-trivially (valid chain, broken chain) -/
example : isValid exFS [s "r"] [s "a", s "b", s "m.py"] = true ∧
    isValid exFS [s "r"] [s "ns", s "x.py"] = false ∧
    isValidWalk exFS [s "r"] [s "b", s "a", s "r"] = some true := by decide +kernel

/-- `first_entry_wins` / `resolve_path_eq_python`, non-trivially, and the excluded point of
    `NoShadow` (witness): `/r/a` shadows `/r2/a` for the interpreter, so `a.z` is not importable
    with `sys.path = [/r, /r2]`; xdoctest searches every entry for the whole name and finds
    `/r2/a/z.py`. (The property text speaks of ONE search path entry; recorded as an observation.) -/
theorem shadowing_disagrees :
    syspathResolve exFS [[s "r"], [s "r2"]] [s "a", s "z"] = some [s "r2", s "a", s "z.py"] ∧
    pyResolvePath exFS [[s "r"], [s "r2"]] [s "a", s "z"] = none ∧
    syspathResolve exFS [[s "r2"], [s "r"]] [s "a", s "z"] = some [s "r2", s "a", s "z.py"] ∧
    pyResolvePath exFS [[s "r2"], [s "r"]] [s "a", s "z"] = some (.mod [s "r2", s "a", s "z.py"]) := by
  decide +kernel
example : noShadow exFS [[s "r2"], [s "r"]] [s "a", s "z"] = true ∧
    noShadow exFS [[s "r"], [s "r2"]] [s "a", s "z"] = false ∧
    noShadow exFS [[s "r2"], [s "r"]] [s "top"] = true := by decide +kernel

/-! ## `relativeto`, `hide_main` -/

/-- ★ `modpath_to_modname(base/d₁/…/leaf.py, relativeto=base/x)` is `d₁.….leaf`: with `relativeto`
    the directory of the root module is taken as the search path entry, whatever `__init__.py`
    files exist (no file system access apart from normalisation). -/
theorem relativeto_spec (fs : FS) (base : Path) (x : Comp) (dirs : List Comp) (leaf : Comp)
    (hok : NameOK (dirs ++ [leaf])) (hleaf : leaf ≠ initName) :
    modpathToModnameRel fs (base ++ dirs ++ [leaf ++ dotPy]) (base ++ [x]) = dotted (dirs ++ [leaf]) := by
  have hleafok : CompOK leaf := hok leaf (by simp)
  have hdirsok : ∀ c ∈ dirs, CompOK c := fun c hc => hok c (by simp [hc])
  have hne : leaf ++ dotPy ≠ initPy := by
    intro e
    have : leaf ++ dotPy = initName ++ dotPy := e
    exact hleaf (List.append_cancel_right this)
  have hn : normalizeModpath fs (base ++ dirs ++ [leaf ++ dotPy]) = base ++ dirs ++ [leaf ++ dotPy] := by
    apply normalize_default_id; simp [List.getLast?_append, hne]
  have hslash : '/' ∉ leaf ++ dotPy := by
    intro hm
    rcases List.mem_append.mp hm with h' | h'
    · exact hleafok.2.2.1 h'
    · revert h'; decide
  unfold modpathToModnameRel
  rw [hn]
  simp only [List.dropLast_concat, List.append_assoc, relpath_append]
  have hne2 : (dirs ++ [leaf ++ dotPy]).isEmpty = false := by cases dirs <;> rfl
  simp only [hne2, Bool.false_eq_true, ↓reduceIte]
  exact relToModname_joinSlash dirs (leaf ++ dotPy) leaf hdirsok hslash hleafok
    (stemOfBase_ext leaf hleafok.2.1 hleafok.1)

example : modpathToModnameRel exFS [s "r", s "a", s "b", s "m.py"] [s "r", s "a"] = s "a.b.m" ∧
    modpathToModnameRel exFS [s "r", s "ns", s "x.py"] [s "r", s "ns"] = s "ns.x" := by decide +kernel

end Xdoc.C17

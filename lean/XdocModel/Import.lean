import XdocModel.Py.Str
/-!
# Model of `xdoctest/utils/util_import.py` (module name ↔ path)

The file system is a *parameter*: two predicates `isFile isDir : Path → Bool` over component
lists (`Path := List Comp`, a component is a `Str`; the root directory is `[]`), so every theorem
quantifies over ALL trees of any depth and width. `os.path` (join, dirname, basename, split,
abspath, normpath) is CPython, not xdoctest: a path string is represented by the component list
of its absolute normal form; the harness does that translation (and checks it on every case).

Modelled (the code that exists, quirks included):

* `_syspath_modname_to_modpath`: `check_dpath` for one search path entry — the package
  directory candidate first (`exists(dir) and isfile(dir/__init__.py) and _isvalid`), then the
  module file `name.py` (`isfile and _isvalid`); first search path entry with a hit wins.
  `_isvalid` walks from `dirname(modpath)` up to the entry and wants `exists(d/__init__.py)` in
  every directory strictly below the entry (`exists`, not `isfile`: a DIRECTORY named
  `__init__.py` counts — the interpreter does not agree; see `Proofs/C17.lean`).
* `normalize_modpath`, `modname_to_modpath`, `split_modpath` (walk up while `__init__.py`
  exists; at the root the real loop does not terminate if `/__init__.py` exists: value
  `rootLoop`), `modpath_to_modname` (string pipeline `splitext` → cut at the first `.` →
  `/`,`\` ↦ `.` modelled on the joined string, literally), the `relativeto` variant.

NOT modelled (out of scope, listed in the MANIFEST): extension-module suffixes
(`_platform_pylib_exts`: `.cpython-*.so`, `.abi3.so`, `.so`), `*.egg-link`, `__editable__*`
finders and `.pth` files, zip archives, the `exclude` argument, `expanduser`, PEP 420 namespace
packages (the code has none: a directory without `__init__.py` is never a package).
-/
namespace Xdoc.Import
open Xdoc Py

abbrev Comp := Str
/-- components of an absolute, normalised path; `[]` is the root directory -/
abbrev Path := List Comp

structure FS where
  isFile : Path → Bool
  isDir : Path → Bool

/-- `os.path.exists` -/
def FS.ex (fs : FS) (p : Path) : Bool := fs.isFile p || fs.isDir p

def initPy : Comp := ['_', '_', 'i', 'n', 'i', 't', '_', '_', '.', 'p', 'y']
def mainPy : Comp := ['_', '_', 'm', 'a', 'i', 'n', '_', '_', '.', 'p', 'y']
def dotPy : Str := ['.', 'p', 'y']

/-! ## `_syspath_modname_to_modpath` -/

/-- `_isvalid(modpath, base)` for `modpath = join(base, rel)`: the argument is the list of
    directories between `base` and the module, innermost first (the order of the walk). -/
def isValidUp (fs : FS) (base : Path) : List Comp → Bool
  | [] => true
  | d :: up => fs.ex (base ++ (d :: up).reverse ++ [initPy]) && isValidUp fs base up

/-- `_isvalid(join(base, rel), base)` -/
def isValid (fs : FS) (base : Path) (rel : List Comp) : Bool :=
  isValidUp fs base rel.dropLast.reverse

/-- The literal walk of `_isvalid`: `subdir` (reversed components) goes up until it *equals*
    `base`; `none` = the real loop would not terminate (it reached the root, `dirname('/')` is
    `'/'`, and `/__init__.py` exists). `isvalid_terminates` shows this never happens for the
    paths `check_dpath` builds and that the walk is `isValidUp`. -/
def isValidWalk (fs : FS) (base : Path) : (revSubdir : List Comp) → Option Bool
  | [] => if base = [] then some true else if fs.ex [initPy] then none else some false
  | d :: up =>
    if (d :: up).reverse = base then some true
    else if fs.ex ((d :: up).reverse ++ [initPy]) then isValidWalk fs base up else some false

/-- `modname.replace('.', sep) + '.py'` as components -/
def withExt : List Comp → List Comp
  | [] => [dotPy]
  | [c] => [c ++ dotPy]
  | c :: cs => c :: withExt cs

/-- `check_dpath(dpath)` for the dotted name with components `n` (only the `.py` candidate) -/
def checkDpath (fs : FS) (base : Path) (n : List Comp) : Option Path :=
  if fs.ex (base ++ n) && fs.isFile (base ++ n ++ [initPy]) && isValid fs base n then
    some (base ++ n)
  else if fs.isFile (base ++ withExt n) && isValid fs base (withExt n) then
    some (base ++ withExt n)
  else none

/-- `_syspath_modname_to_modpath(modname, sys_path=entries)`: the first entry with a hit wins -/
def syspathResolve (fs : FS) (entries : List Path) (n : List Comp) : Option Path :=
  entries.findSome? (fun b => checkDpath fs b n)

/-- `is_modname_importable` -/
def isImportable (fs : FS) (entries : List Path) (n : List Comp) : Bool :=
  (syspathResolve fs entries n).isSome

/-! ## `normalize_modpath`, `modname_to_modpath` -/

def normalizeModpath (fs : FS) (p : Path) (hideInit : Bool := true) (hideMain : Bool := false) : Path :=
  let r : Path × Bool :=
    if hideInit then
      (if p.getLast? = some initPy then (p.dropLast, true) else (p, hideMain))
    else
      (if fs.ex (p ++ [initPy]) then (p ++ [initPy], hideMain) else (p, hideMain))
  if r.2 && r.1.getLast? = some mainPy && fs.ex (r.1.dropLast ++ [initPy]) then r.1.dropLast else r.1

def modnameToModpath (fs : FS) (entries : List Path) (n : List Comp)
    (hideInit : Bool := true) (hideMain : Bool := false) : Option Path :=
  (syspathResolve fs entries n).map (fun p => normalizeModpath fs p hideInit hideMain)

/-! ## `split_modpath` -/

inductive ImpErr where
  | doesNotExist   -- ValueError('modpath=… does not exist')
  | notAModule     -- ValueError('modpath=… is not a module')
  | rootLoop       -- the real `while` loop never ends (`/__init__.py` exists)
  deriving DecidableEq, Repr

/-- (a specialised instance, so that it cannot clash with another module's) -/
instance instDecidableEqExceptImpErr {α : Type} [DecidableEq α] : DecidableEq (Except ImpErr α)
  | .ok a, .ok b => if h : a = b then isTrue (by rw [h]) else isFalse (by intro e; cases e; exact h rfl)
  | .error a, .error b => if h : a = b then isTrue (by rw [h]) else isFalse (by intro e; cases e; exact h rfl)
  | .ok _, .error _ => isFalse (by intro e; cases e)
  | .error _, .ok _ => isFalse (by intro e; cases e)

/-- the loop `while exists(join(dpath, '__init__.py')): dpath, dname = split(dpath)`;
    `revDir` = components of `dpath`, innermost first; `rel` = `_relmod_parts` already reversed -/
def walkUp (fs : FS) : (revDir : List Comp) → (rel : List Comp) → Except ImpErr (Path × List Comp)
  | [], rel => if fs.ex [initPy] then .error .rootLoop else .ok ([], rel)
  | d :: up, rel =>
    if fs.ex ((d :: up).reverse ++ [initPy]) then walkUp fs up (d :: rel)
    else .ok ((d :: up).reverse, rel)

/-- `split_modpath(modpath, check)` : `(directory, rel_modpath)` -/
def splitModpath (fs : FS) (p : Path) (check : Bool := true) : Except ImpErr (Path × List Comp) :=
  if check && !fs.ex p then .error .doesNotExist
  else if check && fs.isDir p && !fs.ex (p ++ [initPy]) then .error .notAModule
  else match p.reverse with
    | [] => walkUp fs [] []
    | f :: revDir => walkUp fs revDir [f]

/-! ## `modpath_to_modname` -/

/-- `(s[:i+1], s[i+1:])` for the last `'/'` at `i`; `([], s)` without one -/
def splitLastSlash : Str → Str × Str
  | [] => ([], [])
  | c :: s =>
    match splitLastSlash s with
    | ([], b) => if c = '/' then ([c], b) else ([], c :: b)
    | (d, b) => (c :: d, b)

/-- `s[:s.rfind('.')]`, `none` without a dot -/
def beforeLastDot : Str → Option Str
  | [] => none
  | c :: s =>
    match beforeLastDot s with
    | some t => some (c :: t)
    | none => if c = '.' then some [] else none

/-- `os.path.splitext(b)[0]` for a file name without separator: leading dots are not an
    extension (`genericpath._splitext`) -/
def stemOfBase (b : Str) : Str :=
  match beforeLastDot (b.dropWhile (· == '.')) with
  | some t => b.takeWhile (· == '.') ++ t
  | none => b

/-- `os.path.splitext(s)[0]` (posix) -/
def splitextStem (s : Str) : Str :=
  (splitLastSlash s).1 ++ stemOfBase (splitLastSlash s).2

/-- the last four statements of `modpath_to_modname` on the relative path string:
    `splitext(rel)[0]`; `if '.' in m: m = m.split('.', 1)[0]`; `replace('/', '.')`; `replace('\\', '.')` -/
def relToModname (rel : Str) : Str :=
  ((splitextStem rel).takeWhile (· != '.')).map (fun c => if c == '/' || c == '\\' then '.' else c)

/-- `os.path.sep.join(parts)` -/
def joinSlash (parts : List Comp) : Str := joinWith ['/'] parts

/-- `'.'.join(parts)`: the dotted module name -/
def dotted (parts : List Comp) : Str := joinWith ['.'] parts

/-- `modpath_to_modname(modpath, hide_init, hide_main, check, relativeto=None)` -/
def modpathToModname (fs : FS) (p : Path) (hideInit : Bool := true) (hideMain : Bool := false)
    (check : Bool := true) : Except ImpErr Str :=
  if check && !fs.ex p then .error .doesNotExist
  else
    match splitModpath fs (normalizeModpath fs p hideInit hideMain) check with
    | .error e => .error e
    | .ok (_, rel) => .ok (relToModname (joinSlash rel))

/-- `os.path.relpath(p, start)` on absolute normalised component lists -/
def relpath : Path → Path → List Comp
  | a :: p, b :: s => if a = b then relpath p s else (b :: s).map (fun _ => ['.', '.']) ++ (a :: p)
  | p, s => s.map (fun _ => ['.', '.']) ++ p

/-- `modpath_to_modname(modpath, hide_init, hide_main, relativeto=r)` (`r` non-empty string):
    no existence check, no walk; the name is relative to `dirname(abspath(r))` -/
def modpathToModnameRel (fs : FS) (p : Path) (relativeto : Path)
    (hideInit : Bool := true) (hideMain : Bool := false) : Str :=
  let rel := relpath (normalizeModpath fs p hideInit hideMain) relativeto.dropLast
  relToModname (if rel.isEmpty then ['.'] else joinSlash rel)

/-! ## Specification: the regular-package rule of `importlib.machinery.FileFinder` -/

/-- what the interpreter finds: a regular package (directory) or a source module (file) -/
inductive Found where
  | pkg (dir : Path)
  | mod (file : Path)
  deriving DecidableEq, Repr

/-- the path xdoctest reports with `hide_init=True` -/
def Found.path : Found → Path
  | .pkg d => d
  | .mod f => f

/-- `ModuleSpec.origin` : the file whose code is executed -/
def Found.origin : Found → Path
  | .pkg d => d ++ [initPy]
  | .mod f => f

/-- `FileFinder(dir, (SourceFileLoader, ['.py'])).find_spec(<name with tail c>)`:
    `c` in the directory listing and `isfile(dir/c/__init__.py)` → regular package;
    else `isfile(dir/c.py)` → module; else nothing that has a loader (a bare directory only yields
    a namespace *portion*: `spec.loader is None`, it is not a file or regular package). -/
def finderStep (fs : FS) (dir : Path) (c : Comp) : Option Found :=
  if fs.ex (dir ++ [c]) && fs.isFile (dir ++ [c] ++ [initPy]) then some (.pkg (dir ++ [c]))
  else if fs.isFile (dir ++ [c ++ dotPy]) then some (.mod (dir ++ [c ++ dotPy]))
  else none

/-- the import system resolving `a.b.c` on one search path entry: `a` by the entry's finder,
    every further component by the finder of the parent's `__path__` — which only a package has -/
def pyResolve (fs : FS) (dir : Path) : List Comp → Option Found
  | [] => none
  | [c] => finderStep fs dir c
  | c :: cs =>
    match finderStep fs dir c with
    | some (.pkg d) => pyResolve fs d cs
    | _ => none

/-- `PathFinder` over several entries: the FIRST entry whose finder knows the top-level name
    fixes the parent package; submodules are then searched in that package only -/
def pyResolvePath (fs : FS) (entries : List Path) : List Comp → Option Found
  | [] => none
  | [c] => entries.findSome? (fun e => finderStep fs e c)
  | c :: cs =>
    match entries.findSome? (fun e => finderStep fs e c) with
    | some (.pkg d) => pyResolve fs d cs
    | _ => none

/-! ## File systems given by a finite listing (driver, examples) -/

def FS.ofLists (files dirs : List Path) : FS :=
  { isFile := fun p => files.contains p, isDir := fun p => dirs.contains p }

end Xdoc.Import

import XdocModel.Example
import XdocModel.Lemmas.Example
/-!
# Model of what survives a `DocTest.run` : the world of a test session  (property C11)

A *world* is everything one run can leave behind for the next:

* `template`       : `directive.DEFAULT_RUNTIME_STATE`, the module-level template every run state
                     is built from (booleans + the REQUIRES set, a mutable object);
* `moduleGlobals`  : `module.__dict__` of the module under test (names only: `name ↦ value id`);
* `docs`           : per `DocTest` object the fields that persist between runs
                     (`logged_stdout`/`logged_evals`, `_unmatched_stdout`, `_skipped_parts`, `exc_info`,
                     `_runstate`, `global_namespace`).

`runCore` is `DocTest.run` for one object. It *receives* exactly the persisted data the code reads
before overwriting it — and that is only `global_namespace` (`test_globals = self.global_namespace`,
never re-created) — every other persisted field is reset at the start of `run`
(doctest_example.py, "Prepare for actual test run"):

    self.logged_evals.clear(); self.logged_stdout.clear(); self._unmatched_stdout = []
    self._skipped_parts = []; self.exc_info = None
    runstate = self._runstate = directive.RuntimeState(default_state)     -- deep copy of the template
    runstate.set_report_style(self.config['reportchoice'].lower())
    …  test_globals.update(self.module.__dict__)                          -- a COPY of the module dict
    …  self.global_namespace.clear()                                      -- only on the common tail

The common tail (`_post_run`, then `clear()`) is reached whenever `run` *returns* except through
the early `return summary` of a failed pre-import; it is not reached when an exception propagates
(`on_error='raise'`, `ValueError('Could not clean traceback')`, `pytest.skip()`).

MODELLING ASSUMPTION (stated, not proved): executing doctest code is the oracle
`sem : doc → NS → part index → part → ExecResult × NS`; its result may depend only on the namespace
it is given (names and the values bound to them) — not on hidden process state and not on objects
shared through those values (mutation of shared mutable module objects is outside the property,
which speaks of rebinding). Python dicts are association lists; values are opaque ids (`Nat`).
`config['global_exec']` is `None` and `BaseException`s raised by doctest code (SystemExit,
KeyboardInterrupt: the session ends) are outside this model; see `Bracket.lean` for those.
-/
namespace Xdoc
open Py

/-- a namespace (`dict` of names): association list, insertion order as in Python -/
abbrev NS := List (String × Nat)

/-- `d[k] = v` -/
def nsSet (k : String) (v : Nat) : NS → NS
  | [] => [(k, v)]
  | (k', v') :: r => if k' == k then (k, v) :: r else (k', v') :: nsSet k v r

/-- `d.get(k)` -/
def nsGet (k : String) (d : NS) : Option Nat := d.lookup k

/-- `d.update(src)` : the entries of `src` are copied into `d`; `src` itself is not aliased -/
def nsUpdate (d src : NS) : NS := src.foldl (fun acc kv => nsSet kv.1 kv.2 acc) d

/-- `directive.DEFAULT_RUNTIME_STATE` as a value -/
structure Template where
  bools : List (String × Bool) := Generated.defaultRuntimeStateBools
  req : List Str := []
  deriving DecidableEq, Repr

/-- `RuntimeState(default_state)` : `copy.deepcopy(DEFAULT_RUNTIME_STATE)`, then
    `.update(copy.deepcopy(default_state))` (405bdaf: the caller's defaults are COPIED, a REQUIRES set
    among them is not shared with the run): boolean defaults, and optionally a REQUIRES set that
    replaces the template's; the inline overlay is empty -/
def RState.ofTemplate (t : Template) (overlay : List (String × Bool)) (reqOverlay : Option (List Str) := none) :
    RState :=
  { gBools := overlay.foldl (fun acc kv => alSet kv.1 kv.2 acc) t.bools, gReq := reqOverlay.getD t.req }

theorem RState.ofTemplate_pristine (overlay : List (String × Bool)) :
    RState.ofTemplate {} overlay = RState.init overlay := rfl

/-- what is fixed for one `DocTest` object: its parts and its configuration -/
structure DocDef where
  parts : List RunPart
  pytestMode : Bool := false
  importOk : Bool := true
  /-- the doctest belongs to a module (`self.module` is set by the pre-import); `false` for
      doctests made from a bare string (`<modname?>`) : nothing is copied into the namespace -/
  hasModule : Bool := true
  /-- `config['default_runtime_state']` (the dict is shared by reference by the runner; every run
      deep-copies it): the boolean entries … -/
  defaults : List (String × Bool) := []
  /-- … and its `REQUIRES` entry, if any (a set given through the API) -/
  defaultsReq : Option (List Str) := none
  /-- `'REPORT_' + config['reportchoice'].upper()` -/
  reportKey : String := "REPORT_UDIFF"
  deriving Repr

/-- the fields of a `DocTest` object that persist from one run to the next -/
structure DocState where
  logged : List (Nat × Str) := []          -- logged_stdout (logged_evals has the same keys)
  unmatched : List Str := []               -- _unmatched_stdout
  skippedParts : List Nat := []            -- _skipped_parts
  excInfo : Option Failure := none         -- exc_info / failed_part / failed_tb_lineno
  runstate : Option RState := none         -- _runstate of the last run (SKIP, REQUIRES, report style …)
  ns : NS := []                            -- global_namespace
  deriving DecidableEq, Repr

structure World where
  template : Template := {}
  moduleGlobals : NS := []
  docs : List DocState := []
  deriving DecidableEq, Repr

/-- what a caller observes of one run: "outcome and captured output" -/
structure Outcome where
  ending : RunEnd
  summary : Summary
  logged : List (Nat × Str)
  failure : Option Failure
  skipped : List Nat
  executed : List Nat
  /-- the directive state the part loop starts from -/
  startRs : RState
  /-- the namespace handed to the first executed part -/
  startEnv : NS
  deriving DecidableEq, Repr

/-- how `run` ends, given how the loop ended (same case analysis as `Xdoc.run`) -/
def endingOf (pytestMode : Bool) (nParts : Nat) (s : RunState NS) : Option RunEnd → RunEnd
  | some e => e
  | none => if s.skipped.length == nParts && pytestMode then .pytestSkip else .returned

/-- is the failure the one recorded by a failed pre-import (early `return summary`) -/
def isImportFailure : Option Failure → Bool
  | some fl => fl.kind == .importError
  | none => false

/-- `global_namespace` after the run. `live` is the dict object as the run leaves it: the module
    names are copied into it only when the pre-import happened (first executed part). -/
def nsAfter (ns : NS) (s : RunState NS) (ending : RunEnd) : NS :=
  let live := if s.didImport then s.env else ns
  match ending with
  | .returned => if isImportFailure s.failure then live else []     -- `self.global_namespace.clear()`
  | _ => live

/-- the run state a run starts from: built from the template and the config, from nothing else -/
def freshRs (t : Template) (d : DocDef) : RState :=
  (RState.ofTemplate t d.defaults d.defaultsReq).setReportStyle d.reportKey

/-- the namespace the executed parts start from -/
def startEnvOf (d : DocDef) (moduleGlobals ns : NS) : NS :=
  if d.hasModule then nsUpdate ns moduleGlobals else ns

def cfgOf (d : DocDef) (oe : OnError) : RunCfg :=
  { onError := oe, importOk := d.importOk, pytestMode := d.pytestMode, defaults := d.defaults }

/-- the state the part loop starts from -/
def startState (d : DocDef) (t : Template) (moduleGlobals ns : NS) : RunState NS :=
  { env := startEnvOf d moduleGlobals ns, rs := freshRs t d }

/-- `DocTest.run(on_error=oe)` for one object. Arguments = everything the run reads:
    the template, the module dict, and of the object's persisted fields ONLY `global_namespace`. -/
def runCore (sat : Str → Option Bool) (sem : NS → Nat → RunPart → ExecResult × NS) (d : DocDef)
    (oe : OnError) (t : Template) (moduleGlobals ns : NS) : DocState × Outcome :=
  let s0 := startState d t moduleGlobals ns
  let r := runLoop sat sem (cfgOf d oe) s0 0 d.parts
  let s := r.1
  let ending := endingOf d.pytestMode d.parts.length s r.2
  ({ logged := s.logged, unmatched := s.unmatched, skippedParts := s.skipped, excInfo := s.failure,
     runstate := some s.rs, ns := nsAfter ns s ending },
   { ending := ending, summary := summaryOf d.parts.length s, logged := s.logged, failure := s.failure,
     skipped := s.skipped, executed := s.executed, startRs := s0.rs, startEnv := s0.env })

/-- the outcome reported for an id that names no doctest (nothing happens) -/
def Outcome.absent : Outcome :=
  { ending := .returned, summary := { passed := false, failed := false, skipped := true }, logged := [],
    failure := none, skipped := [], executed := [], startRs := { gBools := [] }, startEnv := [] }

abbrev Prog := List DocDef
/-- the execution oracle: one per doctest -/
abbrev Sem := Nat → NS → Nat → RunPart → ExecResult × NS

/-- run doctest `i` in world `w`: the template and the module dict are handed over unchanged
    (deep copy / entry-wise copy), only the object's own persisted fields are replaced -/
def runDoc (P : Prog) (sat : Str → Option Bool) (sem : Sem) (w : World) (i : Nat) (oe : OnError) :
    World × Outcome :=
  match P[i]?, w.docs[i]? with
  | some d, some st =>
    let r := runCore sat (sem i) d oe w.template w.moduleGlobals st.ns
    ({ w with docs := w.docs.set i r.1 }, r.2)
  | _, _ => (w, Outcome.absent)

/-- a history: which doctest is run, with which `on_error` -/
abbrev History := List (Nat × OnError)

def execHist (P : Prog) (sat : Str → Option Bool) (sem : Sem) : World → History → World
  | w, [] => w
  | w, (i, oe) :: h => execHist P sat sem (runDoc P sat sem w i oe).1 h

/-- the outcomes along a history -/
def traceHist (P : Prog) (sat : Str → Option Bool) (sem : Sem) : World → History → List Outcome
  | _, [] => []
  | w, (i, oe) :: h =>
    (runDoc P sat sem w i oe).2 :: traceHist P sat sem (runDoc P sat sem w i oe).1 h

/-- a session start: one fresh object per doctest -/
def World.initial (P : Prog) (moduleGlobals : NS) : World :=
  { moduleGlobals := moduleGlobals, docs := P.map fun _ => {} }

/-! ## a concrete instance of the oracle: a mini language of name effects

Used by the driver (`history` op) and by the witnesses. One statement per source line. -/

inductive Stmt where
  | nop                                  -- a comment line, or a statement without effect on names/output
  | bind (n : String) (v : Nat)          -- `n = v`
  | show (n : String)                    -- `print(n)`            NameError when unbound
  | inc (n : String)                     -- `n = n + 1`           NameError when unbound
  | probe (n : String)                   -- `print('n' in globals())`
  | say (v : Nat)                        -- `print(v)`
  | mute                                 -- `sys.stdout = io.StringIO()` : later prints of this part are lost
  | fail                                 -- `raise ValueError('boom')`
  | exit                                 -- `raise ExitTestException()` (through a helper)
  deriving DecidableEq, Repr

def natStrW (n : Nat) : Str := (toString n).toList

def nameErrorLine (n : String) : Str :=
  "NameError: name '".toList ++ n.toList ++ "' is not defined\n".toList

/-- what `print` adds to the captured text: nothing once the part replaced `sys.stdout`
    (the capture is re-installed by `cap.start()` for the next part) -/
def emit (muted : Bool) (out text : Str) : Str := if muted then out else out ++ text

/-- execute the statements of one part; `ln` = 1-based line of the current statement -/
def execStmts (ev : EvalResult) : NS → Str → Bool → Nat → List Stmt → ExecResult × NS
  | ns, out, _, _, [] => (.ok out ev, ns)
  | ns, out, m, ln, st :: rest =>
    match st with
    | .nop => execStmts ev ns out m (ln + 1) rest
    | .bind n v => execStmts ev (nsSet n v ns) out m (ln + 1) rest
    | .show n =>
      (match nsGet n ns with
       | some v => execStmts ev ns (emit m out (natStrW v ++ ['\n'])) m (ln + 1) rest
       | none => (.raised out (nameErrorLine n) (some ln), ns))
    | .inc n =>
      (match nsGet n ns with
       | some v => execStmts ev (nsSet n (v + 1) ns) out m (ln + 1) rest
       | none => (.raised out (nameErrorLine n) (some ln), ns))
    | .probe n =>
      execStmts ev ns (emit m out (if (nsGet n ns).isSome then "True\n".toList else "False\n".toList)) m (ln + 1) rest
    | .say v => execStmts ev ns (emit m out (natStrW v ++ ['\n'])) m (ln + 1) rest
    | .mute => execStmts ev ns out true (ln + 1) rest
    | .fail => (.raised out "ValueError: boom\n".toList (some ln), ns)
    | .exit => (.exit out "xdoctest.exceptions.ExitTestException\n".toList, ns)

/-- the oracle of a mini program: `code[doc][part]` = statements; a part compiled in `eval` mode
    is a call returning `None` -/
def semMini (code : List (List (List Stmt))) : Sem := fun doc ns k p =>
  let stmts := ((code[doc]?.bind (·[k]?)).getD [])
  let ev : EvalResult := if p.part.compileMode == .eval then .value "None".toList else .notEvaled
  execStmts ev ns [] false 1 stmts

end Xdoc

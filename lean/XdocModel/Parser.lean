import XdocModel.Lexer
import XdocModel.Directive
import XdocModel.Part
/-!
# Model of `xdoctest/parser.py` : `DoctestParser.parse`

What CPython's `ast.parse` says about a chunk of source (where its top-level statements start,
decorator-aware; whether the last one is an expression; or that it does not parse) is an oracle
input (`ChunkFacts`), supplied per chunk by the harness from CPython's own `ast` on the source the
model hands out (`hackedSource`). Everything else — tab expansion, common indent, the four-state
line labeller with statement completion, the three grouping passes, comment hack, PS2 lines,
directive breaks, final-expression split, offsets, compile modes — is computed here.
-/
namespace Xdoc.Parser
open Xdoc Py Lexer

/-! ## text helpers -/

/-- `str.expandtabs(8)` : the column restarts after `\n` and `\r` -/
def expandTabsGo : Nat → Str → Str
  | _, [] => []
  | col, c :: s =>
    if c == '\t' then
      let n := 8 - col % 8
      List.replicate n ' ' ++ expandTabsGo (col + n) s
    else if c == '\n' || c == '\r' then c :: expandTabsGo 0 s
    else c :: expandTabsGo (col + 1) s

def expandTabs (s : Str) : Str := expandTabsGo 0 s

/-- `INDENT_RE.search(line)` on one line: number of leading blanks if a non-whitespace character
    follows them, else no match (0) -/
def indentOf? (line : Str) : Option Nat :=
  match line.dropWhile (· == ' ') with
  | c :: _ => if isSpace c then none else some (line.takeWhile (· == ' ')).length
  | [] => none

def indentOf (line : Str) : Nat := (indentOf? line).getD 0

/-- `_min_indentation(s)` : `^` of the MULTILINE regex only follows `\n` -/
def minIndentation (s : Str) : Nat :=
  match (splitOn '\n' s).filterMap indentOf? with
  | [] => 0
  | i :: is => is.foldl min i

/-- `_hasprefix(line, prefixes)` -/
def hasPrefix (line : Str) (ps : List Str) : Bool :=
  ps.any fun p => line == p || startsWith (p ++ [' ']) line

def ps1 : Str := ">>>".toList
def ps2 : Str := "...".toList

/-! ## labelling -/

inductive Label where
  | text | dsrc | dcnt | want
  deriving DecidableEq, Repr

def Label.name : Label → String
  | .text => "text" | .dsrc => "dsrc" | .dcnt => "dcnt" | .want => "want"

inductive ParseError where
  | assertion        -- AssertionError (unexpected prefix / 'impossible')
  | syntax           -- SyntaxError (bad indentation, or ast.parse of a chunk)
  | incomplete       -- IncompleteParseError
  | index            -- IndexError
  | indentation      -- IndentationError escaping the tokenizer
  | directive        -- malformed directive option string (assert / IndexError in _split_opstr)
  deriving DecidableEq, Repr

def ParseError.name : ParseError → String
  | .assertion => "AssertionError" | .syntax => "SyntaxError" | .incomplete => "IncompleteParseError"
  | .index => "IndexError" | .indentation => "IndentationError" | .directive => "DirectiveError"

structure LabelState where
  prev : Label := .text
  sind : Nat := 0                       -- state_indent
  pending : Option (List Str) := none   -- source parts of a statement that is not complete yet
  curLab : Label := .dsrc
  out : List (Label × Str) := []        -- labelled lines, in order

def containsTriple (s : Str) : Bool :=
  contains "'''".toList s || contains "\"\"\"".toList s

/-- one line of `_label_docsrc_lines` (with `_complete_source` folded in) -/
def labelStep (st : LabelState) (line : Str) : Except ParseError LabelState :=
  match st.pending with
  | some parts =>
    let norm := line.drop st.sind
    let pre := strip (norm.take 4)
    let known := pre == ps1 || pre == ps2 || pre.isEmpty
    if !known && !(parts.any containsTriple) then .error .syntax
    else
      let (outline, norm, suffix) :=
        if known then (line, norm, norm.drop 4)
        else (line.take st.sind ++ "... ".toList ++ norm, "... ".toList ++ norm, "... ".toList ++ norm)
      let parts := parts ++ [suffix]
      let lab := if hasPrefix norm [ps2] then Label.dcnt else st.curLab
      let st := { st with curLab := lab, out := st.out ++ [(lab, outline)] }
      if isBalanced parts then .ok { st with pending := none, prev := lab }
      else .ok { st with pending := some parts }
  | none =>
    let li := indentOf line
    let stripL := strip line
    let cur : Label :=
      match st.prev with
      | .text => if hasPrefix stripL [ps1] then .dsrc else .text
      | .want =>
        if stripL.isEmpty then .text
        else if hasPrefix stripL [ps1] then .dsrc
        else if li < st.sind then .text
        else .want
      | _ =>
        if stripL.isEmpty || li < st.sind then .text
        else if hasPrefix (line.drop st.sind) [ps1, ps2] then
          (if stripL == ps2 then (if st.prev == .dcnt then .dcnt else .want)
           else if hasPrefix (line.drop st.sind) [ps2] then .dcnt else .dsrc)
        else .want
    let sind :=
      if st.prev != cur then
        (if cur == .text then 0 else if cur == .dsrc || cur == .dcnt then li else st.sind)
      else st.sind
    if cur == .dsrc || cur == .dcnt then
      let norm := line.drop sind
      let pre := strip (norm.take 4)
      if !(pre == ps1 || pre == ps2) then .error .assertion
      else
        let lab := if hasPrefix norm [ps2] then Label.dcnt else cur
        let st := { st with sind := sind, curLab := lab, out := st.out ++ [(lab, line)] }
        let parts := [norm.drop 4]
        if isBalanced parts then .ok { st with prev := lab }
        else .ok { st with pending := some parts }
    else .ok { st with sind := sind, prev := cur, out := st.out ++ [(cur, line)] }

/-- `_label_docsrc_lines` on the already split lines -/
def labelLines (lines : List Str) : Except ParseError (List (Label × Str)) :=
  match lines.foldlM labelStep {} with
  | .error e => .error e
  | .ok st => if st.pending.isSome then .error .incomplete else .ok st.out

/-! ## grouping -/

/-- `_iterthree` -/
def iterThree {α : Type} : Option α → List α → List (Option α × α × Option α)
  | _, [] => []
  | l, [m] => [(l, m, none)]
  | l, m :: r :: rest => (l, m, some r) :: iterThree (some m) (r :: rest)

structure G1 where
  groups : List (Label × List (Label × Str)) := []
  state : Option Label := none
  current : List (Label × Str) := []

/-- first pass: runs of equal labels; an old-style `dsrc`+`dcnt` statement stays together and
    is cut from what precedes it -/
def group1 (labeled : List (Label × Str)) : List (Label × List (Label × Str)) :=
  let st := (iterThree none labeled).foldl (fun (st : G1) (t : Option (Label × Str) × (Label × Str) × Option (Label × Str)) =>
    let (left, mid, right) := t
    let l := left.map (·.1)
    let r := right.map (·.1)
    let st :=
      if l != some mid.1 || (mid.1 == .dsrc && r == some .dcnt) then
        (if !(l == some .dsrc && mid.1 == .dcnt) then
          { st with groups := match st.state with
                      | some s => st.groups ++ [(s, st.current)] | none => st.groups,
                    state := some mid.1, current := [] }
         else st)
      else st
    { st with current := st.current ++ [mid] }) {}
  match st.current, st.state with
  | [], _ => st.groups
  | _, some s => st.groups ++ [(s, st.current)]
  | _, none => st.groups      -- unreachable: `current` is non-empty only after a state was set

structure G2 where
  merged : List (Label × List (Label × Str)) := []
  state : Option Label := none
  current : List (Label × Str) := []

/-- second pass: merge consecutive groups of the same label unless a want follows -/
def group2 (groups : List (Label × List (Label × Str))) : List (Label × List (Label × Str)) :=
  let st := (iterThree none groups).foldl (fun (st : G2) t =>
    let (left, mid, right) := t
    let l := left.map (·.1)
    let r := right.map (·.1)
    if l == some mid.1 && r != some .want then { st with current := st.current ++ mid.2 }
    else
      { merged := match st.state, l with
          | some _, some ll => st.merged ++ [(ll, st.current)]
          | _, _ => st.merged,
        state := some mid.1, current := mid.2 }) {}
  match st.current, st.state with
  | [], _ => st.merged
  | _, some s => st.merged ++ [(s, st.current)]
  | _, none => st.merged

/-- a chunk: narrative text, or source lines with their want lines -/
inductive Chunk where
  | text (lines : List Str)
  | code (src : List Str) (want : List Str)
  deriving DecidableEq, Repr

structure G3 where
  out : List Chunk := []
  prevSource : Option (List Str) := none

/-- third pass: attach wants to the source before them -/
def group3 (merged : List (Label × List (Label × Str))) : Except ParseError (List Chunk) :=
  let flush (st : G3) : G3 :=
    match st.prevSource with
    | some src => { out := st.out ++ [.code src []], prevSource := none }
    | none => st
  let step (st : G3) (g : Label × List (Label × Str)) : Except ParseError G3 :=
    let block := g.2.map (·.2)
    match g.1 with
    | .text => let st := flush st; Except.ok { st with out := st.out ++ [.text block] }
    | .want =>
      (match st.prevSource with
       | none => Except.error ParseError.assertion
       | some src => Except.ok { out := st.out ++ [.code src block], prevSource := none })
    | _ => let st := flush st; Except.ok { st with prevSource := some block }
  match merged.foldlM step {} with
  | .error e => .error e
  | .ok st =>
    -- `if prev_source:` : an empty list is falsy
    match st.prevSource with
    | some (l :: ls) => .ok (st.out ++ [.code (l :: ls) []])
    | _ => .ok st.out

def groupLines (labeled : List (Label × Str)) : Except ParseError (List Chunk) :=
  group3 (group2 (group1 labeled))

/-! ## packaging one chunk -/

/-- what CPython's `ast.parse` reports about the (comment-hacked) source of a chunk -/
inductive ChunkFacts where
  | syntaxError
  | parsed (stmtStarts : List Nat) (lastIsExpr : Bool)   -- 0-based lines, decorator-aware
  deriving DecidableEq, Repr

/-- largest `a < b` with `lines[a:b]` balanced -/
def findStart (lines : List Str) (b : Nat) : Nat → Option Nat
  | 0 => none
  | a + 1 => if a < b && isBalanced ((lines.drop a).take (b - a)) then some a else findStart lines b a

/-- `balanced_intervals` : the interval starts, from the end backwards; `none` = IncompleteParseError -/
def intervalStarts (lines : List Str) : Nat → Nat → Option (List Nat)
  | 0, _ => some []
  | _, 0 => some []
  | fuel + 1, b =>
    match findStart lines b b with
    | none => none
    | some a => (intervalStarts lines fuel a).map (a :: ·)

/-- `_hack_comment_statements` : column-0 comments that start a balanced interval become
    assignments so that `ast.parse` records their line -/
def hackComments (execLines : List Str) : Except ParseError (List Str) :=
  match intervalStarts execLines execLines.length execLines.length with
  | none => .error .incomplete
  | some starts =>
    .ok (execLines.zipIdx.map fun (l, i) =>
      if starts.contains i && startsWith ['#'] l then "_._ = None".toList else l)

/-- insertion into a strictly increasing list, dropping duplicates -/
def insertSorted (x : Nat) : List Nat → List Nat
  | [] => [x]
  | y :: ys => if x < y then x :: y :: ys else if x = y then y :: ys else y :: insertSorted x ys

/-- `sorted(set(l))` : structural (insertion sort), so that sortedness and membership are provable -/
def dedupSorted (l : List Nat) : List Nat := l.foldr insertSorted []

/-- `_locate_ps1_linenos(source_lines)` -/
def locatePs1 (sourceLines : List Str) (facts : ChunkFacts) : Except ParseError (List Nat × CompileMode) :=
  match facts with
  | .syntaxError => .error .syntax
  | .parsed starts lastIsExpr =>
    let ps2Lines := sourceLines.zipIdx.filterMap fun (p, i) => if p.take 4 != ">>> ".toList then some i else none
    let ps1s := dedupSorted (starts.filter fun i => !ps2Lines.contains i)
    let mode : CompileMode := if !starts.isEmpty && lastIsExpr then .eval else .exec
    let mode : CompileMode :=
      match sourceLines with
      | first :: (r :: rest) =>
        if startsWith ">>> ".toList first && (r :: rest).all (fun s => hasPrefix s [ps2]) then .single else mode
      | _ => mode
    let execLines := sourceLines.map (·.drop 4)
    let mode : CompileMode :=
      if mode == .eval then
        let finalLines := match ps1s.getLast? with
          | some k => execLines.drop k
          | none => execLines
        if hasSemicolon finalLines then .single else .eval
      else mode
    .ok (ps1s, mode)

/-- directives of the comments of one PS1 group: `Directive.extract('\n'.join(lines))` -/
def extractDirectives (lines : List Str) : Except ParseError (List Directive) :=
  -- `text.splitlines()` of the joined lines: the lines themselves never contain a line break, but
  -- one trailing empty line disappears (`'a\n'.splitlines() == ['a']`)
  let textLines := if lines.getLast? == some [] then lines.dropLast else lines
  let isInline := !(textLines.all fun l => startsWith ['#'] (strip l))
  match extractComments lines with
  | none => .error .indentation
  | some comments =>
    comments.foldlM (fun acc c =>
      match directiveReMatch (strip (c.drop 1)) with
      | none => .ok acc
      | some optstr =>
        if optstr.isEmpty then .ok acc
        else
          match splitOpstr optstr with
          | none => .error ParseError.directive
          | some parts => .ok (acc ++ parts.filterMap fun p => parseDirectiveOptstr p isInline)) []

structure PPart where
  part : Part
  directives : Option (List Directive)     -- `None` when the parser attached none
  deriving Repr

def sliceFrom {α : Type} (l : List α) (s1 : Nat) (s2 : Option Nat) : List α :=
  match s2 with
  | some e => (l.drop s1).take (e - s1)
  | none => l.drop s1

/-- `_package_chunk(raw_source_lines, raw_want_lines, lineno)` -/
def packageChunk (rawSrc rawWant : List Str) (lineno : Nat) (facts : ChunkFacts) :
    Except ParseError (List PPart) := do
  let lineIndent := match rawSrc with | l :: _ => indentOf l | [] => 0
  let sourceLines := rawSrc.map (·.drop lineIndent)
  let wantLines := rawWant.map (·.drop lineIndent)
  let execLines := sourceLines.map (·.drop 4)
  let (ps1s, modeHint) ← locatePs1 sourceLines facts
  -- directive breaks
  let pairs := ps1s.zip ((ps1s.drop 1).map some ++ [none])
  let (breaks, dirMap) ← pairs.foldlM (fun (acc : List Nat × List (Nat × List Directive)) (p : Nat × Option Nat) => do
      let ds ← extractDirectives (sliceFrom execLines p.1 p.2)
      match ds with
      | [] => pure acc
      | d :: _ =>
        let b := acc.1 ++ [p.1]
        let b := match d.inline, p.2 with
          | true, some s2 => b ++ [s2]
          | _, _ => b
        pure (b, acc.2 ++ [(p.1, ds)])) ([], [])
  let mk (s1 : Nat) (s2 : Option Nat) (want : Option (List Str)) : PPart :=
    { part := { execLines := sliceFrom execLines s1 s2, wantLines := want,
                origLines := some (sliceFrom sourceLines s1 s2), lineOffset := lineno + s1 },
      directives := dirMap.lookup s1 }
  let (parts, s1) :=
    match breaks with
    | [] => (([] : List PPart), 0)
    | _ =>
      let bs := dedupSorted (0 :: breaks)
      let ps := (bs.zip (bs.drop 1)).map fun (a, b) => mk a (some b) none
      (ps, (bs.getLast?).getD 0)
  -- when the loop over the pairs did not run, `s1 = s2 = 0`
  let s1 := match breaks with | [] => 0 | _ => if (dedupSorted (0 :: breaks)).length < 2 then 0 else s1
  let (parts, s1) ←
    if !wantLines.isEmpty && (modeHint == .eval || modeHint == .single) then
      match ps1s.getLast? with
      | none => throw ParseError.index
      | some s2 => if s2 != s1 then pure (parts ++ [mk s1 (some s2) none], s2) else pure (parts, s1)
    else pure (parts, s1)
  let last := mk s1 none (some wantLines)
  let last := { last with part := { last.part with compileMode := if wantLines.isEmpty then .exec else modeHint } }
  pure (parts ++ [last])

/-! ## the whole docstring -/

inductive Piece where
  | text (s : Str)
  | part (p : PPart)
  deriving Repr

/-- the lines the labeller sees -/
def prepareLines (docstr : Str) : List Str :=
  let s := expandTabs docstr
  let m := minIndentation s
  let s := if m > 0 then joinWith ['\n'] ((splitLines s).map (·.drop m)) else s
  splitLines s

def chunksOf (docstr : Str) : Except ParseError (List Chunk) := do
  let labeled ← labelLines (prepareLines docstr)
  groupLines labeled

/-- the comment-hacked source block of every code chunk (what the harness feeds to `ast.parse`) -/
def hackedSources (chunks : List Chunk) : List (Except ParseError Str) :=
  chunks.filterMap fun c =>
    match c with
    | .text _ => none
    | .code src _ =>
      let li := match src with | l :: _ => indentOf l | [] => 0
      some ((hackComments (src.map fun l => (l.drop li).drop 4)).map (joinWith ['\n']))

def packageGroups : List Chunk → List ChunkFacts → Nat → Except ParseError (List Piece)
  | [], _, _ => .ok []
  | .text ls :: cs, fs, lineno => do
    let rest ← packageGroups cs fs (lineno + ls.length)
    pure (.text (joinWith ['\n'] ls) :: rest)
  | .code src want :: cs, fs, lineno => do
    -- the hack itself can fail before `ast.parse` is reached
    let li := match src with | l :: _ => indentOf l | [] => 0
    let _ ← hackComments (src.map fun l => (l.drop li).drop 4)
    let (f, fs') := match fs with | f :: r => (f, r) | [] => (ChunkFacts.syntaxError, [])
    let ps ← packageChunk src want lineno f
    let rest ← packageGroups cs fs' (lineno + src.length + want.length)
    pure (ps.map Piece.part ++ rest)

/-- which phase failed (the message of `DoctestParseError`) -/
inductive FailPoint where
  | label | group | package
  deriving DecidableEq, Repr

/-- `DoctestParser.parse(docstr)` given the per-chunk CPython facts -/
def parse (docstr : Str) (facts : List ChunkFacts) : Except (FailPoint × ParseError) (List Piece) :=
  match labelLines (prepareLines docstr) with
  | .error e => .error (.label, e)
  | .ok labeled =>
    match groupLines labeled with
    | .error e => .error (.group, e)
    | .ok chunks =>
      match packageGroups chunks facts 0 with
      | .error e => .error (.package, e)
      | .ok ps => .ok ps

end Xdoc.Parser

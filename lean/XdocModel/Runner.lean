import XdocModel.Example
import XdocModel.Generated
/-!
# Model of the native runner (`runner.py`, `__main__.py`) : gathering, tallies, exit status

`doctest_module` works on the list of doctests collected by `core.parse_doctestables` (collection
itself is C07's subject: here the list is an input).  A collected doctest is identified by its
callname and its number within the callable; its source text decides whether it is force-disabled
(`DocTest.is_disabled`, keyword list regenerated from the code).  What `DocTest.run` does with a
doctest is modelled in `Example.lean`; the runner only sees how the call ended (`RunResult`).

Python sets (`valid_testnames`) become lists with membership; the `failed` list of examples is
kept as the list of entries.
-/
namespace Xdoc
open Py

/-! ## identity of a collected doctest -/

structure Doc where
  callname : Str
  num : Nat
  docsrc : Str
  deriving DecidableEq, Repr

/-- Python `str(n)` for a non-negative int -/
def natStr (n : Nat) : Str := Nat.toDigits 10 n

namespace Doc
/-- `unique_callname` : `callname + ':' + str(num)` -/
def uniqueCallname (d : Doc) : Str := d.callname ++ ':' :: natStr d.num
/-- `valid_testnames` : the set `{callname, unique_callname}` -/
def validTestnames (d : Doc) : List Str := [d.callname, d.uniqueCallname]
end Doc

/-! ## `DocTest.is_disabled` : `re.match('P1|P2|…', docsrc, re.IGNORECASE)`

Every pattern is `>>>\s*#\s*KEYWORD` (shape checked by the translator).  For a yes/no answer an
alternation matches iff one alternative does; `\s*` followed by something is modelled with its
backtracking (`afterSpaces`), a keyword character is a literal compared case-insensitively, except
`.` which is any character but a newline.  IGNORECASE on a `str` pattern lets an ASCII letter also
match the code points whose simple lower case is that letter (U+212A for k, U+0130 for i) and the
equivalents of sre's fix table (U+017F for s, U+0131 for i); table-checked against `re` on every
run. -/

def ciExtra (k : Char) (c : Char) : Bool :=
  let n := c.toNat
  (k == 'i' && (n == 0x130 || n == 0x131)) || (k == 'k' && n == 0x212A) || (k == 's' && n == 0x17F)

/-- does the pattern character `k` match the text character `c` under IGNORECASE -/
def kwCharMatch (k c : Char) : Bool :=
  if k == '.' then c != '\n'
  else lowerAscii c == lowerAscii k || ciExtra (lowerAscii k) c

def kwMatch : Str → Str → Bool
  | [], _ => true
  | _ :: _, [] => false
  | k :: ks, c :: cs => kwCharMatch k c && kwMatch ks cs

/-- `\s*` followed by `p` (all split points are tried, as the regex engine would) -/
def afterSpaces (p : Str → Bool) : Str → Bool
  | [] => p []
  | c :: cs => p (c :: cs) || (isSpace c && afterSpaces p cs)

/-- `re.match('>>>\s*#\s*KW', src, re.I)` -/
def disableMatch (kw : Str) (src : Str) : Bool :=
  match dropPrefix? ">>>".toList src with
  | none => false
  | some r => afterSpaces (fun s => match s with
      | '#' :: t => afterSpaces (kwMatch kw) t
      | _ => false) r

def disableKeywordsFor (pytest : Bool) : List Str :=
  (Generated.disableKeywords ++ (if pytest then Generated.disableKeywordsPytest else [])).map String.toList

/-- `DocTest.is_disabled(pytest)` -/
def isDisabled (pytest : Bool) (src : Str) : Bool :=
  (disableKeywordsFor pytest).any fun kw => disableMatch kw src

/-! ## what the runner sees of one `example.run(verbose, on_error='return')` call -/

inductive RunResult where
  /-- `run` returned a summary -/
  | summary (s : Summary)
  /-- an exception escaped `run` although `on_error='return'` (e.g. "Could not clean traceback"):
      `_run_examples` prints the failure and re-raises, `doctest_module` does not return -/
  | escaped
  /-- `KeyboardInterrupt` : "Caught CTRL+c: Stopping tests", the loop breaks -/
  | interrupt
  deriving DecidableEq, Repr

/-- a collected doctest together with what running it natively would give -/
structure Entry where
  doc : Doc
  result : RunResult
  deriving DecidableEq, Repr

def cmdAll : Str := "all".toList
def cmdDump : Str := "dump".toList
def cmdList : Str := "list".toList

/-- `gather_all = (command == 'all' or command == 'dump')` -/
def gatherAll (cmd : Str) : Bool := cmd == cmdAll || cmd == cmdDump

/-- the first gathering loop: all minus the force-disabled, or the ones the command names -/
def gatherNamed (cmd : Str) (examples : List Entry) : List Entry :=
  examples.filter fun e =>
    (gatherAll cmd || e.doc.validTestnames.contains cmd) && !(gatherAll cmd && isDisabled false e.doc.docsrc)

def zeroAllCommands : List Str := Generated.zeroAllCommands.map String.toList

/-- the zero-arg fallback, consulted only when nothing was gathered: `zero` are the dummy doctests
    `>>> name()` of the functions without required arguments (`_gather_zero_arg_examples`) -/
def gatherZero (cmd : Str) (zero : List Entry) : List Entry :=
  zero.filter fun z => z.doc.validTestnames.contains cmd || zeroAllCommands.contains cmd

/-- `enabled_examples` -/
def gather (cmd : Str) (examples zero : List Entry) : List Entry :=
  match gatherNamed cmd examples with
  | [] => gatherZero cmd zero
  | l => l

/-! ## `_run_examples` -/

structure RunSummary where
  nTotal : Nat
  nPassed : Nat
  nFailed : Nat
  nSkipped : Nat
  failed : List Entry        -- `run_summary['failed']`
  ran : List Entry           -- the `example.run` calls that were made, in order (not a key of the dict)
  deriving DecidableEq, Repr

structure LoopAcc where
  summaries : List Summary := []
  failed : List Entry := []
  ran : List Entry := []
  deriving DecidableEq, Repr

/-- the `for example in enabled_examples` loop; `none` = an exception propagates -/
def runLoopExamples : List Entry → LoopAcc → Option LoopAcc
  | [], a => some a
  | e :: es, a =>
    match e.result with
    | .escaped => none
    | .interrupt => some { a with ran := a.ran ++ [e] }
    | .summary s =>
      runLoopExamples es
        { summaries := a.summaries ++ [s], ran := a.ran ++ [e],
          failed := if s.skipped then a.failed else if s.passed then a.failed else a.failed ++ [e] }

/-- `sum(s[key] for s in summaries)` : the number of `True`s -/
def countTrue (f : Summary → Bool) (l : List Summary) : Nat := (l.filter f).length

def runExamples (enabled : List Entry) : Option RunSummary :=
  (runLoopExamples enabled {}).map fun a =>
    { nTotal := enabled.length,
      nPassed := countTrue (·.passed) a.summaries,
      nFailed := countTrue (·.failed) a.summaries,
      nSkipped := countTrue (·.skipped) a.summaries,
      failed := a.failed, ran := a.ran }

/-! ## `doctest_module` and `main` -/

inductive CommandResult where
  /-- `{'action': 'list'}`; the names printed (one `cmdline` per collected doctest) -/
  | listed (names : List Str)
  /-- `{'action': 'dump'}` of these doctests -/
  | dumped (enabled : List Entry)
  | ran (rs : RunSummary)
  /-- an exception left `doctest_module` -/
  | aborted
  deriving DecidableEq, Repr

/-- `list` : `example.cmdline` ends with the unique callname -/
def listNames (examples : List Entry) : List Str := examples.map (·.doc.uniqueCallname)

/-- `doctest_module(modpath, command=cmd)`; `command is None` has already been replaced by `list` -/
def doctestModule (cmd : Str) (examples zero : List Entry) : CommandResult :=
  if cmd == cmdList then .listed (listNames examples)
  else
    let enabled := gather cmd examples zero
    if cmd == cmdDump then .dumped enabled
    else match runExamples enabled with
      | none => .aborted
      | some rs => .ran rs

/-- `n_failed = run_summary.get('n_failed', 0)` -/
def nFailedOf : CommandResult → Nat
  | .ran rs => rs.nFailed
  | _ => 0

/-- exit status of `python -m xdoctest <mod> <cmd>` : `1 if n_failed > 0 else 0`; an uncaught
    exception makes CPython exit with status 1 -/
def exitCode : CommandResult → Nat
  | .aborted => 1
  | r => if nFailedOf r > 0 then 1 else 0

/-- `__main__.main` : a missing command means `all` -/
def mainCommand (cmd : Option Str) : Str := cmd.getD cmdAll

/-! ## from a run of the `Example.lean` model to what the runner sees -/

/-- the native runner calls `run(on_error='return')` on doctests in mode `native` -/
def nativeCfg (defaults : List (String × Bool)) (importOk : Bool) : RunCfg :=
  { onError := .ret, importOk := importOk, pytestMode := false, defaults := defaults }

def resultOfRun {Env : Type} (o : RunOutcome Env) : RunResult :=
  match o.ending with
  | .returned => .summary o.summary
  | _ => .escaped

end Xdoc

import XdocModel.Py.Dedent
import XdocModel.Generated
/-!
# Model of `docstr/docscrape_google.py` : `split_google_docblocks`

Steps of the code, in order: `textwrap.dedent`; split at `\n`; the first-line indentation
adjustment (padding with the whitespace of the least indented later line) and the second dedent; "true" indentation (an empty line inherits the previous one's,
`None` before the first non-empty line); the group labelling loop (a tag line opens a group if it
is the last line or is followed by an indented line, an empty line or another tag line; a return
to indentation 0 closes a tag group); grouping of the lines by label; one block per group, except
groups that consist of a single empty line; the offset of a block is the index of its first line.

The tag list comes from `Generated.googleTagGroups` (regenerated from the sources on every run).
`'\n'.join(lines)` followed by `split('\n')` / `dedent` is modelled on the line lists directly: the
lines come from `split('\n')` and never contain `\n`, so join-then-split is the identity.
-/
namespace Xdoc.Google
open Xdoc Py

/-- `tag_aliases.keys()` in insertion order -/
def tagNames : List Str := (Generated.googleTagGroups.flatten).map String.toList

/-- `tag_aliases` : alias ↦ first name of its group; a later group wins, like `dict(...)` -/
def tagAliases : List (Str × Str) :=
  Generated.googleTagGroups.flatMap fun g =>
    match g with
    | [] => []
    | c :: _ => g.map fun a => (a.toList, c.toList)

/-- `tag_aliases.get(key, key)` -/
def aliasOf (key : Str) : Str :=
  match (tagAliases.reverse.find? (·.1 == key)) with
  | some (_, c) => c
  | none => key

/-- ` *::? *$` -/
def afterTag (rest : Str) : Bool :=
  match rest.dropWhile (· == ' ') with
  | ':' :: ':' :: r => r.all (· == ' ')
  | ':' :: r => r.all (· == ' ')
  | _ => false

/-- `re.match(tag_pattern, line)` : `^(Args|Arguments|…) *::? *$` on a line without `\n` -/
def isTagLine (line : Str) : Bool :=
  tagNames.any fun t =>
    match dropPrefix? t line with
    | some rest => afterTag rest
    | none => false

/-- `len(line) - len(line.lstrip())` -/
def getIndentation (l : Str) : Nat := l.length - (lstrip l).length

/-- what the first line is padded with: the leading whitespace (`line_[:n_]`, blanks or tabs) of the first later non-empty
    line whose indentation is the minimum `m` (repair of the tab-indented docstring defect: it used to be `' ' * m`, which a
    tab margin does not share, so the second `dedent` removed nothing); the `none` branch is unreachable (the minimum is
    attained) and keeps the old padding, as the code's initial value of `lead` does -/
def leadOf (m : Nat) (ls : List Str) : Str :=
  match ls.find? (fun l => decide (l.length > 0) && getIndentation l == m) with
  | some l => l.take m
  | none => List.replicate m ' '

/-- the lines the labelling loop works on -/
def prepLines (docstr : Str) : List Str :=
  let ls := dedentLines (splitOn '\n' docstr)
  match ls with
  | l0 :: l1 :: rest =>
    if l0.length != 0 then
      -- indentation of the non-empty lines; the first line takes the minimum of the others
      match ((l0 :: l1 :: rest).filter (fun l => l.length > 0)).map getIndentation with
      | _ :: i1 :: is =>
        dedentLines ((leadOf (is.foldl min i1) (l1 :: rest) ++ l0) :: l1 :: rest)
      | _ => ls
    else ls
  | _ => ls

/-- `true_indent` : `none` is Python's `None` (no non-empty line seen yet) -/
def trueIndents : Option Nat → List Str → List (Option Nat)
  | _, [] => []
  | prev, l :: ls =>
    let i := if l.length == 0 then prev else some (getIndentation l)
    i :: trueIndents i ls

/-- the labelling loop; arguments: `group_id`, `prev_indent`, `in_tag`, the remaining
    `(line, true_indent)` pairs. `none > 0` cannot be reached (the line after a tag line has the
    tag line's or its own indentation) and is read as `False`. -/
def labelGo : Nat → Option Nat → Bool → List (Str × Option Nat) → List Nat
  | _, _, _, [] => []
  | gid, prev, inTag, (line, ind) :: rest =>
    if isTagLine line then
      let valid : Bool :=
        match rest with
        | [] => true
        | (nl, nind) :: _ =>
          (match nind with | some k => decide (k > 0) | none => false) || nl.length == 0 || isTagLine nl
      let gid' := if valid then gid + 1 else gid
      gid' :: labelGo gid' ind (if valid then true else inTag) rest
    else if inTag && ind != prev && ind == some 0 then
      (gid + 1) :: labelGo (gid + 1) ind false rest
    else gid :: labelGo gid ind inTag rest

/-- `groups_` : the lines grouped by label (labels never decrease, so groups are runs) -/
def groupRuns : List (Nat × Str) → List (List Str)
  | [] => []
  | (g, l) :: rest =>
    match rest, groupRuns rest with
    | (g', _) :: _, cur :: gs => if g' = g then (l :: cur) :: gs else [l] :: cur :: gs
    | _, r => [l] :: r

structure Block where
  key : Str
  text : Str
  offset : Nat
  deriving DecidableEq, Repr

def docKey : Str := "__DOC__".toList

/-- `s.rstrip(':')` -/
def rstripColon (s : Str) : Str := (s.reverse.dropWhile (· == ':')).reverse

/-- the block made from one group of lines -/
def blockOf (lines : List Str) (offset : Nat) : Block :=
  match lines with
  | l0 :: val =>
    if isTagLine l0 then
      { key := aliasOf (rstripColon (strip l0)), text := joinWith ['\n'] (dedentLines val), offset := offset }
    else { key := docKey, text := joinWith ['\n'] lines, offset := offset }
  | [] => { key := docKey, text := [], offset := offset }

/-- a group that is exactly one empty line is dropped (its line still counts) -/
def isBlankGroup (g : List Str) : Bool :=
  match g with
  | [l] => l.length == 0
  | [] => true
  | _ => false

def mkBlocks : Nat → List (List Str) → List Block
  | _, [] => []
  | off, g :: gs =>
    if isBlankGroup g then mkBlocks (off + g.length) gs
    else blockOf g off :: mkBlocks (off + g.length) gs

def groupsOf (docstr : Str) : List (List Str) :=
  let ls := prepLines docstr
  groupRuns ((labelGo 0 (some 0) false (ls.zip (trueIndents none ls))).zip ls)

/-- `split_google_docblocks(docstr)` -/
def splitGoogle (docstr : Str) : List Block := mkBlocks 0 (groupsOf docstr)

end Xdoc.Google

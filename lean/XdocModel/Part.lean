import XdocModel.Py.Str
/-!
# `doctest_part.DoctestPart` as data
-/
namespace Xdoc

inductive CompileMode where
  | exec | eval | single
  deriving DecidableEq, Repr

def CompileMode.name : CompileMode → String
  | .exec => "exec" | .eval => "eval" | .single => "single"

/-- `DoctestPart(exec_lines, want_lines, line_offset, orig_lines)`; `wantLines = none` is Python's
    `None`; an empty list is falsy as well (see `want`). -/
structure Part where
  execLines : List Str
  wantLines : Option (List Str) := none
  lineOffset : Nat := 0
  origLines : Option (List Str) := none
  compileMode : CompileMode := .exec
  partno : Option Nat := none
  deriving DecidableEq, Repr

namespace Part
open Py

/-- `part.source` -/
def source (p : Part) : Str := joinWith ['\n'] p.execLines

/-- `part.want` : `None` when `want_lines` is `None` or empty -/
def want (p : Part) : Option Str :=
  match p.wantLines with
  | some (l :: ls) => some (joinWith ['\n'] (l :: ls))
  | _ => none

def nExecLines (p : Part) : Nat := p.execLines.length
def nWantLines (p : Part) : Nat := (p.wantLines.getD []).length
def nLines (p : Part) : Nat := p.nExecLines + p.nWantLines

/-- `part.has_any_code()` : not every stripped line is empty or a comment -/
def hasAnyCode (p : Part) : Bool :=
  !(p.execLines.all fun l => match strip l with
      | [] => true
      | c :: _ => c == '#')

/-- `part.compilable_source()` -/
def compilableSource (p : Part) : Str :=
  match p.compileMode with
  | .single => joinWith ['\n'] (p.execLines ++ [[]])
  | _ => joinWith ['\n'] p.execLines

end Part
end Xdoc

/-!
# Model of the bracket discipline around doctest code  (property C12)

Process-global state as far as xdoctest brackets it:

* `sys.stdout` / `sys.stderr` : object identities (`Obj`);
* `warnings.filters` : a list OBJECT (identity + contents), `warnings.showwarning`,
  `warnings._showwarnmsg_impl` : identities;
* `sys.path` : a list of strings (mutated in place).

The code run inside the brackets (the statements of a doctest part, the import of the module under
test) is an ARBITRARY function `Body := PState → PState × Ending`: it may replace `sys.stdout`,
rebind or mutate `warnings.filters`, edit `sys.path`, and end normally, with an `Exception`, with
`SystemExit` or with `KeyboardInterrupt`. What it cannot do in this model is reach the objects the
brackets saved (the original `warnings.filters` list, `cap.orig_stdout`) other than through the
process attributes — it holds no reference to them. That `with` runs `__exit__` for every ending is
CPython semantics and is built into `withCap` / `withCatchWarnings` / `withPPC`.

Modelled code (as it is NOW in /repo):
* `utils.CaptureStdout.__init__/start/stop/__enter__/__exit__` (util_stream.py): `orig_stdout` is read
  ONCE, when the object is made (in `DocTest.run`: before the part loop); `__exit__` is
  `try: log_part() finally: stop()`;
* `warnings.catch_warnings(record=True).__enter__/__exit__` (CPython; only the save/restore);
* `utils.util_import.PythonPathContext.__enter__/__exit__` after the commits bc2ba1f (`elif`),
  b193b74 (`max(0, len + index + 1)`) and c14b47c (`pop` before `warn`): a negative index is normalised
  with `max(0, len + index + 1)`, so the stored index is never negative; `list.insert` clamps a large
  index to the end; on exit `len(sys.path) <= index` → recover by search, `sys.path[index] != dpath` →
  recover by search (first occurrence; `RuntimeError` when absent; the entry is popped BEFORE
  `warnings.warn`, which raises when warnings are errors: parameter `warnErr`), else `pop(index)`.
  `sys.path[index]` would raise `IndexError` for an index below `-len(sys.path)`: unreachable for
  an index stored by `__enter__` (theorem `exit_no_index_error`), kept in the model because
  `__exit__` itself still contains the lookup;
* the arrangement of `DocTest.run`: capture object made first, `catch_warnings` around the loop, the
  pre-import (inside `PythonPathContext(dpath, -1)`) before the first executed part and outside the
  capture, `with cap:` around each executed part, the exception ladder deciding to go on or stop.
-/
namespace Xdoc

abbrev Obj := Nat

inductive Ending where
  | normal | exception | systemExit | keyboardInterrupt
  deriving DecidableEq, Repr

structure FilterList where
  id : Obj
  items : List Nat
  deriving DecidableEq, Repr

structure PState where
  stdout : Obj
  stderr : Obj
  filters : FilterList
  showwarning : Obj
  showwarnmsgImpl : Obj
  sysPath : List String
  deriving DecidableEq, Repr

abbrev Body := PState → PState × Ending

/-! ## CaptureStdout -/

structure Cap where
  enabled : Bool
  orig : Obj        -- `self.orig_stdout = sys.stdout` (read when the object is constructed)
  cap : Obj         -- `self.cap_stdout`
  deriving DecidableEq, Repr

def Cap.new (enabled : Bool) (capObj : Obj) (st : PState) : Cap :=
  { enabled := enabled, orig := st.stdout, cap := capObj }

/-- `start()` -/
def Cap.start (c : Cap) (st : PState) : PState :=
  if c.enabled then { st with stdout := c.cap } else st

/-- `stop()` -/
def Cap.stop (c : Cap) (st : PState) : PState :=
  if c.enabled then { st with stdout := c.orig } else st

/-- `__exit__` : `if self.enabled: try: self.log_part() finally: self.stop()`; returns a falsy
    value, so the ending of the body propagates; if `log_part` raises (the body closed the capture
    stream: oracle `logRaises`) that exception propagates instead — after `stop()` -/
def Cap.exit (c : Cap) (logRaises : PState → Bool) (st : PState) (e : Ending) : PState × Ending :=
  if c.enabled then (c.stop st, if logRaises st then .exception else e) else (st, e)

/-- `with cap: body` -/
def withCap (c : Cap) (logRaises : PState → Bool) (body : Body) (st : PState) : PState × Ending :=
  c.exit logRaises (body (c.start st)).1 (body (c.start st)).2

/-! ## warnings.catch_warnings(record=True) -/

structure CW where
  savedFilters : FilterList
  savedShow : Obj
  savedImpl : Obj
  deriving DecidableEq, Repr

/-- `__enter__`: `self._filters = module.filters; module.filters = self._filters[:]` (a NEW list
    object `freshList` with the same contents), `showwarning`/`_showwarnmsg_impl` saved and replaced -/
def cwEnter (freshList logAppend showOrig : Obj) (st : PState) : CW × PState :=
  ({ savedFilters := st.filters, savedShow := st.showwarning, savedImpl := st.showwarnmsgImpl },
   { st with filters := { id := freshList, items := st.filters.items },
             showwarnmsgImpl := logAppend, showwarning := showOrig })

/-- `__exit__`: the saved list object, `showwarning` and `_showwarnmsg_impl` are put back -/
def cwExit (cw : CW) (st : PState) : PState :=
  { st with filters := cw.savedFilters, showwarning := cw.savedShow, showwarnmsgImpl := cw.savedImpl }

def withCatchWarnings (freshList logAppend showOrig : Obj) (body : Body) (st : PState) : PState × Ending :=
  let r := body (cwEnter freshList logAppend showOrig st).2
  (cwExit (cwEnter freshList logAppend showOrig st).1 r.1, r.2)

/-! ## Python list indexing -/

/-- where `list.insert(i, x)` puts `x` in a list of length `len` -/
def pyInsertPos (len : Nat) (i : Int) : Nat :=
  if i < 0 then (if (len : Int) + i < 0 then 0 else ((len : Int) + i).toNat)
  else (if i.toNat ≤ len then i.toNat else len)

/-- the position `l[i]` / `l.pop(i)` refers to; `none` = `IndexError` -/
def pyIndexPos (len : Nat) (i : Int) : Option Nat :=
  if i < 0 then (if (len : Int) + i < 0 then none else some ((len : Int) + i).toNat)
  else (if i.toNat < len then some i.toNat else none)

def pyInsert (l : List String) (i : Int) (x : String) : List String :=
  l.insertIdx (pyInsertPos l.length i) x

/-! ## PythonPathContext -/

inductive ExitResult where
  | clean            -- `sys.path.pop(self.index)`
  | recovered        -- found by search, `sys.path.pop(real_index)`, warning
  | warnRaised       -- the same, but the warning is an error (`-W error`): it propagates, AFTER the pop
  | runtimeError     -- 'Expected dpath was not in sys.path'
  | indexError       -- `sys.path[self.index]` raised (index below `-len(sys.path)`)
  deriving DecidableEq, Repr

/-- `__enter__`: the index stored in the object after normalisation -/
def ppcEnterIndex (len : Nat) (index : Int) : Int :=
  if index < 0 then (if (len : Int) + index + 1 < 0 then 0 else (len : Int) + index + 1) else index

/-- `__enter__`: `sys.path.insert(self.index, self.dpath)` -/
def ppcEnter (dpath : String) (index : Int) (path : List String) : Int × List String :=
  (ppcEnterIndex path.length index, pyInsert path (ppcEnterIndex path.length index) dpath)

/-- the recovery branch: `real_index = sys.path.index(self.dpath)` … `sys.path.pop(real_index)`,
    then `warnings.warn(...)`; `warnErr` = warnings are turned into errors -/
def ppcRecover (warnErr : Bool) (dpath : String) (path : List String) : List String × ExitResult :=
  match path.idxOf? dpath with
  | none => (path, .runtimeError)
  | some k => (path.eraseIdx k, if warnErr then .warnRaised else .recovered)

/-- `__exit__` with the stored (normalised) index -/
def ppcExit (warnErr : Bool) (dpath : String) (index : Int) (path : List String) : List String × ExitResult :=
  if (path.length : Int) ≤ index then ppcRecover warnErr dpath path
  else
    match pyIndexPos path.length index with
    | none => (path, .indexError)
    | some k => if path[k]? = some dpath then (path.eraseIdx k, .clean) else ppcRecover warnErr dpath path

/-- how the `with` statement ends: an exception raised by `__exit__` replaces the body's ending -/
def exitEnding (e : Ending) : ExitResult → Ending
  | .runtimeError | .indexError | .warnRaised => .exception
  | _ => e

/-- `with PythonPathContext(dpath, index): body`; `warnErr` = the process runs with warnings as errors -/
def withPPC (dpath : String) (index : Int) (body : Body) (st : PState) (warnErr : Bool := false) :
    PState × Ending × ExitResult :=
  let en := ppcEnter dpath index st.sysPath
  let r := body { st with sysPath := en.2 }
  let ex := ppcExit warnErr dpath en.1 r.1.sysPath
  ({ r.1 with sysPath := ex.1 }, exitEnding r.2 ex.2, ex.2)

/-! ## the arrangement in `DocTest.run` -/

/-- what follows a part that ended with an `Exception`: the ladder either goes on (expected
    exception matched) or stops the loop -/
structure PartBody where
  body : Body
  goesOnAfterException : Bool := false
  /-- does `cap.log_part()` raise after this body (the body closed the capture stream) -/
  logRaises : PState → Bool := fun _ => false

/-- the part loop: `with cap:` around each executed part -/
def partsLoop (c : Cap) : List PartBody → PState → PState × Ending
  | [], st => (st, .normal)
  | p :: rest, st =>
    match (withCap c p.logRaises p.body st).2 with
    | .normal => partsLoop c rest (withCap c p.logRaises p.body st).1
    | .exception =>
      if p.goesOnAfterException then partsLoop c rest (withCap c p.logRaises p.body st).1
      else ((withCap c p.logRaises p.body st).1, .exception)
    | e => ((withCap c p.logRaises p.body st).1, e)

/-- `DocTest.run` as brackets: `cap = CaptureStdout(...)`; `with catch_warnings(record=True):`
    pre-import (`pre`, e.g. `withPPC dpath (-1) importBody`) before the first executed part, then the
    loop. `parts` = the parts that are executed (skipped parts touch nothing). With no executed part
    there is no pre-import either. -/
def runBracket (capObj freshList logAppend showOrig : Obj) (pre : Body)
    (parts : List PartBody) (st : PState) : PState × Ending :=
  withCatchWarnings freshList logAppend showOrig (fun s =>
    match parts with
    | [] => (s, .normal)
    | _ :: _ =>
      match (pre s).2 with
      | .normal => partsLoop (Cap.new true capObj st) parts (pre s).1
      | e => ((pre s).1, e)) st

/-! ## a concrete body language (driver, witnesses) -/

inductive POp where
  | setStdout (o : Obj)              -- `sys.stdout = OBJ[o]`
  | setStderr (o : Obj)
  | addFilter (n : Nat)              -- `warnings.filters.insert(0, F[n])`   (simplefilter & co)
  | rebindFilters (id : Obj)         -- `warnings.filters = []`  (a new list object)
  | setShowwarning (o : Obj)
  | pathInsert (i : Int) (x : String)
  | pathAppend (x : String)
  | pathRemove (x : String)          -- `sys.path.remove(x)` when present
  | pathPop                          -- `sys.path.pop()` when non-empty
  deriving DecidableEq, Repr

def applyPOp (st : PState) : POp → PState
  | .setStdout o => { st with stdout := o }
  | .setStderr o => { st with stderr := o }
  | .addFilter n => { st with filters := { st.filters with items := n :: st.filters.items } }
  | .rebindFilters id => { st with filters := { id := id, items := [] } }
  | .setShowwarning o => { st with showwarning := o }
  | .pathInsert i x => { st with sysPath := pyInsert st.sysPath i x }
  | .pathAppend x => { st with sysPath := st.sysPath ++ [x] }
  | .pathRemove x => { st with sysPath := st.sysPath.erase x }
  | .pathPop => { st with sysPath := st.sysPath.dropLast }

def opsBody (ops : List POp) (e : Ending) : Body := fun st => (ops.foldl applyPOp st, e)

end Xdoc

import XdocModel.Checker
import XdocModel.Directive
import XdocModel.Part
/-!
# Model of `DocTest.run` (doctest_example.py) : the per-part loop

What CPython does when a part is executed is an oracle (`sem`): the model computes xdoctest's own
decision logic around it — directive update, skip rule, comment-only parts, the got/want check
against every trailing sequence of unmatched output, the expected-exception branch, the
`except` ladder, `break` on failure, and the summary of `_post_run`.
-/
namespace Xdoc
open Py

/-- a part together with the directives the parser attached to it -/
structure RunPart where
  part : Part
  directives : List Directive := []
  deriving Repr

/-- how executing one part ended (recorded from the real execution in the correspondence) -/
inductive ExecResult where
  /-- ran to completion: captured stdout, value of the final expression -/
  | ok (stdout : Str) (ev : EvalResult)
  /-- raised an `Exception`: captured stdout so far, last line of `format_exception_only`, and the
      line number of the outermost traceback frame whose filename is the doctest's (if any) -/
  | raised (stdout : Str) (excLine : Str) (tbLineno : Option Nat)
  /-- `compile()` of the part failed (`lineno` attribute of the error, if any) -/
  | compileError (lineno : Option Nat)
  /-- `ExitTestException` / `pytest.skip` inside the doctest (`excLine` as for `raised`) -/
  | exit (stdout : Str) (excLine : Str)
  /-- top-level await while an event loop is already running -/
  | existingLoop
  deriving DecidableEq, Repr

inductive FailKind where
  | directive      -- `runstate.update` raised (malformed directive)
  | importError    -- pre-import of the module under test failed
  | compile        -- error found when the part is compiled
  | gotWant        -- `GotWantException` (output or exception message differs)
  | reprError      -- `ExtractGotReprException`
  | exception      -- an exception escaped the part
  | existingLoop
  deriving DecidableEq, Repr

structure Failure where
  kind : FailKind
  partIdx : Nat                 -- index of `failed_part` (for `importError`: the part about to run)
  tbLineno : Nat := 1           -- `failed_tb_lineno`
  deriving DecidableEq, Repr

inductive OnError where
  | raise | ret
  deriving DecidableEq, Repr

/-- how `run` itself ends -/
inductive RunEnd where
  | returned                    -- a summary is returned
  | raised (k : FailKind)       -- the failure propagates (`on_error='raise'`)
  | escaped                     -- `ValueError('Could not clean traceback')` : escapes in BOTH modes
  | pytestSkip                  -- `pytest.skip()` when everything was skipped and mode == 'pytest'
  deriving DecidableEq, Repr

structure Summary where
  passed : Bool
  failed : Bool
  skipped : Bool
  deriving DecidableEq, Repr

/-- observable state of one run -/
structure RunState (Env : Type) where
  env : Env
  rs : RState
  unmatched : List Str := []
  skipped : List Nat := []          -- indices appended to `_skipped_parts`
  executed : List Nat := []         -- indices of parts handed to `exec`/`eval`, in order
  logged : List (Nat × Str) := []   -- `logged_stdout`
  failure : Option Failure := none
  didImport : Bool := false

structure RunCfg where
  onError : OnError := .ret
  importOk : Bool := true
  pytestMode : Bool := false
  defaults : List (String × Bool) := []

/-- `part.check(got_stdout, got_eval, runstate, unmatched)` : try the concatenation of the last
    `i` entries of `unmatched ++ [stdout]` for `i = 1 …`. Since the repair of the false fail found in the
    third session a repr error no longer ends the search: a longer trailing sequence of the output may still
    satisfy the want; only when none does is the (first) repr error raised, before any got/want error -/
def checkTrailing (f : Flags) (want : Str) (ev : EvalResult) : List Str → Str → GotWant
  | [], acc => checkGotVsWant f want acc ev
  | u :: us, acc =>
    match checkGotVsWant f want acc ev with
    | .ok => .ok
    | .differs => checkTrailing f want ev us (u ++ acc)
    | .reprError =>
      match checkTrailing f want ev us (u ++ acc) with
      | .ok => .ok
      | _ => .reprError

/-- `unmatched` is given oldest first; candidates are built from the newest backwards -/
def partCheck (f : Flags) (want : Str) (stdout : Str) (ev : EvalResult) (unmatched : List Str) : GotWant :=
  checkTrailing f want ev unmatched.reverse stdout

def flagsOf (rs : RState) : Flags :=
  let b := fun k => (rs.getBool k).getD false
  { ellipsis := b "ELLIPSIS", normWs := b "NORMALIZE_WHITESPACE", ignWs := b "IGNORE_WHITESPACE",
    normRepr := b "NORMALIZE_REPR", noBlank := b "DONT_ACCEPT_BLANKLINE",
    ignDetail := b "IGNORE_EXCEPTION_DETAIL" }

inductive Step (Env : Type) where
  | continue (s : RunState Env)
  | stop (s : RunState Env) (e : RunEnd)       -- `break` (e = returned) or propagate

/-- what happens to `_unmatched_stdout` after a part ran -/
inductive UnmAct where
  | append | clear | keep
  deriving DecidableEq, Repr

/-- the decision taken for one part (pure; `applyAct` turns it into the state change) -/
inductive Act where
  /-- appended to `_skipped_parts` -/
  | skip
  /-- executed, the loop goes on -/
  | ran (out : Str) (u : UnmAct)
  /-- the loop ends here: was the part executed, with which output, and is it a failure -/
  | halt (executed : Bool) (out : Str) (fl : Option (FailKind × Nat))
  /-- `ValueError('Could not clean traceback')` -/
  | escape (out : Str)
  deriving DecidableEq, Repr

/-- the decision once the part has been executed (or failed to compile) -/
def decideExec (f : Flags) (ignoreWant : Bool) (want : Option Str) (unmatched : List Str) :
    ExecResult → Act
  | .compileError ln => .halt false [] (some (.compile, ln.getD 1))
  -- raised inside `with cap:`: the `finally` clause logs the part (with empty output) like any other
  | .existingLoop => .halt true [] (some (.existingLoop, 1))
  | .exit out excLine =>
    -- `ExitTestException` is an `Exception`: with a want it first goes through the
    -- expected-exception check like any other; re-raised, it ends the doctest gracefully
    (match want with
     | none => .halt true out none
     | some w =>
       match checkException f excLine w with
       | none => .halt true out none
       | some true => .ran out .keep
       | some false => .halt true out (some (.gotWant, 1)))
  | .ok out ev =>
    (match want with
     | none => .ran out .append
     | some w =>
       if ignoreWant then .ran out .clear
       else
         match partCheck f w out ev unmatched with
         | .ok => .ran out .clear
         | .differs => .halt true out (some (.gotWant, 1))
         | .reprError => .halt true out (some (.reprError, 1)))
  | .raised out excLine tb =>
    let escape : Act :=
      match tb with
      | some ln => .halt true out (some (.exception, ln))
      | none => .escape out
    (match want with
     | none => escape
     | some w =>
       match checkException f excLine w with
       | none => escape                       -- want is not a traceback block: re-raise
       | some true => .ran out .keep          -- expected exception: go on, `unmatched` untouched
       | some false => .halt true out (some (.gotWant, 1)))

/-- what precedes execution: directive update, skip rule, comment-only parts, pre-import -/
inductive Pre where
  | dirError
  | skip (rs : RState)
  | importFail (rs : RState)
  | exec (rs : RState)

def preStage (sat : Str → Option Bool) (cfg : RunCfg) (rs0 : RState) (didImport : Bool) (p : RunPart) : Pre :=
  match rs0.update sat p.directives with
  | none => .dirError
  | some rs =>
    if rs.skips then .skip rs
    else if !p.part.hasAnyCode then .skip rs
    else if !didImport && !cfg.importOk then .importFail rs
    else .exec rs

variable {Env : Type}

def endOf (cfg : RunCfg) (k : FailKind) : RunEnd :=
  match cfg.onError with
  | .raise => .raised k
  | .ret => .returned

/-- the state change of a decision -/
def applyAct (cfg : RunCfg) (s : RunState Env) (i : Nat) (env' : Env) : Act → Step Env
  | .skip => .continue { s with skipped := s.skipped ++ [i] }
  | .ran out u =>
    .continue { s with env := env', executed := s.executed ++ [i], logged := s.logged ++ [(i, out)],
                       unmatched := match u with
                         | .append => s.unmatched ++ [out] | .clear => [] | .keep => s.unmatched }
  | .halt executed out fl =>
    let s := if executed then
        { s with env := env', executed := s.executed ++ [i], logged := s.logged ++ [(i, out)] } else s
    (match fl with
     | none => .stop s .returned
     | some (k, tb) => .stop { s with failure := some { kind := k, partIdx := i, tbLineno := tb } } (endOf cfg k))
  | .escape out =>
    .stop { s with env := env', executed := s.executed ++ [i], logged := s.logged ++ [(i, out)] } .escaped

/-- one iteration of the `for partx, part in enumerate(self._parts)` loop -/
def stepPart (sat : Str → Option Bool) (sem : Env → Nat → RunPart → ExecResult × Env)
    (cfg : RunCfg) (s : RunState Env) (i : Nat) (p : RunPart) : Step Env :=
  match preStage sat cfg s.rs s.didImport p with
  | .dirError => applyAct cfg s i s.env (.halt false [] (some (.directive, 1)))
  | .skip rs => applyAct cfg { s with rs := rs } i s.env .skip
  | .importFail rs => applyAct cfg { s with rs := rs } i s.env (.halt false [] (some (.importError, 1)))
  | .exec rs =>
    applyAct cfg { s with rs := rs, didImport := true } i (sem s.env i p).2
      (decideExec (flagsOf rs) ((rs.getBool "IGNORE_WANT").getD false) p.part.want s.unmatched
        (sem s.env i p).1)

/-- the loop -/
def runLoop (sat : Str → Option Bool) (sem : Env → Nat → RunPart → ExecResult × Env) (cfg : RunCfg) :
    RunState Env → Nat → List RunPart → RunState Env × Option RunEnd
  | s, _, [] => (s, none)
  | s, i, p :: ps =>
    match stepPart sat sem cfg s i p with
    | .continue s' => runLoop sat sem cfg s' (i + 1) ps
    | .stop s' e => (s', some e)

/-- `_post_run` -/
def summaryOf (nParts : Nat) (s : RunState Env) : Summary :=
  let skipped := s.skipped.length == nParts
  let failed := s.failure.isSome
  { passed := !failed && !skipped, failed := failed, skipped := skipped }

structure RunOutcome (Env : Type) where
  state : RunState Env
  ending : RunEnd
  summary : Summary          -- meaningful when `ending = returned`

/-- `DocTest.run` -/
def run (sat : Str → Option Bool) (sem : Env → Nat → RunPart → ExecResult × Env) (cfg : RunCfg)
    (env0 : Env) (parts : List RunPart) : RunOutcome Env :=
  let s0 : RunState Env := { env := env0, rs := RState.init cfg.defaults }
  let (s, e) := runLoop sat sem cfg s0 0 parts
  let summ := summaryOf parts.length s
  match e with
  | some (.raised k) => { state := s, ending := .raised k, summary := summ }
  | some .escaped => { state := s, ending := .escaped, summary := summ }
  | some .pytestSkip => { state := s, ending := .pytestSkip, summary := summ }
  | some .returned =>
    -- an import failure returns the summary directly; every other `break` falls through to
    -- the common tail, where the all-skipped test cannot fire (the stopping part was not skipped)
    { state := s, ending := .returned, summary := summ }
  | none =>
    if s.skipped.length == parts.length && cfg.pytestMode then
      { state := s, ending := .pytestSkip, summary := summ }
    else { state := s, ending := .returned, summary := summ }

end Xdoc

namespace Xdoc
open Py

/-- `DocTest.failed_line_offset()` : 0-based line of the failure relative to the doctest.
    (`Nat` subtraction: the real value is never negative because `tbLineno ≥ 1`.) -/
def failedLineOffset (p : Part) (fl : Failure) : Nat :=
  match fl.kind with
  | .importError => 0
  | .reprError | .existingLoop => p.lineOffset + p.nExecLines - 1
  | .gotWant => p.lineOffset + p.nExecLines + 1 - 1
  | _ => p.lineOffset + fl.tbLineno - 1

/-- `DocTest.failed_lineno()` : 1-based line in the file -/
def failedLineno (docLineno : Nat) (p : Part) (fl : Failure) : Nat :=
  docLineno + failedLineOffset p fl

/-- the context line `_alter_traceback_linenos` quotes under a traceback frame whose file is
    the doctest: only lines that exist in the failing part (frames of helpers defined by earlier,
    longer parts have larger line numbers) -/
def tbContextLine (p : Part) (tbLineno : Nat) : Option Str :=
  match p.origLines with
  | none => none
  | some ls => if 0 < tbLineno ∧ tbLineno ≤ ls.length then ls[tbLineno - 1]? else none

end Xdoc

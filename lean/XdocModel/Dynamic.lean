import XdocModel.Static
/-!
# Model of `xdoctest/dynamic_analysis.py` : `iter_module_doctestables`, `is_defined_by_module`,
# `parse_dynamic_calldefs` over an abstract object graph; `execModule`

The object graph is what a plain `vars(module)` / `vars(cls)` walk shows (dumped by the harness
without xdoctest): for every value its kind and the attributes the code reads. Unwrapping of
`property` / `staticmethod` / `classmethod`, the defining-module test, the class recursion (one
level) and the `hasattr` filter of `parse_dynamic_calldefs` are computed by the model.

`execModule` says what importing a module binds, for the fragment of C16: `def` / `async def` /
`class` statements (decorators `staticmethod` / `classmethod` / `property` in first position,
`@p.setter` / `@p.deleter` re-binding an existing property to one with the same getter, every
other decorator returning an object with the same `__module__`, `__name__`, `__doc__`), imports
binding objects of other modules, branches executed or not as the generator says. It is a sequence
of binding events folded with dict assignment. Validated against real imports by the harness.
-/
namespace Xdoc.Dynamic
open Xdoc Py Static

/-- the attributes of one object that the code reads -/
structure Facts where
  /-- `getattr(obj, '__module__', None)` -/
  module : Option Str
  /-- `obj.__objclass__.__module__` when `hasattr(obj, '__objclass__')` -/
  objclassModule : Option (Option Str) := none
  /-- `obj.__globals__['__name__']`; `none`: `AttributeError` -/
  globalsName : Option Str := none
  /-- `hasattr(obj, '__name__')` -/
  hasName : Bool := true
  /-- `obj.__doc__` -/
  doc : Option Str := none
  deriving DecidableEq, Repr

inductive Wrap where
  | none | property | staticmethod | classmethod
  deriving DecidableEq, Repr

/-- a value that is not a class -/
structure Item where
  /-- `isinstance(val, valid_func_types)` -/
  valid : Bool
  wrap : Wrap
  /-- the object itself -/
  self : Facts
  /-- `fget` / `__func__` of a wrapper (unused for `Wrap.none`) -/
  inner : Facts
  deriving DecidableEq, Repr

inductive Val where
  | item (i : Item)
  /-- `isinstance(val, type)` : attributes of the class and `vars(cls)` in order -/
  | cls (f : Facts) (members : List (Str × Item))
  deriving Repr

structure ObjGraph where
  name : Str                      -- `module.__name__`
  doc : Option Str                -- `module.__doc__`
  dict : List (Str × Val)         -- `module.__dict__` in order
  deriving Repr

/-- the object the module test and the class-level `yield` look at -/
def Item.target (i : Item) : Facts :=
  match i.wrap with
  | .none => i.self
  | _ => i.inner

/-- `is_defined_by_module(item, module)` for an object that is not a module -/
def definedBy (modname : Str) (f : Facts) : Bool :=
  f.module == some modname || f.objclassModule == some (some modname) || f.globalsName == some modname

/-- dict assignment `d[k] = v` -/
def dictSet {β : Type} (k : Str) (v : β) : List (Str × β) → List (Str × β)
  | [] => [(k, v)]
  | (k', v') :: r => if k' = k then (k, v) :: r else (k', v') :: dictSet k v r

def setAll {β : Type} (l acc : List (Str × β)) : List (Str × β) :=
  l.foldl (fun a kv => dictSet kv.1 kv.2 a) acc

/-- the inner loop over `val.__dict__` : entries `(key, docstr)` -/
def memberEntries (modname cname : Str) : List (Str × Item) → List (Str × Option Str)
  | [] => []
  | (k, it) :: r =>
    (if it.valid && definedBy modname it.target && it.target.hasName
     then [(cname ++ ['.'] ++ k, it.target.doc)] else []) ++ memberEntries modname cname r

/-- what one entry of `module.__dict__` contributes to `calldefs` -/
def entriesOf (modname : Str) : Str × Val → List (Str × Option Str)
  | (k, .item it) =>
    if it.valid && definedBy modname it.target && it.self.hasName then [(k, it.self.doc)] else []
  | (k, .cls f ms) =>
    if definedBy modname f then
      (if f.hasName then [(k, f.doc)] else []) ++ memberEntries modname k ms
    else []

def truthy (d : Option Str) : Bool :=
  match d with
  | some s => !s.isEmpty
  | none => false

/-- `parse_dynamic_calldefs(module)` as `(key, docstr)` pairs in dict order -/
def dynamicCollect (g : ObjGraph) : List (Str × Option Str) :=
  setAll (g.dict.flatMap (entriesOf g.name))
    (if truthy g.doc then [(docName, g.doc)] else [])

/-! ## what importing a module binds -/

/-- attributes of a function object whose `__module__` is this module; `gname` is the `__name__` of the
    namespace it was compiled in (`__globals__`) -/
def ownFacts (modname gname : Str) (doc : Option Doc) : Facts :=
  { module := some modname, globalsName := some gname, doc := doc.map (·.text) }

def isExtDeco (d : Deco) : Bool :=
  match d with
  | .ext _ => true
  | _ => false

/-- where the bound function object was compiled: a decorator imported from another module may return a
    `functools.wraps` wrapper made THERE (its `__module__`, `__name__`, `__doc__` are copied from the
    decorated function, its `__globals__` are the other module's) -/
def globalsOf (modname other : Str) (decos : List Deco) : Str :=
  if decos.any isExtDeco then other else modname

def wrapOf (decos : List Deco) : Wrap :=
  match decos with
  | .name n :: _ =>
    if n == "staticmethod".toList then .staticmethod
    else if n == "classmethod".toList then .classmethod
    else if n == "property".toList then .property
    else .none
  | _ => .none

/-- the object a `def` statement binds -/
def funcItem (modname other : Str) (decos : List Deco) (doc : Option Doc) : Item :=
  { valid := true, wrap := wrapOf decos, self := ownFacts modname (globalsOf modname other decos) doc,
    inner := ownFacts modname (globalsOf modname other decos) doc }

/-- an object defined in another module -/
def externalItem (other : Str) : Item :=
  { valid := true, wrap := .none, self := { module := some other, globalsName := some other },
    inner := { module := some other } }

/-- a class bound inside a class: not one of `valid_func_types` -/
def nestedClassItem (modname : Str) : Item :=
  { valid := false, wrap := .none, self := { module := some modname }, inner := { module := some modname } }

def bindsCls (modname other : Str) : Tree → List (Str × Item)
  | .done => []
  | .func _ name decos doc _ next =>
    -- `@p.setter def p` re-binds `p` to a property with the same getter: no visible change
    (if skipDeco decos then [] else [(name, funcItem modname other decos doc)]) ++ bindsCls modname other next
  | .cls name _ _ _ next => (name, nestedClassItem modname) :: bindsCls modname other next
  | .ifs _ r1 r2 body orelse next =>
    (if r1 then bindsCls modname other body else []) ++ (if r2 then bindsCls modname other orelse else [])
      ++ bindsCls modname other next
  | .comp r body next => (if r then bindsCls modname other body else []) ++ bindsCls modname other next
  | .imp name next => (name, externalItem other) :: bindsCls modname other next
  | .alias _ _ next => bindsCls modname other next
  | .other next => bindsCls modname other next

def bindsTop (modname other : Str) : Tree → List (Str × Val)
  | .done => []
  | .func _ name decos doc _ next =>
    (name, .item (funcItem modname other decos doc)) :: bindsTop modname other next
  | .cls name _ doc body next =>
    (name, .cls (ownFacts modname modname doc |> fun f => { f with globalsName := none })
                (setAll (bindsCls modname other body) [])) :: bindsTop modname other next
  | .ifs _ r1 r2 body orelse next =>
    (if r1 then bindsTop modname other body else []) ++ (if r2 then bindsTop modname other orelse else [])
      ++ bindsTop modname other next
  | .comp r body next => (if r then bindsTop modname other body else []) ++ bindsTop modname other next
  | .imp name next => (name, .item (externalItem other)) :: bindsTop modname other next
  | .alias _ _ next => bindsTop modname other next
  | .other next => bindsTop modname other next

/-- the module-level `target = src` assignments executed by an import, in order -/
def aliasesOf : Tree → List (Str × Str)
  | .done => []
  | .func _ _ _ _ _ next => aliasesOf next
  | .cls _ _ _ _ next => aliasesOf next
  | .ifs _ r1 r2 body orelse next =>
    (if r1 then aliasesOf body else []) ++ (if r2 then aliasesOf orelse else []) ++ aliasesOf next
  | .comp r body next => (if r then aliasesOf body else []) ++ aliasesOf next
  | .imp _ next => aliasesOf next
  | .alias t s next => (t, s) :: aliasesOf next
  | .other next => aliasesOf next

def dictGet {β : Type} (k : Str) : List (Str × β) → Option β
  | [] => none
  | (k', v) :: r => if k' = k then some v else dictGet k r

/-- `target = src` : the second key gets the object `src` is bound to. Simplification: the aliases are applied
    after all definitions (an alias sees the FINAL binding of `src` and its key comes last), exact when names are
    bound once; only the ORDER of the module dict can differ (the harness compares such modules as sets). -/
def applyAliases {β : Type} (al : List (Str × Str)) (d : List (Str × β)) : List (Str × β) :=
  al.foldl (fun acc ts => match dictGet ts.2 acc with
    | some v => dictSet ts.1 v acc
    | none => acc) d

/-- the module object after `import` : name `modname`; `other` names the module(s) imported names
    come from -/
def execModule (modname other : Str) (m : Module) : ObjGraph :=
  { name := modname, doc := m.doc.map (·.text),
    dict := applyAliases (aliasesOf m.body) (setAll (bindsTop modname other m.body) []) }

/-! ## the fragment of C16 -/

/-- no definition and no import at any depth (a branch like this may be left unexecuted) -/
def noDefs : Tree → Bool
  | .done => true
  | .func .. => false
  | .cls .. => false
  | .ifs _ _ _ body orelse next => noDefs body && noDefs orelse && noDefs next
  | .comp _ body next => noDefs body && noDefs next
  | .imp .. => false
  | .alias .. => false
  | .other next => noDefs next

def isWrapperName (d : Deco) : Bool :=
  match d with
  | .name n => n == "staticmethod".toList || n == "classmethod".toList || n == "property".toList
  | _ => false

/-- module level: no wrapper, no setter/deleter; class level: a wrapper only in first position -/
def decosOk (inCls : Bool) (decos : List Deco) : Bool :=
  if inCls then (decos.drop 1).all (fun d => !isWrapperName d)
  else !skipDeco decos && decos.all (fun d => !isWrapperName d)

/-- the side conditions of `static_eq_dynamic`, as a decidable predicate on the mini-AST:
    decorators as described; every branch that holds definitions is executed by the import; the
    guarded block of a main guard is not executed, its `else` branch is treated like any other branch -/
def inFragment : Bool → Tree → Bool
  | _, .done => true
  | inCls, .func _ _ decos _ _ next => decosOk inCls decos && inFragment inCls next
  | inCls, .cls _ _ _ body next => (if inCls then true else inFragment true body) && inFragment inCls next
  | inCls, .ifs t r1 r2 body orelse next =>
    (if isMainGuard t then !r1 && (if r2 then inFragment inCls orelse else noDefs orelse)
     else (if r1 then inFragment inCls body else noDefs body) &&
          (if r2 then inFragment inCls orelse else noDefs orelse)) && inFragment inCls next
  | inCls, .comp r body next => (if r then inFragment inCls body else noDefs body) && inFragment inCls next
  | inCls, .imp _ next => inFragment inCls next
  -- a second NAME for a def/class: the dynamic walk reports it under both keys, the static one only under the def's
  | _, .alias _ _ _ => false
  | inCls, .other next => inFragment inCls next

/-- distinct names per class scope (module-level classes reached through executed branches) -/
def classScopesDistinct (modname other : Str) : Tree → Bool
  | .done => true
  | .func _ _ _ _ _ next => classScopesDistinct modname other next
  | .cls _ _ _ body next =>
    decide (((bindsCls modname other body).map (·.1)).Nodup) && classScopesDistinct modname other next
  | .ifs _ r1 r2 body orelse next =>
    (if r1 then classScopesDistinct modname other body else true) &&
    (if r2 then classScopesDistinct modname other orelse else true) && classScopesDistinct modname other next
  | .comp r body next =>
    (if r then classScopesDistinct modname other body else true) && classScopesDistinct modname other next
  | .imp _ next => classScopesDistinct modname other next
  | .alias _ _ next => classScopesDistinct modname other next
  | .other next => classScopesDistinct modname other next

/-- all side conditions of C16 `static_eq_dynamic` as one decidable test (see `C16.InFragment`) -/
def fragmentOk (modname other : Str) (m : Module) : Bool :=
  decide (other ≠ modname) && inFragment false m.body &&
    decide (((bindsTop modname other m.body).map (·.1)).Nodup) && classScopesDistinct modname other m.body

/-- faithfulness domain of `bindsCls` for setters (not needed by the theorem, checked by the
    generator): a `@x.setter` / `@x.deleter` function is named like a property getter defined
    earlier in the same class -/
def propsOf : Tree → List Str
  | .done => []
  | .func _ name decos _ _ next => (if wrapOf decos == .property then [name] else []) ++ propsOf next
  | .cls _ _ _ _ next => propsOf next
  | .ifs _ _ _ body orelse next => propsOf body ++ propsOf orelse ++ propsOf next
  | .comp _ body next => propsOf body ++ propsOf next
  | .imp _ next => propsOf next
  | .alias _ _ next => propsOf next
  | .other next => propsOf next

end Xdoc.Dynamic

import Driver.Codec
/-! Protocol ops of the `Isolation` cluster: decode, call the model, print. -/
namespace Xdoc.Driver
open Xdoc

def opsIsolation : List String → Option String
  | _ => none

end Xdoc.Driver

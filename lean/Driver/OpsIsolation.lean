import Driver.Codec
import Driver.OpsDirective
import Driver.OpsExample
import XdocModel.World
import XdocModel.Bracket
/-!
Protocol ops of the `Isolation` cluster (C11 world model, C12 bracket model): decode, call the
model, print.

`history <modglobals> <sat> <n> <doc>*n <steps>`
* modglobals = `NAME=VAL,…|~`
* doc = `<cfg>#<part>#<part>…`, cfg = `<pytest 0|1>;<importOk 0|1>;<hasModule 0|1>;<defaults NAME=1,…|~>;<reportKey>[;<REQUIRES default: N | ~ | strings joined by +>]`
* part = `<stmts>@<exec|eval|single>@<want N|lines>@<directives>`, stmts `/`-joined:
  `n` (comment line) | `z` (statement without modelled effect) | `b.NAME.VAL` | `s.NAME` | `i.NAME` | `q.NAME` | `p.VAL` | `m` | `f` | `x`
* steps = `,`-joined `<doc index><r|e>` (r = on_error='return', e = 'raise')
Answer: one record per step, TAB-joined:
`<ending> <pfs> <kind|-> <idx|-> <tb|-> skipped=… executed=… logged=<i:str|…> start=<rstate> ns=<ns> mod=<ns> tmpl=<req>`

`ppc <path> <events>` events `|`-joined: `new:<dpath>:<index>` `enter:<k>` `exit:<k>` `exitw:<k>` (exit while warnings are errors) `ins:<i>:<x>` `app:<x>` `rem:<x>` `pop`
Answer: per event `<result>/<path>` TAB-joined (result: `idx=<stored>`, exit result, or `-`).

`runbracket <stdout,stderr,filtersId,show,impl> <filter items> <path> <pre> <part>*`
* pre = `none` | `<dpath>:<index>:<ops>:<ending>[:<warnings are errors 0|1>]` (import body inside `PythonPathContext`)
* part = `<ops>:<ending>:<goesOn 0|1>:<logRaises 0|1>`; ops `/`-joined (`~` none): `so.N` `se.N` `af.N` `rf.N` `sw.N`
  `pi.I.X` `pa.X` `pr.X` `pp`; ending = `n|e|s|k`
Answer: `<ending> out=<n> err=<n> filt=<id>:<items> show=<n> impl=<n> path=<list>`
-/
namespace Xdoc.Driver
open Xdoc Py

def decNS (f : String) : NS :=
  if f == "~" then [] else (f.splitOn ",").filterMap fun e =>
    match e.splitOn "=" with
    | [k, v] => some (k, v.toNat!)
    | _ => none

def encNS (ns : NS) : String :=
  if ns.isEmpty then "~" else ",".intercalate (ns.map fun (k, v) => s!"{k}={v}")

def decStmt (f : String) : Stmt :=
  match f.splitOn "." with
  | ["n"] => .nop
  | ["b", n, v] => .bind n v.toNat!
  | ["s", n] => .show n
  | ["i", n] => .inc n
  | ["q", n] => .probe n
  | ["p", v] => .say v.toNat!
  | ["m"] => .mute
  | ["f"] => .fail
  | ["x"] => .exit
  | _ => .nop

def decMode (f : String) : CompileMode :=
  if f == "eval" then .eval else if f == "single" then .single else .exec

/-- one part: the run-loop part (exec lines synthesised: a comment for `nop`) and its statements -/
def decMiniPart (f : String) : RunPart × List Stmt :=
  match f.splitOn "@" with
  | [stmts, mode, want, dirs] =>
    let codes := stmts.splitOn "/"
    let ss := codes.map decStmt
    ({ part := { execLines := codes.map (fun c => if c == "n" then "#".toList else "x".toList),
                 wantLines := if want == "N" then none else some (decStrList want),
                 compileMode := decMode mode },
       directives := decDirectives dirs }, ss)
  | _ => ({ part := { execLines := [] } }, [])

def decMiniDoc (f : String) : DocDef × List (List Stmt) :=
  match f.splitOn "#" with
  | cfg :: parts =>
    let ps := parts.map decMiniPart
    (match cfg.splitOn ";" with
     | [pyt, imp, hm, defaults, rk, req] =>
       ({ parts := ps.map (·.1), pytestMode := pyt == "1", importOk := imp == "1", hasModule := hm == "1",
          defaults := decBoolAssoc defaults, reportKey := rk,
          defaultsReq := if req == "N" then none else if req == "~" then some []
                         else some ((req.splitOn "+").map decStr) }, ps.map (·.2))
     | [pyt, imp, hm, defaults, rk] =>
       ({ parts := ps.map (·.1), pytestMode := pyt == "1", importOk := imp == "1", hasModule := hm == "1",
          defaults := decBoolAssoc defaults, reportKey := rk }, ps.map (·.2))
     | _ => ({ parts := ps.map (·.1) }, ps.map (·.2)))
  | [] => ({ parts := [] }, [])

def decSteps (f : String) : History :=
  if f == "~" then [] else (f.splitOn ",").map fun t =>
    let oe := if t.endsWith "e" then OnError.raise else OnError.ret
    ((t.dropEnd 1).toString.toNat!, oe)

def encLogged (l : List (Nat × Str)) : String :=
  if l.isEmpty then "~" else "|".intercalate (l.map fun (i, s) => s!"{i}:{encStr s}")

def encOutcome (o : Outcome) (st : Option DocState) (w : World) : String :=
  let s := o.summary
  let showTb := match o.failure with | some f => f.kind == FailKind.exception | none => false
  " ".intercalate [
    endName o.ending,
    encBool s.passed ++ encBool s.failed ++ encBool s.skipped,
    (o.failure.map (fun f => failKindName f.kind)).getD "-",
    (o.failure.map (fun f => if f.kind == FailKind.importError then "-" else toString f.partIdx)).getD "-",
    (if showTb then (o.failure.map (fun (f : Failure) => toString f.tbLineno)).getD "-" else "-"),
    "skipped=" ++ encNatList o.skipped,
    "executed=" ++ encNatList o.executed,
    "logged=" ++ encLogged o.logged,
    "start=" ++ (encRState o.startRs).replace " " "/",
    "ns=" ++ (match st with | some st => encNS st.ns | none => "?"),
    "mod=" ++ encNS w.moduleGlobals,
    "tmpl=" ++ encStrList w.template.req]

/-- run the history, one record per step -/
def runHistory (P : Prog) (sat : Str → Option Bool) (sem : Sem) : World → History → List String
  | _, [] => []
  | w, (i, oe) :: h =>
    let r := runDoc P sat sem w i oe
    encOutcome r.2 r.1.docs[i]? r.1 :: runHistory P sat sem r.1 h

/-! ### PythonPathContext histories -/

def decInt (f : String) : Int :=
  if f.startsWith "-" then - ((f.drop 1).toString.toNat! : Int) else (f.toNat! : Int)

def exitName : ExitResult → String
  | .clean => "clean" | .recovered => "recovered" | .warnRaised => "warnRaised"
  | .runtimeError => "RuntimeError" | .indexError => "IndexError"

def ppcEvents : List (String × Int) → List String → List String → List String
  | _, _, [] => []
  | objs, path, ev :: rest =>
    let out := fun (r : String) (p : List String) => r ++ "/" ++ encStrList (p.map String.toList)
    match ev.splitOn ":" with
    | ["new", d, i] => out "-" path :: ppcEvents (objs ++ [(String.ofList (decStr d), decInt i)]) path rest
    | ["enter", k] =>
      (match objs[k.toNat!]? with
       | some (d, i) =>
         let en := ppcEnter d i path
         out s!"idx={en.1}" en.2 :: ppcEvents (objs.set k.toNat! (d, en.1)) en.2 rest
       | none => ["bad-object"])
    | ["exit", k] =>
      (match objs[k.toNat!]? with
       | some (d, i) =>
         let ex := ppcExit false d i path
         out (exitName ex.2) ex.1 :: ppcEvents objs ex.1 rest
       | none => ["bad-object"])
    | ["exitw", k] =>      -- `__exit__` while warnings are errors
      (match objs[k.toNat!]? with
       | some (d, i) =>
         let ex := ppcExit true d i path
         out (exitName ex.2) ex.1 :: ppcEvents objs ex.1 rest
       | none => ["bad-object"])
    | ["ins", i, x] =>
      let p := pyInsert path (decInt i) (String.ofList (decStr x))
      out "-" p :: ppcEvents objs p rest
    | ["app", x] =>
      let p := path ++ [String.ofList (decStr x)]
      out "-" p :: ppcEvents objs p rest
    | ["rem", x] =>
      let p := path.erase (String.ofList (decStr x))
      out "-" p :: ppcEvents objs p rest
    | ["pop"] => out "-" path.dropLast :: ppcEvents objs path.dropLast rest
    | _ => ["bad-event"]

/-! ### the run bracket -/

def decEnding (f : String) : Ending :=
  if f == "e" then .exception else if f == "s" then .systemExit else if f == "k" then .keyboardInterrupt
  else .normal

def endingName : Ending → String
  | .normal => "normal" | .exception => "exception" | .systemExit => "SystemExit"
  | .keyboardInterrupt => "KeyboardInterrupt"

def decPOp (f : String) : Option POp :=
  match f.splitOn "." with
  | ["so", n] => some (.setStdout n.toNat!)
  | ["se", n] => some (.setStderr n.toNat!)
  | ["af", n] => some (.addFilter n.toNat!)
  | ["rf", n] => some (.rebindFilters n.toNat!)
  | ["sw", n] => some (.setShowwarning n.toNat!)
  | ["pi", i, x] => some (.pathInsert (decInt i) (String.ofList (decStr x)))
  | ["pa", x] => some (.pathAppend (String.ofList (decStr x)))
  | ["pr", x] => some (.pathRemove (String.ofList (decStr x)))
  | ["pp"] => some .pathPop
  | _ => none

def decPOps (f : String) : List POp :=
  if f == "~" then [] else (f.splitOn "/").filterMap decPOp

def decPartBody (f : String) : PartBody :=
  match f.splitOn ":" with
  | [ops, e, cont, lr] =>
    { body := opsBody (decPOps ops) (decEnding e), goesOnAfterException := cont == "1",
      logRaises := fun _ => lr == "1" }
  | _ => { body := opsBody [] .normal }

def decPre (f : String) : Body :=
  match f.splitOn ":" with
  | [d, i, ops, e, w] => fun st =>
    let r := withPPC (String.ofList (decStr d)) (decInt i) (opsBody (decPOps ops) (decEnding e)) st (w == "1")
    (r.1, r.2.1)
  | [d, i, ops, e] => fun st =>
    let r := withPPC (String.ofList (decStr d)) (decInt i) (opsBody (decPOps ops) (decEnding e)) st
    -- `_custom_import_modpath`: an Exception of the import or of `__exit__` becomes a RuntimeError
    (r.1, r.2.1)
  | _ => fun st => (st, .normal)

def encPState (st : PState) : String :=
  s!"out={st.stdout} err={st.stderr} filt={st.filters.id}:{encNatList st.filters.items} show={st.showwarning} impl={st.showwarnmsgImpl} path={encStrList (st.sysPath.map String.toList)}"

def opsIsolation : List String → Option String
  | "history" :: mg :: sat :: n :: rest =>
    let n := n.toNat!
    let docs := (rest.take n).map decMiniDoc
    let steps := decSteps ((rest.drop n).headD "~")
    let P : Prog := docs.map (·.1)
    let code := docs.map (·.2)
    let w0 := World.initial P (decNS mg)
    some ("\t".intercalate (runHistory P (decSat sat) (semMini code) w0 steps))
  | ["ppc", path, events] =>
    let evs := if events == "~" then [] else events.splitOn "|"
    some ("\t".intercalate (ppcEvents [] ((decStrList path).map String.ofList) evs))
  | "runbracket" :: ids :: items :: path :: pre :: parts =>
    match decNatList ids with
    | [so, se, fid, sw, impl] =>
      let st : PState := { stdout := so, stderr := se, filters := { id := fid, items := decNatList items },
                           showwarning := sw, showwarnmsgImpl := impl,
                           sysPath := (decStrList path).map String.ofList }
      let r := runBracket 900 901 902 903 (decPre pre) (parts.map decPartBody) st
      some (endingName r.2 ++ " " ++ encPState r.1)
    | _ => none
  | _ => none

end Xdoc.Driver

import Driver.Codec
import XdocModel.Checker
/-!
# Dispatch: one protocol line in, one line out. Only decodes, calls the model, prints.
-/
namespace Xdoc.Driver
open Xdoc Py Re

def decFlags (f : String) : Flags :=
  match decBits f with
  | [e, nw, iw, nr, nb, d] =>
    { ellipsis := e, normWs := nw, ignWs := iw, normRepr := nr, noBlank := nb, ignDetail := d }
  | [e, nw, iw, nr, nb] =>
    { ellipsis := e, normWs := nw, ignWs := iw, normRepr := nr, noBlank := nb }
  | _ => defaultFlags

def encFlags (f : Flags) : String :=
  String.join ([f.ellipsis, f.normWs, f.ignWs, f.normRepr, f.noBlank, f.ignDetail].map encBool)

def decEval (f : String) : EvalResult :=
  if f == "N" then .notEvaled else if f == "R" then .reprRaises
  else .value (decStr (f.drop 1).toString)

/-- the 32 settings of (ELLIPSIS, NORMALIZE_WHITESPACE, IGNORE_WHITESPACE, NORMALIZE_REPR,
    DONT_ACCEPT_BLANKLINE), index bit 4 = ELLIPSIS … bit 0 = DONT_ACCEPT_BLANKLINE -/
def allFlags : List Flags :=
  (List.range 32).map fun n =>
    { ellipsis := n / 16 % 2 == 1, normWs := n / 8 % 2 == 1, ignWs := n / 4 % 2 == 1,
      normRepr := n / 2 % 2 == 1, noBlank := n % 2 == 1 }

def opsChecker : List String → Option String
  | ["ellipsis", g, w] => some (encBool (ellipsisMatch (decStr g) (decStr w)))
  | ["split_ellipsis", w] => some (encStrList (splitEllipsis (decStr w)))
  | ["check_match", f, g, w] => some (encBool (checkMatch (decFlags f) (decStr g) (decStr w)))
  | ["normalize", f, g, w] =>
    let (g', w') := normalize (decFlags f) (decStr g) (decStr w)
    some (encStr g' ++ "\t" ++ encStr w')
  | ["check_output", f, g, w] => some (encBool (checkOutput (decFlags f) (decStr g) (decStr w)))
  | ["check_output_all", g, w] =>
    let g := decStr g; let w := decStr w
    some (String.join (allFlags.map fun f => encBool (checkOutput f g w)))
  | ["normalize_all", g, w] =>
    let g := decStr g; let w := decStr w
    some ("\t".intercalate (allFlags.map fun f =>
      let (g', w') := normalize f g w
      encStr g' ++ "\t" ++ encStr w'))
  | ["strip_ansi", s] => some (encStr (stripAnsi (decStr s)))
  | ["rm_prefix_u", s] => some (encStr (removePrefixes 'u' 'U' (decStr s)))
  | ["rm_prefix_b", s] => some (encStr (removePrefixes 'b' 'B' (decStr s)))
  | ["rm_blankline", s] => some (encStr (removeBlanklineMarker (decStr s)))
  | ["trailing_ws", s] => some (encStr (stripTrailingWs (decStr s)))
  | ["rstrip", s] => some (encStr (rstrip (decStr s)))
  | ["strip", s] => some (encStr (strip (decStr s)))
  | ["cr_lines", s] => some (encStr (eraseCrLines (decStr s)))
  | ["collapse", s] => some (encStr (collapse (decStr s)))
  | ["delete_ws", s] => some (encStr (deleteWs (decStr s)))
  | ["splitlines", s] => some (encStrList (splitLines (decStr s)))
  | ["splitlines_keep", s] => some (encStrList (splitLinesKeep (decStr s)))
  | ["split_nl", s] => some (encStrList (splitOn '\n' (decStr s)))
  | ["dedent", s] => some (encStr (dedent (decStr s)))
  | ["codeblock", s] => some (encStr (codeblock (decStr s)))
  | ["exc_want", w] => some (encOptStr (extractExcWant (decStr w)))
  | ["strip_details", s] => some (encStr (stripExceptionDetails (decStr s)))
  | ["check_exception", f, g, w] =>
    some (match checkException (decFlags f) (decStr g) (decStr w) with
      | none => "reraise" | some b => encBool b)
  | ["got_vs_want", f, w, out, ev] =>
    some (match checkGotVsWant (decFlags f) (decStr w) (decStr out) (decEval ev) with
      | .ok => "ok" | .differs => "differs" | .reprError => "reprerror")
  | ["default_flags"] => some (encFlags defaultFlags)
  | ["table", "isspace"] => some (tableOf isSpace)
  | ["table", "linebreak"] => some (tableOf isLineBreak)
  | ["table", "word"] => some (tableOf isWord)
  | ["table", "csi_final"] => some (tableOf isCsiFinal)
  | ["table", "csi_param"] => some (tableOf isCsiParam)
  | ["table", "csi_inter"] => some (tableOf isCsiInter)
  | _ => none

end Xdoc.Driver

import Driver.Codec
/-! Protocol ops of the `Static` cluster: decode, call the model, print. -/
namespace Xdoc.Driver
open Xdoc

def opsStatic : List String → Option String
  | _ => none

end Xdoc.Driver

import Driver.Codec
import XdocModel.Static
import XdocModel.Google
import XdocModel.CoreCollect
import XdocModel.Dynamic
/-! Protocol ops of the `Static` cluster (collection: C07, C16): decode, call the model, print.

Trees travel as a `;`-joined list of tokens (each token a codec string) in prefix order:
`tree := stmt* "E"`, `stmt := "F" async name decos doc tree | "C" name decos doc tree |
"I" isCompare op0Eq optstr optstr optstr optstr runsThen runsElse tree tree | "B" runs tree | "M" name | "L" target src | "O"`,
`decos := n (kind value)^n` (`kind`: N name, A attribute, E name or call of a name bound by an import, X other), `doc := "0" | "1" text endline startline`,
`optstr := "0" | "1" text`. -/
namespace Xdoc.Driver
open Xdoc Py Static Google Core Dynamic

abbrev Toks := List Str

def tokIs (t : Str) (s : String) : Bool := t == s.toList
def tokNat (t : Str) : Nat := (String.ofList t).toNat!
def tokBool (t : Str) : Bool := t == "1".toList

def parseDecos : Nat → Toks → Option (List Deco × Toks)
  | 0, r => some ([], r)
  | n + 1, k :: v :: r =>
    match parseDecos n r with
    | none => none
    | some (ds, r') =>
      let d : Deco := if tokIs k "N" then .name v else if tokIs k "A" then .attr v
                      else if tokIs k "E" then .ext v else .other
      some (d :: ds, r')
  | _, _ => none

def parseDoc : Toks → Option (Option Doc × Toks)
  | f :: r =>
    if tokIs f "0" then some (none, r) else
    match r with
    | text :: e :: st :: r' => some (some ⟨text, tokNat e, tokNat st⟩, r')
    | _ => none
  | [] => none

def parseOptStr : Toks → Option (Option Str × Toks)
  | f :: r =>
    if tokIs f "0" then some (none, r) else
    match r with
    | s :: r' => some (some s, r')
    | _ => none
  | [] => none

partial def parseTree : Toks → Option (Tree × Toks)
  | [] => none
  | t :: r =>
    if tokIs t "E" then some (.done, r)
    else if tokIs t "F" then
      match r with
      | a :: name :: n :: r1 => do
        let (ds, r2) ← parseDecos (tokNat n) r1
        let (doc, r3) ← parseDoc r2
        let (body, r4) ← parseTree r3
        let (next, r5) ← parseTree r4
        pure (.func (tokBool a) name ds doc body next, r5)
      | _ => none
    else if tokIs t "C" then
      match r with
      | name :: n :: r1 => do
        let (ds, r2) ← parseDecos (tokNat n) r1
        let (doc, r3) ← parseDoc r2
        let (body, r4) ← parseTree r3
        let (next, r5) ← parseTree r4
        pure (.cls name ds doc body next, r5)
      | _ => none
    else if tokIs t "I" then
      match r with
      | ic :: oe :: r1 => do
        let (l, r2) ← parseOptStr r1
        let (c, r2b) ← parseOptStr r2
        let (ls, r2c) ← parseOptStr r2b
        let (ci, r3) ← parseOptStr r2c
        match r3 with
        | r1f :: r2f :: r4 =>
          let (body, r5) ← parseTree r4
          let (orelse, r6) ← parseTree r5
          let (next, r7) ← parseTree r6
          pure (.ifs { isCompare := tokBool ic, op0Eq := tokBool oe, leftId := l, comp0 := c, leftStr := ls, comp0Id := ci }
                  (tokBool r1f) (tokBool r2f) body orelse next, r7)
        | _ => none
      | _ => none
    else if tokIs t "B" then
      match r with
      | f :: r1 => do
        let (body, r2) ← parseTree r1
        let (next, r3) ← parseTree r2
        pure (.comp (tokBool f) body next, r3)
      | _ => none
    else if tokIs t "M" then
      match r with
      | name :: r1 => do
        let (next, r2) ← parseTree r1
        pure (.imp name next, r2)
      | _ => none
    else if tokIs t "L" then
      match r with
      | target :: src :: r1 => do
        let (next, r2) ← parseTree r1
        pure (.alias target src next, r2)
      | _ => none
    else if tokIs t "O" then do
      let (next, r1) ← parseTree r
      pure (.other next, r1)
    else none

/-- module := doc tree -/
def parseModule (toks : Toks) : Option Static.Module := do
  let (doc, r) ← parseDoc toks
  let (body, _) ← parseTree r
  pure { doc := doc, body := body }

partial def parseFs : Toks → Option (Fs × Toks)
  | [] => none
  | t :: r =>
    if tokIs t "E" then some (.nil, r)
    else if tokIs t "f" then
      match r with
      | name :: r1 => do
        let (rest, r2) ← parseFs r1
        pure (.file name rest, r2)
      | _ => none
    else if tokIs t "d" then
      match r with
      | name :: r1 => do
        let (sub, r2) ← parseFs r1
        let (rest, r3) ← parseFs r2
        pure (.dir name sub rest, r3)
      | _ => none
    else none

def encLines : Option (Int × Nat) → String
  | none => "none"
  | some (a, b) => toString a ++ "," ++ toString b

def encCallDef (c : CallDef) : String :=
  encStr c.callname ++ "/" ++ encOptStr c.doc ++ "/" ++ encLines c.lines

def encPairs (l : List (Str × Option Str)) : String :=
  "|".intercalate (l.map fun (k, d) => encStr k ++ "/" ++ encOptStr d)

def encBlock (b : Block) : String := encStr b.key ++ "/" ++ encStr b.text ++ "/" ++ toString b.offset

def decStyle (s : String) : Style :=
  if s == "freeform" then .freeform else if s == "google" then .google else .auto

/-- a freeform piece: `T/<text>` or `P/<line_offset>/<exec lines>/<want lines | N>/<orig lines | N>` -/
def decPiece (f : String) : Option FPiece :=
  match f.splitOn "/" with
  | ["T", s] => some (.text (decStr s))
  | ["P", off, ex, w, o] =>
    some (.part { execLines := decStrList ex,
                  wantLines := if w == "N" then none else some (decStrList w),
                  origLines := if o == "N" then none else some (decStrList o),
                  lineOffset := off.toNat! })
  | _ => none

def decPieces (f : String) : Option (List FPiece) :=
  if f == "ERR" then none
  else if f == "~" then some []
  else (f.splitOn "|").mapM decPiece

def encEx (e : Ex) : String :=
  toString e.num ++ "/" ++ toString e.lineno ++ "/" ++ encStr e.docsrc ++ "/" ++
    (match e.blockType with | none => "N" | some b => "B" ++ encStr b) ++ "/" ++
    (match e.parts with | none => "N" | some ps => encNatList (ps.map (·.lineOffset))) ++ "/" ++
    encStr (uniqueCallname e)

/-! object graphs: tokens `graph := entry* "E"`, `entry := "I" key item | "C" key facts n (key item)^n`,
    `item := valid wrap facts facts`, `facts := optstr objclass optstr hasName optstr`,
    `objclass := "0" | "1" | "2" text` -/

def parseFacts (t : Toks) : Option (Facts × Toks) := do
  let (m, r1) ← parseOptStr t
  let (oc, r2) ← (match r1 with
    | f :: r =>
      if tokIs f "0" then some ((none : Option (Option Str)), r)
      else if tokIs f "1" then some (some none, r)
      else match r with
        | s :: r' => some (some (some s), r')
        | [] => none
    | [] => none)
  let (g, r3) ← parseOptStr r2
  match r3 with
  | hn :: r4 =>
    let (d, r5) ← parseOptStr r4
    pure ({ module := m, objclassModule := oc, globalsName := g, hasName := tokBool hn, doc := d }, r5)
  | [] => none

def decWrap (t : Str) : Wrap :=
  if tokIs t "P" then .property else if tokIs t "S" then .staticmethod
  else if tokIs t "K" then .classmethod else .none

def parseItem : Toks → Option (Item × Toks)
  | v :: w :: r => do
    let (s, r1) ← parseFacts r
    let (i, r2) ← parseFacts r1
    pure ({ valid := tokBool v, wrap := decWrap w, self := s, inner := i }, r2)
  | _ => none

def parseMembers : Nat → Toks → Option (List (Str × Item) × Toks)
  | 0, r => some ([], r)
  | n + 1, k :: r => do
    let (it, r1) ← parseItem r
    let (ms, r2) ← parseMembers n r1
    pure ((k, it) :: ms, r2)
  | _, _ => none

partial def parseEntries : Toks → Option (List (Str × Val))
  | [] => none
  | t :: r =>
    if tokIs t "E" then some []
    else if tokIs t "I" then
      match r with
      | k :: r1 => do
        let (it, r2) ← parseItem r1
        let rest ← parseEntries r2
        pure ((k, .item it) :: rest)
      | _ => none
    else if tokIs t "C" then
      match r with
      | k :: r1 => do
        let (f, r2) ← parseFacts r1
        match r2 with
        | n :: r3 =>
          let (ms, r4) ← parseMembers (tokNat n) r3
          let rest ← parseEntries r4
          pure ((k, .cls f ms) :: rest)
        | [] => none
      | _ => none
    else none

def wrapName : Wrap → String
  | .none => "-" | .property => "P" | .staticmethod => "S" | .classmethod => "K"

/-- what matters of an item for the walk: inert, or (wrapper kind, has a name, docstring) -/
def projItem (modname : Str) (classLevel : Bool) (it : Item) : String :=
  if it.valid && definedBy modname it.target then
    let f := if classLevel then it.target else it.self
    "func:" ++ wrapName it.wrap ++ ":" ++ encBool f.hasName ++ ":" ++ encOptStr f.doc
  else "inert"

def projGraph (g : ObjGraph) : String :=
  "|".intercalate (g.dict.map fun (k, v) =>
    encStr k ++ "=" ++
      match v with
      | .item it => projItem g.name false it
      | .cls f ms =>
        if definedBy g.name f then
          "cls:" ++ encOptStr f.doc ++ "{" ++
            ";".intercalate (ms.map fun (mk, it) => encStr mk ++ "=" ++ projItem g.name true it) ++ "}"
        else "inert")

def decCfg (flags : String) (exts : String) : WalkCfg × Bool :=
  match decBits flags with
  | [wp, wm, rec, chk] => ({ withPkg := wp, withMod := wm, recursive := rec, validExts := decStrList exts }, chk)
  | _ => ({ validExts := decStrList exts }, true)

def opsStatic : List String → Option String
  | ["calldefs", src, tree] =>
    some (match parseModule (decStrList tree) with
      | none => "bad-tree"
      | some m =>
        match parseStaticCalldefs (decStrList src) m with
        | .error _ => "error:IndexError"
        | .ok cds => "ok\t" ++ "|".intercalate (cds.map encCallDef))
  | ["inventory", src, tree] =>
    some (match parseModule (decStrList tree) with
      | none => "bad-tree"
      | some m =>
        let loc : Locator := fun d => match docLines (decStrList src) d with | .ok r => some r | .error _ => none
        "ok\t" ++ "|".intercalate ((inventory loc m).map encCallDef))
  | ["google_split", d] => some ("|".intercalate ((splitGoogle (decStr d)).map encBlock))
  | ["is_tag_line", l] => some (encBool (isTagLine (decStr l)))
  | ["examples", style, d, callname, lineno, gok, pieces] =>
    some (match decPieces pieces with
      | none =>
        if pieces == "ERR" then
          "|".intercalate ((parseDocstrExamples (decStyle style) (decStr d) (decStr callname) lineno.toNat!
            (decBits gok) none).map encEx)
        else "bad-pieces"
      | some ps =>
        "|".intercalate ((parseDocstrExamples (decStyle style) (decStr d) (decStr callname) lineno.toNat!
          (decBits gok) (some ps)).map encEx))
  | ["package", flags, exts, isfile, fs] =>
    some (if isfile == "1" then
        "|".intercalate ((packageModpaths (decCfg flags exts).1 (decCfg flags exts).2 .file).map encStrList)
      else match parseFs (decStrList fs) with
        | none => "bad-fs"
        | some (l, _) =>
          let (cfg, chk) := decCfg flags exts
          "|".intercalate ((packageModpaths cfg chk (.dir l)).map encStrList))
  | ["splitext", n] => some (encStr (splitExt (decStr n)))
  | ["dynamic", modname, doc, graph] =>
    some (match parseEntries (decStrList graph) with
      | none => "bad-graph"
      | some es =>
        let d := if doc == "none" then none else some (decStr (doc.drop 5).toString)
        encPairs (dynamicCollect { name := decStr modname, doc := d, dict := es }))
  | ["graph_proj", modname, graph] =>
    some (match parseEntries (decStrList graph) with
      | none => "bad-graph"
      | some es => projGraph { name := decStr modname, doc := none, dict := es })
  | ["exec_proj", modname, other, tree] =>
    some (match parseModule (decStrList tree) with
      | none => "bad-tree"
      | some m => projGraph (execModule (decStr modname) (decStr other) m))
  | ["exec_dynamic", modname, other, tree] =>
    some (match parseModule (decStrList tree) with
      | none => "bad-tree"
      | some m => encPairs (dynamicCollect (execModule (decStr modname) (decStr other) m)))
  | ["static_pairs", tree] =>
    some (match parseModule (decStrList tree) with
      | none => "bad-tree"
      | some m => encPairs ((visitModule (fun _ => none) m).map fun c => (c.callname, c.doc)))
  | ["in_fragment", modname, other, tree] =>
    some (match parseModule (decStrList tree) with
      | none => "bad-tree"
      | some m => encBool (fragmentOk (decStr modname) (decStr other) m))
  | _ => none

end Xdoc.Driver

import Driver.Codec
import XdocModel.Capture
/-!
Protocol ops of the `Capture` cluster: decode, call the model, print.

* `capture <ev>*` with `S` = start, `X` = exit (`log_part` + `stop`), `W<text>` = the code under
  test writes `text` to `sys.stdout`. Answer: `<parts> | <outside> | <text|N> | <capturing>`
-/
namespace Xdoc.Driver
open Xdoc Capture

def decEv (f : String) : Ev :=
  if f == "S" then .start else if f == "X" then .exit else .write (decStr (f.drop 1).toString)

def opsCapture : List String → Option String
  | "capture" :: evs =>
    let c := Capture.run (evs.map decEv)
    some (" | ".intercalate [encStrList c.parts, encStr c.outside,
      (match c.text with | none => "N" | some t => encStr t), encBool c.capturing])
  | _ => none

end Xdoc.Driver

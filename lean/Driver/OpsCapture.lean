import Driver.Codec
/-! Protocol ops of the `Capture` cluster: decode, call the model, print. -/
namespace Xdoc.Driver
open Xdoc

def opsCapture : List String → Option String
  | _ => none

end Xdoc.Driver

import Driver.Codec
/-! Protocol ops of the `Example` cluster: decode, call the model, print. -/
namespace Xdoc.Driver
open Xdoc

def opsExample : List String → Option String
  | _ => none

end Xdoc.Driver

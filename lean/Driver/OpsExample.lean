import Driver.OpsDirective
import Driver.Ops
import XdocModel.Example
/-!
Protocol ops of the `Example` cluster (the run loop).

`run <cfg> <sat> (<execLines> <want> <directives> <result>)*`
* cfg = `<raise|ret>;<importOk 1|0>;<pytestMode 1|0>;<defaults NAME=1,…|~>`
* want = `N` (None) or an encoded list of lines
* result (what executing the part did in the real run; `none` if the real run never executed it):
  `ok:<stdout>:<ev>` (ev = `N` not evaled | `R` repr raises | `V<repr>`), `raised:<stdout>:<excLine>:<tb|N>`,
  `compile:<lineno|N>`, `exit:<stdout>:<excLine>`, `loop`, `none`
Answer: `<ending> <pfs> <failkind|-> <failidx|-> <tb|-> skipped=<nats> executed=<nats> unmatched=<list>`
A part the model executes although the real run gave no result for it answers `no-oracle`.
-/
namespace Xdoc.Driver
open Xdoc Py

def decResult (f : String) : Option ExecResult :=
  match f.splitOn ":" with
  | ["ok", out, ev] => some (.ok (decStr out) (decEval ev))
  | ["raised", out, line, tb] => some (.raised (decStr out) (decStr line) (if tb == "N" then none else some tb.toNat!))
  | ["compile", ln] => some (.compileError (if ln == "N" then none else some ln.toNat!))
  | ["exit", out, line] => some (.exit (decStr out) (decStr line))
  | ["loop"] => some .existingLoop
  | _ => none

def decParts : List String → List (RunPart × Option ExecResult)
  | ex :: want :: dirs :: res :: rest =>
    ({ part := { execLines := decStrList ex, wantLines := if want == "N" then none else some (decStrList want) },
       directives := decDirectives dirs }, decResult res) :: decParts rest
  | _ => []

def failKindName : FailKind → String
  | .directive => "directive" | .importError => "import" | .compile => "compile" | .gotWant => "gotwant"
  | .reprError => "repr" | .exception => "exception" | .existingLoop => "loop"

def endName : RunEnd → String
  | .returned => "returned" | .raised k => "raised:" ++ failKindName k | .escaped => "escaped"
  | .pytestSkip => "pytestskip"

def opsExample : List String → Option String
  | "run" :: cfg :: sat :: rest =>
    match cfg.splitOn ";" with
    | [oe, imp, pyt, defaults] =>
      let parts := decParts rest
      let cfg : RunCfg := { onError := if oe == "raise" then .raise else .ret, importOk := imp == "1",
                            pytestMode := pyt == "1", defaults := decBoolAssoc defaults }
      -- Env = Bool: becomes false when the model executes a part without a recorded result
      let results := parts.map (·.2)
      let sem : Bool → Nat → RunPart → ExecResult × Bool := fun ok i _ =>
        match results[i]? with
        | some (some r) => (r, ok)
        | _ => (.ok [] .notEvaled, false)
      let out := run (decSat sat) sem cfg true (parts.map (·.1))
      if !out.state.env then some "no-oracle" else
      let s := out.summary
      let fl := out.state.failure
      some (" ".intercalate [
        endName out.ending,
        encBool s.passed ++ encBool s.failed ++ encBool s.skipped,
        (fl.map (fun f => failKindName f.kind)).getD "-",
        (fl.map (fun f => toString f.partIdx)).getD "-",
        (fl.map (fun f => toString f.tbLineno)).getD "-",
        "skipped=" ++ encNatList out.state.skipped,
        "executed=" ++ encNatList out.state.executed,
        "unmatched=" ++ encStrList out.state.unmatched])
    | _ => none
  /- part_check <flags> <want> <stdout> <ev> <unmatched list> -/
  | ["part_check", f, want, out, ev, unm] =>
    some (match partCheck (decFlags f) (decStr want) (decStr out) (decEval ev) (decStrList unm) with
      | .ok => "ok" | .differs => "differs" | .reprError => "reprerror")
  | ["has_any_code", ex] => some (encBool ({ execLines := decStrList ex : Part }).hasAnyCode)
  | _ => none

end Xdoc.Driver

import Driver.Codec
import XdocModel.Static
import XdocModel.Example
/-! Protocol ops of the `Lines` cluster (C08): decode, call the model, print. -/
namespace Xdoc.Driver
open Xdoc Static

def decFailKind (s : String) : FailKind :=
  if s == "gotwant" then .gotWant else if s == "repr" then .reprError else if s == "compile" then .compile
  else if s == "import" then .importError else if s == "loop" then .existingLoop
  else if s == "directive" then .directive else .exception

def opsLines : List String → Option String
  | ["docstart_mode"] => some (if Generated.docstartUsesNodeLineno then "node" else "workaround")
  | ["docstart", d, src, endline, startline] =>
    some (match docLines (decStrList src) ⟨decStr d, endline.toNat!, startline.toNat!⟩ with
      | .error _ => "error:IndexError"
      | .ok (a, b) => toString a ++ "," ++ toString b)
  | ["find_doc_start", d, src, endpos] =>
    some (match findDocStart (decStr d) (decStrList src) endpos.toNat! with
      | .error _ => "error:IndexError"
      | .ok (a, b) => toString a ++ "," ++ toString b)
  | ["end_ok", trip, line] => some (encBool (endOk (decStr trip) (decStr line)))
  | ["start_ok", trip, line] => some (encBool (startOk (decStr trip) (decStr line)))
  | ["failed_lineno", lineno, off, nexec, nwant, kind, tb] =>
    let p : Part := { execLines := List.replicate nexec.toNat! [],
                      wantLines := if nwant.toNat! == 0 then none else some (List.replicate nwant.toNat! []),
                      lineOffset := off.toNat! }
    some (toString (failedLineno lineno.toNat! p { kind := decFailKind kind, partIdx := 0, tbLineno := tb.toNat! }))
  | _ => none

end Xdoc.Driver

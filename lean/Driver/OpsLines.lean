import Driver.Codec
/-! Protocol ops of the `Lines` cluster: decode, call the model, print. -/
namespace Xdoc.Driver
open Xdoc

def opsLines : List String → Option String
  | _ => none

end Xdoc.Driver

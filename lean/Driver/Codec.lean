import XdocModel.Py.Str
/-!
# Line protocol codec (trusted: decoding / printing only)

A line is TAB-separated fields. A string is a comma-joined list of decimal code points, `-` for
the empty string. A list of strings is `;`-joined, `~` for the empty list. A list of lists is
`|`-joined.
-/
namespace Xdoc.Driver
open Xdoc

def decStr (f : String) : Str :=
  if f == "-" then [] else
  (f.splitOn ",").map fun t => Char.ofNat t.toNat!

def encStr (s : Str) : String :=
  if s.isEmpty then "-" else ",".intercalate (s.map fun c => toString c.toNat)

def decStrList (f : String) : List Str :=
  if f == "~" then [] else (f.splitOn ";").map decStr

def encStrList (l : List Str) : String :=
  if l.isEmpty then "~" else ";".intercalate (l.map encStr)

def decNatList (f : String) : List Nat :=
  if f == "~" || f == "-" then [] else (f.splitOn ",").map String.toNat!

def encNatList (l : List Nat) : String :=
  if l.isEmpty then "~" else ",".intercalate (l.map toString)

def encBool (b : Bool) : String := if b then "1" else "0"
def decBool (f : String) : Bool := f == "1"

def encOptStr : Option Str → String
  | none => "none"
  | some s => "some " ++ encStr s

/-- bits of a flag word, e.g. "101100" -/
def decBits (f : String) : List Bool := f.toList.map (· == '1')

/-- maximal ranges of scalar values satisfying `p`, as `lo-hi` joined by `,` -/
def tableOf (p : Char → Bool) : String := Id.run do
  let mut out : Array String := #[]
  let mut start : Option Nat := none
  let mut prev : Nat := 0
  for n in [0:0x110000] do
    let ok := if 0xD800 ≤ n && n ≤ 0xDFFF then false else p (Char.ofNat n)
    if ok then
      if start.isNone then start := some n
      prev := n
    else
      if let some s := start then
        out := out.push s!"{s}-{prev}"
        start := none
  if let some s := start then out := out.push s!"{s}-{prev}"
  return ",".intercalate out.toList

end Xdoc.Driver

import Driver.Codec
/-! Protocol ops of the `Stdlib` cluster: decode, call the model, print. -/
namespace Xdoc.Driver
open Xdoc

def opsStdlib : List String → Option String
  | _ => none

end Xdoc.Driver

import Driver.Ops
import XdocModel.Stdlib
/-! Protocol ops of the `Stdlib` cluster: decode, call the model, print. -/
namespace Xdoc.Driver
open Xdoc Xdoc.Std Py Re

/-- two or three bits: ELLIPSIS, NORMALIZE_WHITESPACE[, IGNORE_EXCEPTION_DETAIL] -/
def decStdFlags (f : String) : StdFlags :=
  match decBits f with
  | [e, n, d] => { ellipsis := e, normWs := n, ignDetail := d }
  | [e, n] => { ellipsis := e, normWs := n }
  | _ => { ellipsis := false, normWs := false }

/-- index bit 1 = ELLIPSIS, bit 0 = NORMALIZE_WHITESPACE -/
def allStdFlags : List StdFlags :=
  [{ ellipsis := false, normWs := false }, { ellipsis := false, normWs := true },
   { ellipsis := true, normWs := false }, { ellipsis := true, normWs := true }]

def opsStdlib : List String → Option String
  | ["std_check", f, g, w] => some (encBool (stdCheck (decStdFlags f) (decStr g) (decStr w)))
  | ["std_ellipsis", g, w] => some (encBool (stdEllipsis (decStr g) (decStr w)))
  | ["std_split", w] => some (encStrList (splitDots (decStr w)))
  | ["std_to_ascii", s] => some (encStr (toAscii (decStr s)))
  | ["std_blank_want", s] => some (encStr (stdBlankWant (decStr s)))
  | ["std_blank_got", s] => some (encStr (stdBlankGot (decStr s)))
  | ["std_exc_match", w] => some (encOptStr (stdExcMatch (decStr w)))
  | ["std_strip_details", s] => some (encStr (stdStripDetails (decStr s)))
  | ["std_exc_check", f, g, w] =>
    some (match stdExcCheck (decStdFlags f) (decStr g) (decStr w) with
      | none => "boom" | some b => encBool b)
  | ["corr_flags", f] => some (encFlags (corrFlags (decStdFlags f)))
  -- the four standard verdicts followed by the four xdoctest verdicts under the corresponding flags
  | ["std_vs_xdoc", g, w] =>
    let g := decStr g; let w := decStr w
    some (String.join (allStdFlags.map fun f => encBool (stdCheck f g w)) ++ " " ++
          String.join (allStdFlags.map fun f => encBool (checkOutput (corrFlags f) g w)))
  -- end-to-end shape: the standard want carries the final newline, xdoctest's does not
  | ["std_vs_xdoc_nl", g, w] =>
    let g := decStr g; let w := decStr w
    some (String.join (allStdFlags.map fun f => encBool (stdCheck f g (w ++ ['\n']))) ++ " " ++
          String.join (allStdFlags.map fun f => encBool (checkOutput (corrFlags f) g w)))
  | ["repl_got", out, ev] => some (encStr (replGot (decStr out) (decEval ev)))
  | _ => none

end Xdoc.Driver

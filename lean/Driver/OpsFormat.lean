import Driver.Codec
/-! Protocol ops of the `Format` cluster: decode, call the model, print. -/
namespace Xdoc.Driver
open Xdoc

def opsFormat : List String → Option String
  | _ => none

end Xdoc.Driver

import Driver.Codec
import XdocModel.Format
import XdocModel.Dump
/-!
Protocol ops of the `Format` cluster: decode, call the model, print.

* `ndigits <n>`
* `add_line_numbers <lines> <start> <nd|N>`
* `indent <text> <prefix>`
* `format_part <bits linenos,want,partnos,prefix> <startline> <nd|N> <exec> <want|N> <orig|N> <offset> <partno|N>`
* `format_src <bits linenos,want,offset,prefix,partnos> <lineno> (<exec> <want|N> <orig|N> <offset>)*`
  (part numbers are assigned 0,1,… as `DocTest._parse` does)
* `from_parts (<exec> <want|N> <orig|N> <offset>)*` : the lines `doctest_from_parts` joins
* `dump (<modname> <callname> <node> <undefined> <nparts> (<exec> <want|N>)^nparts)*`
-/
namespace Xdoc.Driver
open Xdoc Format Dump

def decOptList (f : String) : Option (List Str) := if f == "N" then none else some (decStrList f)
def decOptNat (f : String) : Option Nat := if f == "N" then none else some f.toNat!

def decFmtParts : Nat → List String → List Part
  | i, ex :: want :: orig :: off :: rest =>
    { execLines := decStrList ex, wantLines := decOptList want, origLines := decOptList orig,
      lineOffset := off.toNat!, partno := some i } :: decFmtParts (i + 1) rest
  | _, _ => []

def decDumpParts : Nat → List String → List Part × List String
  | 0, rest => ([], rest)
  | n + 1, ex :: want :: rest =>
    let (ps, r) := decDumpParts n rest
    ({ execLines := decStrList ex, wantLines := decOptList want } :: ps, r)
  | _, rest => ([], rest)

def decExamples : Nat → List String → List Dump.Example
  | 0, _ => []
  | fuel + 1, m :: c :: node :: und :: n :: rest =>
    let (ps, r) := decDumpParts n.toNat! rest
    { modname := decStr m, callname := decStr c, node := decStr node, undefined := decStrList und, parts := ps } ::
      decExamples fuel r
  | _, _ => []

private def bit (s : String) (i : Nat) : Bool := (s.toList.getD i '0') == '1'

def opsFormat : List String → Option String
  | ["ndigits", n] => some (toString (nDigits n.toNat!))
  | ["add_line_numbers", ls, start, nd] =>
    some (encStrList (addLineNumbers (decStrList ls) start.toNat! (decOptNat nd)))
  | ["indent", t, p] => some (encStr (indent (decStr t) (decStr p)))
  | ["format_part", bits, startline, nd, ex, want, orig, off, partno] =>
    let p : Part := { execLines := decStrList ex, wantLines := decOptList want, origLines := decOptList orig,
                      lineOffset := off.toNat!, partno := decOptNat partno }
    let o : FmtOpts := { linenos := bit bits 0, want := bit bits 1, partnos := bit bits 2, prefix_ := bit bits 3,
                         startline := startline.toNat!, nDigits := decOptNat nd }
    some (encStr (formatPart p o))
  | "format_src" :: bits :: lineno :: rest =>
    let o : SrcOpts := { linenos := bit bits 0, want := bit bits 1, offsetLinenos := bit bits 2,
                         prefix_ := bit bits 3, partnos := bit bits 4 }
    some (encStr (formatSrc (decFmtParts 0 rest) lineno.toNat! o))
  | "from_parts" :: rest => some (encStrList (fromPartsLines (decFmtParts 0 rest)))
  | "dump" :: rest => some (encStr (dumpModule (decExamples rest.length rest)))
  | _ => none

end Xdoc.Driver

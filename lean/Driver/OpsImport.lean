import Driver.Codec
import XdocModel.Import
/-!
Protocol ops of the `Import` cluster: decode, call the model, print.

A path travels as the encoded string of its absolute normal form (`/a/b/c`, the root is `/`); a
list of paths is `;`-joined (`~` = empty), search path entries are `|`-joined. A dotted module
name travels as its encoded string and is split on `.` here.

`imp <files> <dirs> <query> <query> …` answers all queries on the file system given by the two
listings, TAB-joined. A query is `:`-separated:

* `R:<hideInit><hideMain>:<entries>:<name>`  → `modname_to_modpath`: `none` / `some <path>`
* `I:<entries>:<name>`                       → `is_modname_importable`: `0` / `1`
* `P:<entry>:<name>`                         → spec `pyResolve`: `none` / `pkg <path>` / `mod <path>`
* `Q:<entries>:<name>`                       → spec `pyResolvePath`
* `N:<hideInit><hideMain>:<path>`            → `normalize_modpath`
* `S:<check>:<path>`                         → `split_modpath`: `ok <dir> <rel>` / `err <kind>`
* `M:<hideInit><hideMain><check>:<path>`     → `modpath_to_modname`: `ok <name>` / `err <kind>`
* `L:<hideInit><hideMain>:<path>:<relto>`    → `modpath_to_modname(…, relativeto=relto)`
* `V:<base>:<path below base>`               → `_isvalid` as (structural, literal walk): `1 some 1`

`imp_rel2name <string>` → the string pipeline of `modpath_to_modname` on a raw relative path.
-/
namespace Xdoc.Driver
open Xdoc Py Import

def decPath (f : String) : Path := (Py.splitOn '/' (decStr f)).filter (fun c => !c.isEmpty)

def decPaths (f : String) : List Path := if f == "~" then [] else (f.splitOn ";").map decPath

def decEntries (f : String) : List Path := if f == "~" then [] else (f.splitOn "|").map decPath

def decName (f : String) : List Comp := Py.splitOn '.' (decStr f)

def encPath (p : Path) : String := encStr ('/' :: joinSlash p)

def encRel (p : List Comp) : String := encStr (joinSlash p)

def encErr : ImpErr → String
  | .doesNotExist => "err doesNotExist"
  | .notAModule => "err notAModule"
  | .rootLoop => "err rootLoop"

def encFound : Option Found → String
  | none => "none"
  | some (.pkg d) => "pkg " ++ encPath d
  | some (.mod f) => "mod " ++ encPath f

private def bit (s : String) (i : Nat) : Bool := (s.toList.getD i '0') == '1'

def impQuery (fs : FS) (q : String) : String :=
  match q.splitOn ":" with
  | ["R", fl, entries, name] =>
    match modnameToModpath fs (decEntries entries) (decName name) (bit fl 0) (bit fl 1) with
    | none => "none"
    | some p => "some " ++ encPath p
  | ["I", entries, name] => encBool (isImportable fs (decEntries entries) (decName name))
  | ["P", entry, name] => encFound (pyResolve fs (decPath entry) (decName name))
  | ["Q", entries, name] => encFound (pyResolvePath fs (decEntries entries) (decName name))
  | ["N", fl, path] => encPath (normalizeModpath fs (decPath path) (bit fl 0) (bit fl 1))
  | ["S", fl, path] =>
    match splitModpath fs (decPath path) (bit fl 0) with
    | .ok (d, rel) => "ok " ++ encPath d ++ " " ++ encRel rel
    | .error e => encErr e
  | ["M", fl, path] =>
    match modpathToModname fs (decPath path) (bit fl 0) (bit fl 1) (bit fl 2) with
    | .ok n => "ok " ++ encStr n
    | .error e => encErr e
  | ["L", fl, path, relto] =>
    encStr (modpathToModnameRel fs (decPath path) (decPath relto) (bit fl 0) (bit fl 1))
  | ["V", base, path] =>
    let b := decPath base
    let p := decPath path
    let rel := p.drop b.length
    encBool (isValid fs b rel) ++ " " ++
      (match isValidWalk fs b (b ++ rel.dropLast).reverse with
       | none => "none"
       | some v => "some " ++ encBool v)
  | _ => "bad-query"

def opsImport : List String → Option String
  | "imp" :: files :: dirs :: queries =>
    let fs := FS.ofLists (decPaths files) (decPaths dirs)
    some ("\t".intercalate (queries.map (impQuery fs)))
  | ["imp_rel2name", s] => some (encStr (relToModname (decStr s)))
  | _ => none

end Xdoc.Driver

import Driver.Codec
/-! Protocol ops of the `Import` cluster: decode, call the model, print. -/
namespace Xdoc.Driver
open Xdoc

def opsImport : List String → Option String
  | _ => none

end Xdoc.Driver

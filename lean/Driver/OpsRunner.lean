import Driver.Codec
import Driver.OpsExample
import XdocModel.Runner
import XdocModel.Plugin
/-!
Protocol ops of the `Runner` cluster (C10, C15): decode, call the model, print.

* `is_disabled <pytest 0|1> <docsrc>` → `0|1`
* `ci_table <code point of a pattern character>` → ranges of the characters it matches
* `runner <command> <entry>*` with entry = `<E|Z>/<callname>/<num>/<docsrc>/<result>`
  (`E` collected doctest, `Z` zero-arg dummy; result = three bits passed,failed,skipped of the
  summary, or `X` exception escapes `run`, or `I` KeyboardInterrupt); answer
  `listed <names>` | `dumped <names>` | `aborted exit=1` |
  `ran total= passed= failed= skipped= failedlist=<names> ran=<names> exit=`
* `front_ends <docsrc> <defaults> <importOk 0|1> <sat> (<execLines> <want> <directives> <result>)*`
  (the part encoding of the `run` op) → `pytest=<p|f|s> native=<p|f|s|abort> pdis=<0|1> ndis=<0|1>`
  (pytest = what the item reports, native = what the native runner reports IF it runs the doctest)
* `populate <N | options>` → `pytest=<assoc|raise> native=<assoc|raise>`
* `pytest_exit <string of p f s>` → exit status
-/
namespace Xdoc.Driver
open Xdoc Py

def decRunResult (f : String) : RunResult :=
  if f == "X" then .escaped else if f == "I" then .interrupt else
  match decBits f with
  | [p, fl, s] => .summary { passed := p, failed := fl, skipped := s }
  | _ => .escaped

/-- `(isZero, entry)` -/
def decEntry (f : String) : Option (Bool × Entry) :=
  match f.splitOn "/" with
  | [kind, cn, num, src, res] =>
    some (kind == "Z", { doc := { callname := decStr cn, num := num.toNat!, docsrc := decStr src },
                         result := decRunResult res })
  | _ => none

def encNames (es : List Entry) : String := encStrList (es.map (·.doc.uniqueCallname))

def verdictLetter : Verdict → String
  | .passed => "p" | .failed => "f" | .skipped => "s"

def decVerdicts (f : String) : List Verdict :=
  f.toList.filterMap fun c =>
    if c == 'p' then some .passed else if c == 'f' then some .failed else if c == 's' then some .skipped else none

def encDefaults : Option (List (String × Bool)) → String
  | none => "raise"
  | some l => encBoolAssoc l

def opsRunner : List String → Option String
  | ["is_disabled", py, src] => some (encBool (isDisabled (py == "1") (decStr src)))
  | ["ci_table", k] => some (tableOf (kwCharMatch (Char.ofNat k.toNat!)))
  | "runner" :: cmd :: entries =>
    let es := entries.filterMap decEntry
    let examples := (es.filter (!·.1)).map (·.2)
    let zero := (es.filter (·.1)).map (·.2)
    let r := doctestModule (decStr cmd) examples zero
    some (match r with
      | .listed names => "listed " ++ encStrList names
      | .dumped en => "dumped " ++ encNames en
      | .aborted => s!"aborted exit={exitCode r}"
      | .ran rs =>
        s!"ran total={rs.nTotal} passed={rs.nPassed} failed={rs.nFailed} skipped={rs.nSkipped} " ++
        s!"failedlist={encNames rs.failed} ran={encNames rs.ran} exit={exitCode r}")
  | "front_ends" :: src :: defaults :: imp :: sat :: rest =>
    let parts := decParts rest
    let results := parts.map (·.2)
    let sem : Bool → Nat → RunPart → ExecResult × Bool := fun ok i _ =>
      match results[i]? with
      | some (some r) => (r, ok)
      | _ => (.ok [] .notEvaled, false)
    let d := decBoolAssoc defaults
    let src := decStr src
    let oP := run (decSat sat) sem (pytestCfg d (imp == "1")) true (parts.map (·.1))
    let oN := run (decSat sat) sem (nativeCfg d (imp == "1")) true (parts.map (·.1))
    if !oP.state.env || !oN.state.env then some "no-oracle" else
    let nat := match nativeVerdict oN with
      | some v => verdictLetter v
      | none => "abort"
    some (s!"pytest={verdictLetter (pytestVerdict src oP)} native={nat} " ++
          s!"pdis={encBool (isDisabled true src)} ndis={encBool (isDisabled false src)}")
  | ["populate", o] =>
    let opt : Option Str := if o == "N" then none else some (decStr o)
    some s!"pytest={encDefaults (pytestDefaults opt)} native={encDefaults (nativeDefaults opt)}"
  | ["pytest_exit", vs] => some (toString (pytestExit (decVerdicts vs)))
  | _ => none

end Xdoc.Driver

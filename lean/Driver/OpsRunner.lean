import Driver.Codec
/-! Protocol ops of the `Runner` cluster: decode, call the model, print. -/
namespace Xdoc.Driver
open Xdoc

def opsRunner : List String → Option String
  | _ => none

end Xdoc.Driver

import Driver.Codec
import XdocModel.Directive
/-!
Protocol ops of the `Directive` cluster.

Encoding of a directive: `NAME:<+|->:<i|b>:<args>` with args a `;`-joined list of encoded strings
(`~` = none). A list of directives is `|`-joined (`~` = empty). A requirement table `sat` is a
`|`-joined list of `<encoded arg>=<1|0|E>` (E = evaluation raises); unknown args raise.
-/
namespace Xdoc.Driver
open Xdoc Py

def decDirective (f : String) : Directive :=
  match f.splitOn ":" with
  | [n, pm, ib, args] => { name := n, positive := pm == "+", inline := ib == "i", args := decStrList args }
  | _ => { name := "?" }

def decDirectives (f : String) : List Directive :=
  if f == "~" then [] else (f.splitOn "|").map decDirective

def encDirective (d : Directive) : String :=
  s!"{d.name}:{if d.positive then "+" else "-"}:{if d.inline then "i" else "b"}:{encStrList d.args}"

def encDirectives (ds : List Directive) : String :=
  if ds.isEmpty then "~" else "|".intercalate (ds.map encDirective)

def decSat (f : String) : Str → Option Bool :=
  let table : List (Str × Option Bool) :=
    if f == "~" then [] else (f.splitOn "|").filterMap fun e =>
      match e.splitOn "=" with
      | [a, v] => some (decStr a, if v == "1" then some true else if v == "0" then some false else none)
      | _ => none
  fun a => (table.lookup a).getD none

def decBoolAssoc (f : String) : List (String × Bool) :=
  if f == "~" then [] else (f.splitOn ",").filterMap fun e =>
    match e.splitOn "=" with
    | [k, v] => some (k, v == "1")
    | _ => none

def encBoolAssoc (l : List (String × Bool)) : String :=
  if l.isEmpty then "~" else ",".intercalate (l.map fun (k, v) => s!"{k}={encBool v}")

/-- canonical rendering of a state: booleans in key order, REQUIRES sorted by code points -/
def encRState (s : RState) : String :=
  let req := (s.requires.map encStr).toArray.qsort (· < ·) |>.toList
  encBoolAssoc s.toBools ++ " REQ=" ++ (if req.isEmpty then "~" else ";".intercalate req) ++
    " skips=" ++ encBool s.skips

def opsDirective : List String → Option String
  /- rs_update <defaults> <sat> <directive list 1> <directive list 2> … : state after each update -/
  | "rs_update" :: defaults :: sat :: steps =>
    let sat := decSat sat
    let rec go (s : RState) : List String → List String
      | [] => []
      | st :: rest =>
        match s.update sat (decDirectives st) with
        | none => ["raise"]
        | some s' => encRState s' :: go s' rest
    some ("\t".intercalate (go (RState.init (decBoolAssoc defaults)) steps))
  | ["split_opstr", s] =>
    some (match splitOpstr (decStr s) with | none => "raise" | some l => encStrList l)
  | ["parse_optstr", s, inl] =>
    some (match parseDirectiveOptstr (decStr s) (inl == "1") with
      | none => "none" | some d => encDirective d)
  | ["directive_re", s] => some (encOptStr (directiveReMatch (decStr s)))
  | ["commands"] => some (",".intercalate commands)
  | _ => none

end Xdoc.Driver

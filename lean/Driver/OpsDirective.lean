import Driver.Codec
/-! Protocol ops of the `Directive` cluster: decode, call the model, print. -/
namespace Xdoc.Driver
open Xdoc

def opsDirective : List String → Option String
  | _ => none

end Xdoc.Driver

import Driver.Codec
import Driver.OpsDirective
import XdocModel.Lexer
import XdocModel.Parser
/-! Protocol ops of the `Parser` cluster (lexer, labeller, grouping, chunk packaging). -/
namespace Xdoc.Driver
open Xdoc Py Parser

def decFacts (f : String) : ChunkFacts :=
  if f == "S" then .syntaxError else
  match (f.drop 1).toString.splitOn ":" with
  | [starts, e] => .parsed (decNatList starts) (e == "1")
  | _ => .syntaxError

def encMode (m : CompileMode) : String := m.name

def encPiece : Piece → String
  | .text s => "T:" ++ encStr s
  | .part p =>
    "P:" ++ ":".intercalate [
      encStrList p.part.execLines,
      (match p.part.wantLines with | none => "N" | some w => encStrList w),
      (match p.part.origLines with | none => "N" | some w => encStrList w),
      toString p.part.lineOffset,
      encMode p.part.compileMode,
      (match p.directives with | none => "N" | some ds => (encDirectives ds).replace ":" "/")]

def failPointName : FailPoint → String
  | .label => "_label_docsrc_lines" | .group => "_group_labeled_lines" | .package => "_package_groups"

def opsParser : List String → Option String
  | ["is_balanced", ls] => some (encBool (Lexer.isBalanced (decStrList ls)))
  | ["lex_end", ls] =>
    some (match (Lexer.lex (decStrList ls)).2 with
      | .ok => "ok" | .eofString => "eofstring" | .eofStatement => "eofstatement" | .badDedent => "baddedent")
  | ["extract_comments", ls] =>
    some (match Lexer.extractComments (decStrList ls) with
      | none => "raise" | some cs => encStrList cs)
  | ["expandtabs", s] => some (encStr (expandTabs (decStr s)))
  | ["min_indent", s] => some (toString (minIndentation (decStr s)))
  | ["label", d] =>
    some (match labelLines (prepareLines (decStr d)) with
      | .error e => "error:" ++ e.name
      | .ok ls => "ok\t" ++ "|".intercalate (ls.map fun (l, t) => l.name ++ ":" ++ encStr t))
  | ["chunks", d] =>
    some (match chunksOf (decStr d) with
      | .error e => "error:" ++ e.name
      | .ok cs => "ok\t" ++ "\t".intercalate ((hackedSources cs).map fun h =>
          match h with | .ok s => "H" ++ encStr s | .error e => "E" ++ e.name))
  | "parse" :: d :: facts =>
    some (match parse (decStr d) (facts.map decFacts) with
      | .error (fp, e) => "error:" ++ failPointName fp ++ ":" ++ e.name
      | .ok ps => "ok\t" ++ "\t".intercalate (ps.map encPiece))
  | ["has_semicolon", ls] => some (encBool (Lexer.hasSemicolon (decStrList ls)))
  | _ => none

end Xdoc.Driver

import Driver.Codec
import Driver.OpsDirective
import XdocModel.Lexer
import XdocModel.Parser
import XdocModel.CoreExamples
/-! Protocol ops of the `Parser` cluster (lexer, labeller, grouping, chunk packaging). -/
namespace Xdoc.Driver
open Xdoc Py Parser CoreExamples

def decFacts (f : String) : ChunkFacts :=
  if f == "S" then .syntaxError else
  match (f.drop 1).toString.splitOn ":" with
  | [starts, e] => .parsed (decNatList starts) (e == "1")
  | _ => .syntaxError

def encMode (m : CompileMode) : String := m.name

def encPiece : Piece → String
  | .text s => "T:" ++ encStr s
  | .part p =>
    "P:" ++ ":".intercalate [
      encStrList p.part.execLines,
      (match p.part.wantLines with | none => "N" | some w => encStrList w),
      (match p.part.origLines with | none => "N" | some w => encStrList w),
      toString p.part.lineOffset,
      encMode p.part.compileMode,
      (match p.directives with | none => "N" | some ds => (encDirectives ds).replace ":" "/")]

def failPointName : FailPoint → String
  | .label => "_label_docsrc_lines" | .group => "_group_labeled_lines" | .package => "_package_groups"

def encChunk : Chunk → String
  | .text ls => "T:" ++ encStrList ls
  | .code src want => "C:" ++ encStrList src ++ ":" ++ encStrList want

/-- google oracle field: `M` = MalformedDocstr, `X<name>` = another exception,
    `B` followed by `tag;body` pairs joined by `|` (`B` alone = no block) -/
def decGoogle (f : String) : Except PyExc (List (Str × Str)) :=
  if f == "M" then .error .malformed
  else if f.startsWith "X" then .error (.other (f.drop 1).toString)
  else
    let body := (f.drop 1).toString
    if body.isEmpty then .ok []
    else .ok ((body.splitOn "|").map fun p =>
      match p.splitOn ";" with
      | [t, b] => (decStr t, decStr b)
      | _ => ([], []))

/-- table fields `text=facts/facts/…` : the CPython facts of the code chunks of each text -/
def decFactsTable (fields : List String) : List (Str × List ChunkFacts) :=
  fields.map fun f =>
    match f.splitOn "=" with
    | [t, fs] => (decStr t, if fs.isEmpty then [] else (fs.splitOn "/").map decFacts)
    | _ => ([], [])

def encExc : PyExc → String
  | .parseError fp e => "DoctestParseError:" ++ failPointName fp ++ ":" ++ e.name
  | .malformed => "MalformedDocstr"
  | .other n => "other:" ++ n

def decStyleP (f : String) : Style :=
  if f == "google" then .google else if f == "freeform" then .freeform else .auto

def opsParser : List String → Option String
  | ["is_balanced", ls] => some (encBool (Lexer.isBalanced (decStrList ls)))
  | ["lex_end", ls] =>
    some (match (Lexer.lex (decStrList ls)).2 with
      | .ok => "ok" | .eofString => "eofstring" | .eofStatement => "eofstatement" | .badDedent => "baddedent")
  | ["extract_comments", ls] =>
    some (match Lexer.extractComments (decStrList ls) with
      | none => "raise" | some cs => encStrList cs)
  | ["expandtabs", s] => some (encStr (expandTabs (decStr s)))
  | ["min_indent", s] => some (toString (minIndentation (decStr s)))
  | ["label", d] =>
    some (match labelLines (prepareLines (decStr d)) with
      | .error e => "error:" ++ e.name
      | .ok ls => "ok\t" ++ "|".intercalate (ls.map fun (l, t) => l.name ++ ":" ++ encStr t))
  | ["chunks", d] =>
    some (match chunksOf (decStr d) with
      | .error e => "error:" ++ e.name
      | .ok cs => "ok\t" ++ "\t".intercalate ((hackedSources cs).map fun h =>
          match h with | .ok s => "H" ++ encStr s | .error e => "E" ++ e.name))
  | ["group", d] =>
    some (match chunksOf (decStr d) with
      | .error e => "error:" ++ e.name
      | .ok cs => "ok\t" ++ "\t".intercalate (cs.map encChunk))
  | "docexamples" :: style :: name :: d :: g :: table =>
    let tbl := decFactsTable table
    let env : Env := { parseDoc := parseDocOf (fun t => (tbl.lookup t).getD []), googleBlocks := fun _ => decGoogle g }
    let r := docExamples env (decStyleP style) (decStr name) (decStr d)
    some ("ex=" ++ encNatList (r.examples.map fun e => e.parts.length) ++ " warned=" ++ encBool r.warned ++
          " escaped=" ++ (match r.escaped with | none => "none" | some e => encExc e) ++
          " end=" ++ (match (genOf env (decStyleP style) (decStr name) (decStr d)).2 with | none => "none" | some e => encExc e))
  | "parse" :: d :: facts =>
    some (match parse (decStr d) (facts.map decFacts) with
      | .error (fp, e) => "error:" ++ failPointName fp ++ ":" ++ e.name
      | .ok ps => "ok\t" ++ "\t".intercalate (ps.map encPiece))
  | ["has_semicolon", ls] => some (encBool (Lexer.hasSemicolon (decStrList ls)))
  | _ => none

end Xdoc.Driver

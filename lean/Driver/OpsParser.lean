import Driver.Codec
/-! Protocol ops of the `Parser` cluster: decode, call the model, print. -/
namespace Xdoc.Driver
open Xdoc

def opsParser : List String → Option String
  | _ => none

end Xdoc.Driver

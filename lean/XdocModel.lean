import XdocModel.Py.Char
import XdocModel.Py.Str

import Driver.Ops
open Xdoc.Driver

def dispatch (fields : List String) : String :=
  match opsChecker fields with
  | some r => r
  | none => "bad-op"

partial def loop (h : IO.FS.Stream) (out : IO.FS.Stream) : IO Unit := do
  let line ← h.getLine
  if line.isEmpty then return ()
  let line := if line.back == '\n' then (line.dropEnd 1).toString else line
  out.putStrLn (dispatch (line.splitOn "\t"))
  loop h out

def main : IO Unit := do
  let stdin ← IO.getStdin
  let stdout ← IO.getStdout
  loop stdin stdout

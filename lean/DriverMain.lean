import Driver.Ops
import Driver.OpsDirective
import Driver.OpsExample
import Driver.OpsParser
import Driver.OpsImport
import Driver.OpsStatic
import Driver.OpsRunner
import Driver.OpsFormat
import Driver.OpsStdlib
import Driver.OpsLines
import Driver.OpsIsolation
import Driver.OpsCapture
open Xdoc.Driver

def opTables : List (List String → Option String) :=
  [opsChecker, opsDirective, opsExample, opsParser, opsImport, opsStatic, opsRunner, opsFormat,
   opsStdlib, opsLines, opsIsolation, opsCapture]

def dispatch (fields : List String) : String :=
  match opTables.findSome? (fun t => t fields) with
  | some r => r
  | none => "bad-op"

partial def loop (h : IO.FS.Stream) (out : IO.FS.Stream) : IO Unit := do
  let line ← h.getLine
  if line.isEmpty then return ()
  let line := if line.back == '\n' then (line.dropEnd 1).toString else line
  out.putStrLn (dispatch (line.splitOn "\t"))
  loop h out

def main : IO Unit := do
  let stdin ← IO.getStdin
  let stdout ← IO.getStdout
  loop stdin stdout

#!/bin/sh
# Build the Lean model, the proofs and the native driver from files on disk only (offline).
set -e
cd "$(dirname "$0")"
exec ./check --setup

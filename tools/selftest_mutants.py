#!/venv/bin/python
"""
Self-validation (DESIGN.md section 7), not part of any registered check's verdict.

    tools/selftest_mutants.py [--tier quick] [--seeds 0,1,2] [--jobs N] [Cxx | mutant-name ...]

mutants/mutants.json lists textual one-site (or multi-site) substitutions in src/xdoctest/**; each is
applied to a scratch copy of /repo's `src` (never to /repo), the quick check of the targeted
property is run with XDOC_VERIF_REPO=<copy> IN A SCRATCH COPY OF /verif (so that several run in
parallel and /verif's Generated.lean is left alone), and the result is expected to be exit 1 with a
VIOLATION line.  With --clean the checks are run on the unchanged tree for several seeds and must
all exit 0.
"""
import json
import os
import shutil
import subprocess
import sys
import tempfile
from concurrent.futures import ThreadPoolExecutor

HERE = os.path.dirname(os.path.dirname(os.path.abspath(__file__)))


def verif_copy():
    d = tempfile.mkdtemp(prefix='xdocverifcopy-')
    dst = os.path.join(d, 'verif')
    shutil.copytree(HERE, dst, symlinks=True, ignore=shutil.ignore_patterns('.git', 'replays', '__pycache__', 'seeded'))
    return d, dst


def apply(srcroot, m):
    for e in m['edits']:
        p = os.path.join(srcroot, 'xdoctest', e['file'])
        s = open(p, encoding='utf8').read()
        if e['old'] not in s:
            return 'pattern not found in %s: %r' % (e['file'], e['old'][:60])
        s = s.replace(e['old'], e['new'], e.get('count', 1))
        open(p, 'w', encoding='utf8').write(s)
    return None


def run_mutant(m, tier):
    d, vc = verif_copy()
    out = ''
    try:
        src = os.path.join(d, 'mut', 'src')
        shutil.copytree('/repo/src', src)
        err = apply(src, m)
        if err:
            return m, None, err
        res = {}
        for pid in m['property'] if isinstance(m['property'], list) else [m['property']]:
            env = dict(os.environ, XDOC_VERIF_REPO=os.path.join(d, 'mut'))
            p = subprocess.run([os.path.join(vc, 'check'), pid, '--tier', tier], cwd=vc, env=env,
                               stdout=subprocess.PIPE, stderr=subprocess.STDOUT, timeout=7200)
            out = p.stdout.decode('utf8', 'replace')
            vio = [l for l in out.splitlines() if l.startswith('VIOLATION')]
            res[pid] = (p.returncode, vio[:1])
        return m, res, None
    except Exception as ex:
        return m, None, repr(ex) + out[-300:]
    finally:
        shutil.rmtree(d, ignore_errors=True)


def run_clean(pid, seed, tier):
    d, vc = verif_copy()
    try:
        env = dict(os.environ, VERIF_SEED=str(seed))
        p = subprocess.run([os.path.join(vc, 'check'), pid, '--tier', tier], cwd=vc, env=env,
                           stdout=subprocess.PIPE, stderr=subprocess.STDOUT, timeout=7200)
        out = p.stdout.decode('utf8', 'replace')
        return pid, seed, p.returncode, [l for l in out.splitlines() if l.startswith('VIOLATION')], out[-300:]
    finally:
        shutil.rmtree(d, ignore_errors=True)


def main(argv):
    tier = 'quick'
    jobs = 4
    seeds = [0, 1, 2]
    args = []
    it = iter(argv[1:])
    clean = False
    for a in it:
        if a == '--tier':
            tier = next(it)
        elif a == '--jobs':
            jobs = int(next(it))
        elif a == '--seeds':
            seeds = [int(x) for x in next(it).split(',')]
        elif a == '--clean':
            clean = True
        else:
            args.append(a)
    allm = json.load(open(os.path.join(HERE, 'mutants', 'mutants.json')))['mutants']
    if clean:
        props = args or sorted(f[:-3] for f in os.listdir(os.path.join(HERE, 'harness', 'props')) if f[0] == 'C' and f.endswith('.py'))
        bad = 0
        with ThreadPoolExecutor(jobs) as ex:
            for pid, seed, rc, vio, tail in ex.map(lambda t: run_clean(t[0], t[1], tier), [(p, s) for p in props for s in seeds]):
                print('%s seed=%d rc=%d %s' % (pid, seed, rc, vio[:1] or ''), flush=True)
                if rc != 0:
                    bad += 1
                    print(tail)
        return 1 if bad else 0
    sel = [m for m in allm if not args or m['name'] in args or
           any(p in args for p in (m['property'] if isinstance(m['property'], list) else [m['property']]))]
    missed = 0
    with ThreadPoolExecutor(jobs) as ex:
        for m, res, err in ex.map(lambda m: run_mutant(m, tier), sel):
            if err:
                print('%-40s ERROR %s' % (m['name'], err), flush=True)
                missed += 1
                continue
            ok = all(rc == 1 and vio for rc, vio in res.values())
            if not ok:
                missed += 1
            print('%-40s %s %s' % (m['name'], 'caught' if ok else 'MISSED',
                                   '; '.join('%s rc=%d %s' % (p, rc, (vio or ['-'])[0][:100]) for p, (rc, vio) in res.items())), flush=True)
    print('%d mutants, %d missed' % (len(sel), missed))
    return 1 if missed else 0


if __name__ == '__main__':
    sys.exit(main(sys.argv))

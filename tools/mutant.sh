#!/bin/sh
# usage: tools/mutant.sh <Cxx> <file-under-src/xdoctest> <python-regex-old> <new-text>
# copies /repo/src to a scratch dir, applies one textual substitution, runs the quick check against the copy
pid="$1"; file="$2"; old="$3"; new="$4"
d=$(mktemp -d /tmp/xdocmut.XXXXXX)
cp -r /repo/src "$d/src"
python3 - "$d/src/xdoctest/$file" "$old" "$new" <<'PY'
import sys
p, old, new = sys.argv[1:4]
s = open(p).read()
if old not in s:
    print('MUTANT PATTERN NOT FOUND'); sys.exit(3)
s = s.replace(old, new, 1)
open(p, 'w').write(s)
PY
rc=$?
if [ $rc -ne 0 ]; then rm -rf "$d"; exit $rc; fi
XDOC_VERIF_REPO="$d" ./check "$pid" | grep -E "^VIOLATION|^==|correspondence:|KNOWN" | tail -6
rm -rf "$d"

#!/bin/sh
# usage: tools/impl_coverage.sh Cxx [file-glob ...]   -- which lines of /repo/src/xdoctest does the quick check of Cxx execute?
# (a development aid for finding generator gaps; not part of any verdict). Runs single-process.
pid="$1"; shift
d=$(mktemp -d /tmp/xdoccov.XXXXXX)
cat > "$d/covrc" <<RC
[run]
branch = True
source = /repo/src/xdoctest
data_file = $d/.coverage
RC
cd "$(dirname "$0")/.." && XDOC_VERIF_JOBS=1 /venv/bin/python -m coverage run --rcfile="$d/covrc" ./check "$pid" --tier quick | tail -2
inc="${*:-*/xdoctest/*.py}"
/venv/bin/python -m coverage report --rcfile="$d/covrc" -m --include="$inc" | cut -c1-400
rm -rf "$d"

"""Translator plug-in of the collection cluster (C07 / C08 / C16): google tag groups, example tags,
freeform skip tags (semantic tables, USED by the Lean model) and the source texts of the patterns the
hand-written matchers of Google.lean / Static.lean were derived from (PINNED in Pins/Collect.lean; the texts of
_find_docstr_startpos_workaround in Pins/DocstrWorkaround.lean, an obligation of C08 only while that function is reachable)."""
import os


def extract(api):
    S, emit, lean_str, failures = api['S'], api['emit'], api['lean_str'], api['failures']
    google = S(os.path.join('docstr', 'docscrape_google.py'))
    core = S('core.py')
    static = S('static_analysis.py')
    dyn = S('dynamic_analysis.py')

    groups = api['literal'](google.assigned('split_google_docblocks', 'tag_groups'))
    ok = (isinstance(groups, list) and groups and
          all(isinstance(g, list) and g and all(isinstance(t, str) for t in g) for g in groups))
    if not ok:
        failures.append('googleTagGroups')
        groups = []
    emit('/-- docscrape_google.split_google_docblocks.tag_groups (aliases grouped, canonical name first) -/')
    emit('def googleTagGroups : List (List String) := [%s]' % ', '.join(
        '[%s]' % ', '.join(lean_str(t) for t in g) for g in groups))
    emit('')
    api['text_const']('src_google_tag_pattern', google.assigned('split_google_docblocks', 'tag_pattern'),
                      'docscrape_google.split_google_docblocks.tag_pattern')
    api['text_const']('src_google_tag_aliases', google.assigned('split_google_docblocks', 'tag_aliases'),
                      'docscrape_google.split_google_docblocks.tag_aliases')

    tags = api['literal'](core.assigned('parse_google_docstr_examples', 'example_tags'))
    api['str_list']('googleExampleTags', list(tags) if isinstance(tags, (tuple, list)) else None,
                    'core.parse_google_docstr_examples.example_tags')
    skips = api['literal'](core.assigned('parse_freeform_docstr_examples', 'special_skip_patterns'))
    # the LAST assignment is the `else: []` branch; take the first non-empty list assigned
    if not skips:
        import ast
        node = core.find_scope('parse_freeform_docstr_examples')
        skips = None
        for child in ast.walk(node) if node is not None else []:
            if isinstance(child, ast.Assign) and len(child.targets) == 1 and \
                    isinstance(child.targets[0], ast.Name) and child.targets[0].id == 'special_skip_patterns':
                v = api['literal'](child.value)
                if v:
                    skips = v
                    break
    api['str_list']('freeformSkipPatterns', skips, 'core.parse_freeform_docstr_examples.special_skip_patterns')

    # static_analysis: pattern texts
    api['text_const']('src_docstr_end_pattern', static.assigned('TopLevelVisitor._find_docstr_startpos_workaround', 'pattern'),
                      'pattern in TopLevelVisitor._find_docstr_startpos_workaround')
    api['text_const']('src_docstr_trips', static.assigned('TopLevelVisitor._find_docstr_startpos_workaround', 'trips'),
                      'trips in TopLevelVisitor._find_docstr_startpos_workaround')
    api['text_const']('src_docstr_cand_start', static.assigned('TopLevelVisitor._find_docstr_startpos_workaround', 'cand_start_'),
                      'cand_start_ in TopLevelVisitor._find_docstr_startpos_workaround')
    api['text_const']('src_docstr_startswith',
                      static.call_arg('TopLevelVisitor._find_docstr_startpos_workaround', 'startline.strip().lower().startswith', 0),
                      'prefixes accepted on the start line in _find_docstr_startpos_workaround')
    api['text_const']('src_valid_exts', static.assigned('package_modpaths', 'valid_exts'),
                      'valid_exts in static_analysis.package_modpaths (last assignment)')
    api['text_const']('src_valid_func_types', dyn.assigned('iter_module_doctestables', 'valid_func_types'),
                      'valid_func_types in dynamic_analysis.iter_module_doctestables')

    # does _docnode_line_workaround take the start line from the node itself when end_lineno exists?
    import ast as _ast
    node = static.find_scope('TopLevelVisitor._docnode_line_workaround')
    uses_node = False
    found_branch = False
    for child in _ast.walk(node) if node is not None else []:
        if isinstance(child, _ast.If) and _ast.unparse(child.test) == "hasattr(docnode, 'end_lineno')":
            found_branch = True
            first = child.body[0] if child.body else None
            if isinstance(first, _ast.Return) and _ast.unparse(first) == 'return (docnode.lineno, docnode.end_lineno)':
                uses_node = True
            elif not (isinstance(first, _ast.Assign) and _ast.unparse(first) == 'endpos = docnode.end_lineno - 1'):
                failures.append('docstartUsesNodeLineno')
    if not found_branch:
        failures.append('docstartUsesNodeLineno')
    emit('/-- static_analysis.TopLevelVisitor._docnode_line_workaround: on interpreters whose docstring node has `end_lineno`,')
    emit('    is `(docnode.lineno, docnode.end_lineno)` returned directly (true) or is the start recovered by')
    emit('    `_find_docstr_startpos_workaround` from the end line and the newline count of the value (false) -/')
    emit('def docstartUsesNodeLineno : Bool := %s' % ('true' if uses_node else 'false'))
    emit('')

"""Translator plug-in of the runner cluster (C10, C15): force-disable patterns of
``DocTest.is_disabled``, the zero-arg command names, the tally / exit-status expressions.

Semantic tables (USED by lean/XdocModel/Runner.lean): ``disableKeywords``,
``disableKeywordsPytest``, ``zeroAllCommands``.  Source texts (PINNED by Pins/Runner.lean): the raw
pattern lists, the way they are joined and matched, the three tally sums, the exit-status test.
"""
import ast

PREFIX = r'>>>\s*#\s*'


def _aug_assigned(src, scope, name):
    """value of the LAST ``name += <expr>`` inside the scope"""
    node = src.find_scope(scope)
    found = None
    if node is None:
        return None
    for child in ast.walk(node):
        if isinstance(child, ast.AugAssign) and isinstance(child.op, ast.Add) \
                and isinstance(child.target, ast.Name) and child.target.id == name:
            found = child.value
    return found


def _keywords(api, name, patterns):
    """strip the common prefix; a pattern of another shape is an extraction failure.  A keyword may
    only contain characters the hand-written matcher understands: literals and `.`"""
    out = []
    ok = isinstance(patterns, (list, tuple)) and all(isinstance(p, str) for p in patterns)
    if ok:
        for p in patterns:
            kw = p[len(PREFIX):]
            if not p.startswith(PREFIX) or not kw or any(c in '\\[](){}*+?|^$' for c in kw) \
                    or not (kw[0].isalnum() or kw[0] == '_'):
                ok = False
                break
            out.append(kw)
    if not ok:
        api['failures'].append(name)
        out = []
    return out


def _main_exit_test(src):
    """the test of the ``if`` that follows ``n_failed = run_summary.get(...)`` in ``main`` and the
    two returned constants"""
    node = src.find_scope('main')
    if node is None:
        return None, None
    body = node.body
    for i, st in enumerate(body):
        if isinstance(st, ast.Assign) and len(st.targets) == 1 and isinstance(st.targets[0], ast.Name) \
                and st.targets[0].id == 'n_failed' and i + 1 < len(body) and isinstance(body[i + 1], ast.If):
            iff = body[i + 1]
            return iff.test, iff
    return None, None


def extract(api):
    S = api['S']
    example = S('doctest_example.py')
    runner = S('runner.py')
    main = S('__main__.py')
    plugin = S('plugin.py')
    lit = api['literal']

    base = example.assigned('DocTest.is_disabled', 'disable_patterns')
    extra = _aug_assigned(example, 'DocTest.is_disabled', 'disable_patterns')
    base_v = lit(base)
    extra_v = lit(extra)
    api['str_list']('disablePatterns', base_v, "doctest_example.DocTest.is_disabled: disable_patterns")
    api['str_list']('disablePatternsPytest', extra_v,
                    "doctest_example.DocTest.is_disabled: patterns added when pytest=True")
    api['str_list']('disableKeywords', _keywords(api, 'disableKeywords', base_v),
                    r"is_disabled: the keyword after the common prefix '>>>\s*#\s*' of each pattern")
    api['str_list']('disableKeywordsPytest', _keywords(api, 'disableKeywordsPytest', extra_v),
                    r"is_disabled (pytest=True): the keyword after '>>>\s*#\s*' of each extra pattern")
    api['text_const']('src_disable_join', example.assigned('DocTest.is_disabled', 'pattern'),
                      'is_disabled: how the patterns are combined')
    api['text_const']('src_disable_match', example.assigned('DocTest.is_disabled', 'm'),
                      'is_disabled: the match call')

    # runner._run_examples : tallies
    for nm in ('n_total', 'n_passed', 'n_failed', 'n_skipped'):
        api['text_const']('src_run_examples_' + nm, runner.assigned('_run_examples', nm),
                          'runner._run_examples: ' + nm)
    # the on_error actually used is the LAST assignment
    api['text_const']('src_run_examples_on_error', runner.assigned('_run_examples', 'on_error'),
                      'runner._run_examples: on_error (last assignment)')
    api['text_const']('src_gather_all', runner.assigned('doctest_module', 'gather_all'),
                      'runner.doctest_module: gather_all')
    # zero-arg command names: the list literal in `elif command in [...]`
    zero = None
    node = runner.find_scope('doctest_module')
    if node is not None:
        for child in ast.walk(node):
            if isinstance(child, ast.Compare) and len(child.ops) == 1 and isinstance(child.ops[0], ast.In) \
                    and isinstance(child.left, ast.Name) and child.left.id == 'command' \
                    and isinstance(child.comparators[0], (ast.List, ast.Tuple)):
                zero = lit(child.comparators[0])
    api['str_list']('zeroAllCommands', zero, 'runner.doctest_module: commands that run every zero-arg function')

    # __main__.main : exit status
    api['text_const']('src_main_n_failed', main.assigned('main', 'n_failed'), '__main__.main: n_failed')
    test, iff = _main_exit_test(main)
    api['text_const']('src_main_exit_test', test, '__main__.main: test of the exit-status `if`')
    api['text_const']('src_main_exit_then', iff.body[0] if iff is not None and iff.body else None,
                      '__main__.main: statement when the test holds')
    api['text_const']('src_main_exit_else', iff.orelse[0] if iff is not None and iff.orelse else None,
                      '__main__.main: statement otherwise')

    # plugin.XDoctestItem.runtest : the three statements
    rt = plugin.find_scope('XDoctestItem.runtest')
    api['text_const']('src_plugin_runtest', rt if rt is None else ast.Module(body=rt.body, type_ignores=[]),
                      'plugin.XDoctestItem.runtest (body)')
    api['text_const']('src_anything_ran', _ret(example.find_scope('DocTest.anything_ran')),
                      'doctest_example.DocTest.anything_ran: returned expression')


def _ret(fn):
    if fn is None:
        return None
    for st in fn.body:
        if isinstance(st, ast.Return):
            return st.value
    return None

"""Translator plug-in of the exec cluster (C01 capture, C18 formatting, C19 dump): the source texts
the hand-written models lean/XdocModel/{Capture,Format,Dump}.lean were derived from."""
import ast
import os


def _body_without_docstring(fn):
    body = list(fn.body)
    if body and isinstance(body[0], ast.Expr) and isinstance(getattr(body[0], 'value', None), ast.Constant) \
            and isinstance(body[0].value.value, str):
        body = body[1:]
    return ast.Module(body=body, type_ignores=[])


def extract(api):
    S = api['S']
    text_const = api['text_const']
    stream = S(os.path.join('utils', 'util_stream.py'))
    util_str = S(os.path.join('utils', 'util_str.py'))
    part = S('doctest_part.py')
    runner = S('runner.py')
    example = S('doctest_example.py')

    def fn_body(name, src, qual, doc):
        node = src.find_scope(qual)
        text_const(name, _body_without_docstring(node) if node is not None else None, doc)

    # ---- CaptureStdout (Capture.lean)
    fn_body('src_cap_log_part', stream, 'CaptureStdout.log_part', 'body of CaptureStdout.log_part')
    fn_body('src_cap_start', stream, 'CaptureStdout.start', 'body of CaptureStdout.start')
    fn_body('src_cap_stop', stream, 'CaptureStdout.stop', 'body of CaptureStdout.stop')
    fn_body('src_cap_exit', stream, 'CaptureStdout.__exit__', 'body of CaptureStdout.__exit__')
    fn_body('src_tee_write', stream, 'TeeStringIO.write', 'body of TeeStringIO.write')
    # ---- formatting (Format.lean)
    fn_body('src_indent', util_str, 'indent', 'body of util_str.indent')
    text_const('src_add_line_numbers_fmt', util_str.assigned('add_line_numbers', 'src_fmt'),
               'src_fmt in util_str.add_line_numbers')
    text_const('src_format_part_want_fmt', part.assigned('DoctestPart.format_part', 'want_fmt'),
               'want_fmt in DoctestPart.format_part')
    text_const('src_format_part_start', part.assigned('DoctestPart.format_part', 'start'),
               'start in DoctestPart.format_part')
    text_const('src_format_part_endline', part.assigned('DoctestPart.format_part', 'endline'),
               'endline in DoctestPart.format_part')
    text_const('src_format_part_n_digits', part.call_arg('DoctestPart.format_part', 'math.log', 0),
               'argument of math.log in DoctestPart.format_part')
    text_const('src_format_parts_endline', example.assigned('DocTest.format_parts', 'endline'),
               'endline in DocTest.format_parts')
    text_const('src_format_parts_n_lines', example.assigned('DocTest.format_parts', 'n_lines'),
               'n_lines in DocTest.format_parts')
    text_const('src_format_src_join', example.assigned('DocTest.format_src', 'full_source'),
               'full_source in DocTest.format_src')
    # ---- dump (Dump.lean)
    text_const('src_dump_func_name', runner.assigned('_convert_to_test_module', 'func_name'),
               'func_name in runner._convert_to_test_module')
    text_const('src_dump_docstr_lines', runner.assigned('_convert_to_test_module', 'docstr_lines'),
               'docstr_lines in runner._convert_to_test_module')
    text_const('src_dump_func_text', runner.assigned('_convert_to_test_module', 'func_text'),
               'func_text in runner._convert_to_test_module')
    text_const('src_dump_module_text', runner.assigned('_convert_to_test_module', 'module_text'),
               'module_text in runner._convert_to_test_module')
    text_const('src_dump_body_part', runner.assigned('_convert_to_test_module', 'body_part'),
               'body_part in runner._convert_to_test_module')
    scope = runner.find_scope('_convert_to_test_module')
    star = None
    wants = []
    if scope is not None:
        for node in ast.walk(scope):
            if isinstance(node, ast.If) and isinstance(node.test, ast.Compare) and star is None \
                    and any(isinstance(op, ast.In) for op in node.test.ops):
                star = node
            if isinstance(node, ast.If) and ast.unparse(node.test) == 'part.want':
                wants.append(node)
    text_const('src_dump_star_filter', star, 'the star-import filter in runner._convert_to_test_module')
    text_const('src_dump_want_block', wants[0] if wants else None,
               'the `if part.want:` block in runner._convert_to_test_module')

"""
Translator plug-in of the isolation cluster (C11, C12): source texts the world model
(lean/XdocModel/World.lean) and the bracket model (lean/XdocModel/Bracket.lean) were derived from.
Each is emitted as ONE string (statements joined by newlines, comments and docstrings dropped by
`ast.unparse`) and pinned by lean/XdocModel/Pins/Isolation.lean.
"""
import ast
import os


def _body_text(fn, skip_doc=True):
    body = list(fn.body)
    if skip_doc and body and isinstance(body[0], ast.Expr) and isinstance(getattr(body[0], 'value', None), ast.Constant) \
            and isinstance(body[0].value.value, str):
        body = body[1:]
    return '\n'.join(ast.unparse(s) for s in body)


def _run_skeleton(fn):
    """top-level statements of DocTest.run; the `with` around the part loop is reduced to its header"""
    out = []
    body = list(fn.body)
    if body and isinstance(body[0], ast.Expr) and isinstance(getattr(body[0], 'value', None), ast.Constant):
        body = body[1:]
    for s in body:
        if isinstance(s, ast.With):
            out.append('with ' + ', '.join(ast.unparse(i) for i in s.items) + ': <part loop>')
        elif isinstance(s, ast.Try):
            out.append('try: ' + '; '.join(ast.unparse(x) for x in s.body) + ' except ' +
                       ', '.join(ast.unparse(h.type) if h.type is not None else '' for h in s.handlers) + ': ' +
                       '; '.join(ast.unparse(x) for h in s.handlers for x in h.body))
        else:
            out.append(ast.unparse(s))
    return '\n'.join(out)


def _skeleton(stmts, depth=0):
    """control skeleton of PythonPathContext.__exit__: tests, sys.path operations, raises; message
    building is dropped"""
    pad = '  ' * depth
    out = []
    for s in stmts:
        if isinstance(s, ast.If):
            out.append(pad + 'if ' + ast.unparse(s.test))
            out.extend(_skeleton(s.body, depth + 1))
            if s.orelse:
                out.append(pad + 'else')
                out.extend(_skeleton(s.orelse, depth + 1))
        elif isinstance(s, ast.Try):
            out.append(pad + 'try')
            out.extend(_skeleton(s.body, depth + 1))
            for h in s.handlers:
                out.append(pad + 'except ' + (ast.unparse(h.type) if h.type is not None else ''))
                out.extend(_skeleton(h.body, depth + 1))
            if s.orelse:
                out.append(pad + 'else')
                out.extend(_skeleton(s.orelse, depth + 1))
            if s.finalbody:
                out.append(pad + 'finally')
                out.extend(_skeleton(s.finalbody, depth + 1))
        elif isinstance(s, ast.With):
            out.append(pad + 'with ' + ', '.join(ast.unparse(i) for i in s.items))
            out.extend(pad + '  ' + ast.unparse(x) for x in s.body)
        elif isinstance(s, ast.Raise):
            exc = s.exc
            name = ast.unparse(exc.func) if isinstance(exc, ast.Call) else (ast.unparse(exc) if exc is not None else '')
            out.append(pad + 'raise ' + name)
        elif isinstance(s, ast.Return):
            out.append(pad + ast.unparse(s))
        else:
            txt = ast.unparse(s)
            if 'sys.path' in txt and 'msg_parts' not in txt.split('=')[0] and not txt.startswith('msg_parts'):
                out.append(pad + txt)
            elif txt.startswith('need_recover'):
                out.append(pad + txt)
            elif txt.startswith('warnings.warn'):
                out.append(pad + 'warnings.warn')
    return out


def extract(api):
    S = api['S']
    emit = api['emit']
    lean_str = api['lean_str']
    failures = api['failures']

    def text(name, value, doc):
        if value is None:
            failures.append(name)
            value = '<<EXTRACTION-FAILED: %s>>' % name
        emit('/-- source text of: %s -/' % doc)
        emit('def %s : String := %s' % (name, lean_str(value)))
        emit('')

    def fn(src, qual):
        node = src.find_scope(qual)
        return node if isinstance(node, (ast.FunctionDef, ast.AsyncFunctionDef)) else None

    example = S('doctest_example.py')
    directive = S('directive.py')
    stream = S(os.path.join('utils', 'util_stream.py'))
    imp = S(os.path.join('utils', 'util_import.py'))

    f = fn(example, 'DocTest.run')
    text('src_run_skeleton', _run_skeleton(f) if f else None,
         'DocTest.run: statements outside the part loop (reset block, run state, capture object, tail)')
    br = None
    if f is not None:
        br = []
        for node in ast.walk(f):
            if isinstance(node, ast.With):
                br.append((node.lineno, 'with ' + ', '.join(ast.unparse(i) for i in node.items)))
            elif isinstance(node, ast.Assign) and ast.unparse(node.targets[0]) == 'cap':
                br.append((node.lineno, ast.unparse(node)))
        br = '\n'.join(t for _, t in sorted(br))
    text('src_run_brackets', br, 'DocTest.run: the capture object and every `with` statement, in source order')
    f = fn(example, 'DocTest._test_globals')
    text('src_test_globals', _body_text(f) if f else None, 'DocTest._test_globals')
    f = fn(directive, 'RuntimeState.__init__')
    text('src_runtime_state_init', _body_text(f) if f else None, 'directive.RuntimeState.__init__')
    for meth in ('start', 'stop', '__enter__', '__exit__'):
        f = fn(stream, 'CaptureStdout.' + meth)
        text('src_capture_' + meth.strip('_'), _body_text(f) if f else None, 'util_stream.CaptureStdout.' + meth)
    f = fn(stream, 'CaptureStdout.__init__')
    orig = None
    if f is not None:
        for s in ast.walk(f):
            if isinstance(s, ast.Assign) and ast.unparse(s.targets[0]) == 'self.orig_stdout':
                orig = ast.unparse(s)
    text('src_capture_orig', orig, 'util_stream.CaptureStdout.__init__: where orig_stdout is read')
    f = fn(imp, 'PythonPathContext.__enter__')
    text('src_ppc_enter', _body_text(f) if f else None, 'util_import.PythonPathContext.__enter__')
    f = fn(imp, 'PythonPathContext.__exit__')
    text('src_ppc_exit_skeleton', '\n'.join(_skeleton(f.body)) if f else None,
         'util_import.PythonPathContext.__exit__: control skeleton (tests, sys.path operations, raises)')
    f = fn(imp, '_custom_import_modpath')
    text('src_custom_import_modpath', '\n'.join(_skeleton(f.body)) if f else None,
         'util_import._custom_import_modpath: control skeleton')

"""Translator plug-in of the parser cluster (C13, C14): tables used by `CoreExamples.lean` and the
source texts the hand-written models of `parser.py` / `core.py` were derived from (pinned)."""
import ast


def _find(node, pred):
    for child in ast.walk(node):
        if pred(child):
            return child
    return None


def extract(api):
    S = api['S']
    parser = S('parser.py')
    core = S('core.py')
    # ---- semantic tables (used by the model)
    api['str_list']('c14ExampleTags', api['literal'](core.assigned('parse_google_docstr_examples', 'example_tags')),
                    'core.parse_google_docstr_examples.example_tags')
    ff = core.find_scope('parse_freeform_docstr_examples')
    first = None
    if ff is not None:
        cands = [n for n in ast.walk(ff) if isinstance(n, ast.Assign) and len(n.targets) == 1
                 and isinstance(n.targets[0], ast.Name) and n.targets[0].id == 'special_skip_patterns']
        cands.sort(key=lambda n: n.lineno)
        first = cands[0].value if cands else None
    api['str_list']('c14FreeformSkipPatterns', api['literal'](first),
                    'core.parse_freeform_docstr_examples.special_skip_patterns (the assignment under '
                    '`if respect_google_headers`, which is hard-wired to True)')
    # ---- source texts (pinned)
    parse = parser.find_scope('DoctestParser.parse')
    tr = _find(parse, lambda n: isinstance(n, ast.Try)) if parse is not None else None
    api['text_const']('src_parse_handler', tr.handlers[0].type if tr is not None and tr.handlers else None,
                      'exception class caught around the three phases of DoctestParser.parse')
    api['text_const']('src_parse_reraise',
                      _find(tr.handlers[0], lambda n: isinstance(n, ast.Raise)) if tr is not None and tr.handlers else None,
                      'what DoctestParser.parse raises instead')
    api['text_const']('src_parse_min_indent', parser.assigned('DoctestParser.parse', 'min_indent'),
                      'min_indent in DoctestParser.parse')
    comp = parser.find_scope('_complete_source')
    cmp_ = _find(comp, lambda n: isinstance(n, ast.Compare) and isinstance(n.ops[0], ast.NotIn)) if comp is not None else None
    api['text_const']('src_complete_prefix_test', cmp_, 'prefix test of parser._complete_source')
    hack = _find(comp, lambda n: isinstance(n, ast.Call) and ast.unparse(n.func) == 'any') if comp is not None else None
    api['text_const']('src_triple_quote_test', hack, 'triple-quote test of parser._complete_source')
    pde = core.find_scope('parse_docstr_examples')
    tr2 = _find(pde, lambda n: isinstance(n, ast.Try)) if pde is not None else None
    h2 = tr2.handlers[0] if tr2 is not None and tr2.handlers else None
    api['text_const']('src_core_handler', h2.type if h2 is not None else None,
                      'exception class caught by core.parse_docstr_examples')
    last_if = None
    if h2 is not None:
        for st in h2.body:
            if isinstance(st, ast.If) and 'MalformedDocstr' in ast.unparse(st.test):
                last_if = st
    api['text_const']('src_core_swallow', last_if,
                      'which exceptions core.parse_docstr_examples swallows after warning')
    auto = core.find_scope('parse_auto_docstr_examples')
    tr3 = _find(auto, lambda n: isinstance(n, ast.Try)) if auto is not None else None
    api['text_const']('src_auto_handler', tr3.handlers[0] if tr3 is not None and tr3.handlers else None,
                      'handler of the google attempt in core.parse_auto_docstr_examples')

"""Translator plug-in for C17: the decision skeleton of utils/util_import.py.

For each modelled function the tests of its `if`/`while` statements (and the candidate file list)
are emitted as source text, in source order. The hand-written model `XdocModel/Import.lean` was
derived from exactly these texts; they are pinned in `XdocModel/Pins/Import.lean`, so an edit of a
condition breaks a proof obligation (and sends the check into its failing-input search)."""
import ast
import os


def _tests(node, skip_nested=()):
    out = []

    def walk(n):
        for child in ast.iter_child_nodes(n):
            if isinstance(child, (ast.FunctionDef, ast.AsyncFunctionDef)) and child.name in skip_nested:
                continue
            if isinstance(child, (ast.If, ast.While)):
                out.append(('while ' if isinstance(child, ast.While) else 'if ') + ast.unparse(child.test))
            walk(child)
    walk(node)
    return out


def extract(api):
    src = api['S'](os.path.join('utils', 'util_import.py'))
    emit, lean_str, failures = api['emit'], api['lean_str'], api['failures']

    def skeleton(lean_name, scope, doc, skip=()):
        node = src.find_scope(scope)
        if node is None:
            failures.append(lean_name)
            txt = '<<EXTRACTION-FAILED: %s>>' % lean_name
        else:
            txt = ' ;; '.join(_tests(node, skip))
        emit('/-- if/while tests, in source order, of: %s -/' % doc)
        emit('def %s : String := %s' % (lean_name, lean_str(txt)))
        emit('')

    api['text_const']('src_import_candidate_fnames', src.assigned('_syspath_modname_to_modpath', 'candidate_fnames'),
                      'util_import._syspath_modname_to_modpath.candidate_fnames (before the extension suffixes are added)')
    api['text_const']('src_import_fname_we', src.assigned('_syspath_modname_to_modpath', '_fname_we'),
                      'util_import._syspath_modname_to_modpath._fname_we')
    skeleton('src_import_isvalid', '_syspath_modname_to_modpath._isvalid', 'util_import._syspath_modname_to_modpath._isvalid')
    skeleton('src_import_check_dpath', '_syspath_modname_to_modpath.check_dpath', 'util_import._syspath_modname_to_modpath.check_dpath')
    skeleton('src_import_normalize_modpath', 'normalize_modpath', 'util_import.normalize_modpath')
    skeleton('src_import_split_modpath', 'split_modpath', 'util_import.split_modpath')
    skeleton('src_import_modpath_to_modname', 'modpath_to_modname', 'util_import.modpath_to_modname')

#!/usr/bin/env python3
"""Developer tool (NOT run by the checks): writes lean/XdocModel/Pins/<Topic>.lean from the current
Generated.lean, one `rfl` obligation per pinned source text. Run by hand after the hand-written
matcher for a pattern has been (re)derived from the text, then commit the result.

usage: mk_pins.py Topic name1 name2 ...
"""
import os
import re
import sys

HERE = os.path.dirname(os.path.dirname(os.path.abspath(__file__)))
gen = open(os.path.join(HERE, 'lean', 'XdocModel', 'Generated.lean'), encoding='utf8').read()
topic = sys.argv[1]
names = sys.argv[2:]
out = ['import XdocModel.Generated',
       '/-! Pins: the source texts the hand-written matchers of topic `%s` were derived from.' % topic,
       '    An edited pattern in the xdoctest sources changes `Generated.lean` and breaks the `rfl`. -/',
       'namespace Xdoc.Pins.%s' % topic, '']
for n in names:
    m = re.search(r'^def %s : (String|List String|List \(String × Bool\)) := (.*)$' % re.escape(n), gen, re.M)
    if not m:
        raise SystemExit('not found: ' + n)
    out.append('theorem pin_%s : Generated.%s = %s := by decide' % (n, n, m.group(2)) if m.group(1) != 'String'
               else 'theorem pin_%s : Generated.%s = %s := rfl' % (n, n, m.group(2)))
    out.append('')
out.append('end Xdoc.Pins.%s' % topic)
p = os.path.join(HERE, 'lean', 'XdocModel', 'Pins', topic + '.lean')
os.makedirs(os.path.dirname(p), exist_ok=True)
open(p, 'w', encoding='utf8').write('\n'.join(out) + '\n')
print('wrote', p)

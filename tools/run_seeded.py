#!/venv/bin/python
"""
Run the registered checks against the seeded breaking changes kept under /verif/seeded/<id>/.

    tools/run_seeded.py [--in-repo] [--tier quick|thorough] [id ...]

default: a scratch copy of /repo's tracked files is made under $TMPDIR, the patch is applied there and
the check of the targeted property is run with XDOC_VERIF_REPO=<copy> (so /repo is never touched and
other work can go on).  --in-repo: `git -C /repo apply`, run, `git -C /repo checkout -- .` (the way
the brief describes; only when nothing else uses /repo).
For every seed: the demonstration must pass on the clean tree and fail on the changed one, and the
check must print a VIOLATION line whose replay fails on the changed tree.  Results go to
seeded/<id>/result.json and a summary table is printed.
"""
import json
import os
import shutil
import subprocess
import sys
import tempfile
import time

HERE = os.path.dirname(os.path.dirname(os.path.abspath(__file__)))
SEEDED = os.path.join(HERE, 'seeded')
PY = '/venv/bin/python'


def sh(cmd, env=None, cwd=None, timeout=3600):
    e = dict(os.environ)
    if env:
        e.update(env)
    p = subprocess.run(cmd, shell=isinstance(cmd, str), cwd=cwd, env=e, stdout=subprocess.PIPE,
                       stderr=subprocess.STDOUT, timeout=timeout)
    return p.returncode, p.stdout.decode('utf8', 'replace')


def run_demo(sd, tree):
    demo = os.path.join(sd, 'demo.py')
    if not os.path.exists(demo):
        return None, 'no demo.py'
    return sh([PY, demo], env={'PYTHONPATH': os.path.join(tree, 'src'), 'PYTHONDONTWRITEBYTECODE': '1'},
              cwd=tempfile.gettempdir(), timeout=600)


def run_one(sid, in_repo, tier):
    sd = os.path.join(SEEDED, sid)
    meta = json.load(open(os.path.join(sd, 'meta.json')))
    props = meta['property'] if isinstance(meta['property'], list) else [meta['property']]
    patch = os.path.join(sd, 'patch.diff')
    if os.path.exists(os.path.join(sd, 'patch.rebased.diff')):
        # the same change on the current tree (a later repair touched the same lines)
        patch = os.path.join(sd, 'patch.rebased.diff')
    res = {'id': sid, 'property': props, 'tier': tier, 'checks': {}}
    scratch = None
    try:
        rc0, out0 = run_demo(sd, '/repo')
        res['demo_clean_rc'] = rc0
        if in_repo:
            tree = '/repo'
            rc, out = sh(['git', '-C', '/repo', 'apply', patch])
            if rc:
                res['error'] = 'patch does not apply: ' + out[-300:]
                return res
        else:
            scratch = tempfile.mkdtemp(prefix='xdocseed-')
            tree = os.path.join(scratch, 'repo')
            rc, out = sh('git -C /repo worktree add --detach %s HEAD -q' % tree)
            if rc:
                res['error'] = 'worktree: ' + out[-300:]
                return res
            rc, out = sh(['git', '-C', tree, 'apply', patch])
            if rc:
                res['error'] = 'patch does not apply: ' + out[-300:]
                return res
        rc1, out1 = run_demo(sd, tree)
        res['demo_changed_rc'] = rc1
        res['demo_changed_tail'] = out1[-400:] if out1 else ''
        for pid in props:
            t0 = time.time()
            rc, out = sh([os.path.join(HERE, 'check'), pid, '--tier', tier], env={'XDOC_VERIF_REPO': tree}, cwd=HERE)
            vio = [l for l in out.splitlines() if l.startswith('VIOLATION')]
            res['checks'][pid] = {'rc': rc, 'violation_lines': vio, 'wall_s': round(time.time() - t0, 1),
                                  'tail': out[-600:]}
            # the replay must fail on the changed tree
            for l in vio[:1]:
                for tok in l.split():
                    if tok.startswith('replay='):
                        rp = tok[len('replay='):]
                        rrc, rout = sh([os.path.join(HERE, 'check'), '--replay', rp], env={'XDOC_VERIF_REPO': tree}, cwd=HERE)
                        res['checks'][pid]['replay_on_changed_rc'] = rrc
                        try:
                            res['checks'][pid]['replay_kind'] = json.load(open(os.path.join(HERE, rp) if not os.path.isabs(rp) else rp)).get('kind')
                        except Exception:
                            pass
    finally:
        if in_repo:
            sh(['git', '-C', '/repo', 'checkout', '--', '.'])
        if scratch:
            sh('git -C /repo worktree remove --force %s' % os.path.join(scratch, 'repo'))
            shutil.rmtree(scratch, ignore_errors=True)
        # regenerate Generated.lean for the real tree again
        sh([os.path.join(HERE, 'check'), '--setup'], cwd=HERE)
    res['caught'] = all(c['rc'] == 1 and c['violation_lines'] for c in res['checks'].values()) and bool(res['checks'])
    res['caught_by_any'] = any(c['rc'] == 1 and c['violation_lines'] for c in res['checks'].values())
    return res


def main(argv):
    in_repo = '--in-repo' in argv
    tier = 'quick'
    if '--tier' in argv:
        tier = argv[argv.index('--tier') + 1]
    ids = [a for a in argv[1:] if not a.startswith('--') and a not in ('quick', 'thorough')]
    if not ids:
        ids = sorted(d for d in os.listdir(SEEDED) if os.path.exists(os.path.join(SEEDED, d, 'meta.json')))
    rows = []
    for sid in ids:
        r = run_one(sid, in_repo, tier)
        with open(os.path.join(SEEDED, sid, 'result.json'), 'w') as f:
            json.dump(r, f, indent=1, sort_keys=True)
        rows.append(r)
        ck = '; '.join('%s rc=%s %s' % (p, c['rc'], (c['violation_lines'] or ['-'])[0][:90]) for p, c in r['checks'].items())
        print('%-28s demo clean=%s changed=%s | %s | %s' % (sid, r.get('demo_clean_rc'), r.get('demo_changed_rc'),
                                                          'CAUGHT' if r.get('caught') else ('partly' if r.get('caught_by_any') else 'MISSED'), r.get('error') or ck), flush=True)
    return 0


if __name__ == '__main__':
    sys.exit(main(sys.argv))

#!/venv/bin/python
"""
Confirm a breaking change proposed by a sub-agent and keep it under /verif/seeded/<id>/.

    tools/confirm_seed.py <dir-with patch.diff demo.py notes.md> <seed-id> <property> [--no-suite]

In a scratch git worktree of /repo (under $TMPDIR, removed afterwards):
  1. demo.py exits 0 on the unchanged tree;
  2. the patch applies; python compiles every changed file; demo.py exits non-zero with it;
  3. the repository's pinned test suite gives, with the patch, exactly the baseline's set of passing tests
     (/root/.vp/BASELINE.json stable_pass; the two always-failing entry-point tests may fail).
Only then seeded/<id>/{patch.diff,demo.py,notes.md,meta.json} are written.
"""
import json
import os
import shutil
import subprocess
import sys
import tempfile
import xml.etree.ElementTree as ET

HERE = os.path.dirname(os.path.dirname(os.path.abspath(__file__)))
PY = '/venv/bin/python'


def sh(cmd, cwd=None, env=None, timeout=3600):
    e = dict(os.environ)
    e.pop('PYTHONPATH', None)
    if env:
        e.update(env)
    p = subprocess.run(cmd, shell=isinstance(cmd, str), cwd=cwd, env=e, stdout=subprocess.PIPE, stderr=subprocess.STDOUT, timeout=timeout)
    return p.returncode, p.stdout.decode('utf8', 'replace')


def junit_pass(path):
    ok = set()
    bad = set()
    for tc in ET.parse(path).getroot().iter('testcase'):
        name = '%s::%s' % (tc.get('classname'), tc.get('name'))
        if any(ch.tag in ('failure', 'error') for ch in tc):
            bad.add(name)
        elif any(ch.tag == 'skipped' for ch in tc):
            pass
        else:
            ok.add(name)
    return ok, bad


def main(argv):
    src, sid, prop = argv[1], argv[2], argv[3]
    suite = '--no-suite' not in argv
    patch = os.path.join(src, 'patch.diff')
    demo = os.path.join(src, 'demo.py')
    scratch = tempfile.mkdtemp(prefix='xdocconfirm-')
    wt = os.path.join(scratch, 'repo')
    meta = {'property': prop, 'id': sid, 'ran': []}
    try:
        rc, out = sh('git -C /repo worktree add --detach %s HEAD -q' % wt)
        assert rc == 0, out
        env = {'PYTHONPATH': os.path.join(wt, 'src'), 'PYTHONDONTWRITEBYTECODE': '1'}
        rc0, out0 = sh([PY, demo], cwd=scratch, env=env, timeout=900)
        meta['ran'].append('demo.py on the unchanged tree: exit %d' % rc0)
        if rc0 != 0:
            print('REJECT: demo fails on the unchanged tree\n' + out0[-800:])
            return 1
        rc, out = sh(['git', '-C', wt, 'apply', os.path.abspath(patch)])
        if rc:
            print('REJECT: patch does not apply: ' + out)
            return 1
        rc, changed = sh(['git', '-C', wt, 'diff', '--name-only'])
        files = [f for f in changed.split() if f.endswith('.py')]
        meta['files'] = files
        if any(not f.startswith('src/xdoctest/') for f in files):
            print('REJECT: patch touches files outside src/xdoctest: %r' % files)
            return 1
        rc, out = sh([PY, '-m', 'py_compile'] + [os.path.join(wt, f) for f in files])
        if rc:
            print('REJECT: does not compile: ' + out)
            return 1
        rc1, out1 = sh([PY, demo], cwd=scratch, env=env, timeout=900)
        meta['ran'].append('demo.py with the patch: exit %d' % rc1)
        meta['demo_with_patch_tail'] = out1[-1500:]
        if rc1 == 0:
            print('REJECT: demo passes with the patch')
            return 1
        if suite:
            jx = os.path.join(scratch, 'junit.xml')
            cmd = [PY, '-m', 'pytest', '-ra', '-q', '-p', 'no:cacheprovider', '--timeout=900', '--continue-on-collection-errors', '--junitxml=' + jx]
            rc, out = sh(cmd, cwd=wt, env=env, timeout=3000)
            ok, bad = junit_pass(jx)
            base = set(json.load(open('/root/.vp/BASELINE.json'))['stable_pass'])
            # names in the baseline are module-qualified with dots: normalise both
            def norm(n):
                return n.replace('::', '.').replace('/', '.')
            okn = set(norm(n) for n in ok)
            missing = sorted(b for b in base if norm(b) not in okn)
            meta['ran'].append('pinned test suite with the patch: %d passed, %d failed/error; baseline tests no longer passing: %d' % (len(ok), len(bad), len(missing)))
            meta['suite_tail'] = out[-600:]
            if missing:
                print('REJECT: %d baseline tests no longer pass, e.g. %r' % (len(missing), missing[:5]))
                print(out[-1500:])
                return 1
        dst = os.path.join(HERE, 'seeded', sid)
        os.makedirs(dst, exist_ok=True)
        shutil.copy(patch, os.path.join(dst, 'patch.diff'))
        shutil.copy(demo, os.path.join(dst, 'demo.py'))
        notes = os.path.join(src, 'notes.md')
        if os.path.exists(notes):
            shutil.copy(notes, os.path.join(dst, 'notes.md'))
            txt = open(notes, encoding='utf8', errors='replace').read()
            meta['needs_to_manifest'] = 'see notes.md'
            meta['notes_head'] = txt[:1200]
        with open(os.path.join(dst, 'meta.json'), 'w') as f:
            json.dump(meta, f, indent=1)
        print('ACCEPT %s -> %s' % (sid, dst))
        for r in meta['ran']:
            print('   ' + r)
        return 0
    finally:
        sh('git -C /repo worktree remove --force %s' % wt)
        shutil.rmtree(scratch, ignore_errors=True)


if __name__ == '__main__':
    sys.exit(main(sys.argv))

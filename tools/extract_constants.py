#!/usr/bin/env python3
"""
Translator: reads the CURRENT xdoctest sources with ``ast`` (nothing is imported or
executed) and writes ``lean/XdocModel/Generated.lean``.

Two kinds of output:

* semantic tables (``ast.literal_eval``-able constants, e.g. the default runtime state,
  directive names, tag lists): these are *used* by the Lean model, so every theorem is
  re-checked against what the code says now;
* source texts of expressions the hand-written matchers were derived from (regular
  expressions, marker strings): emitted as Lean strings and *pinned* by
  ``XdocModel/Pins.lean`` (``Generated.x = "<text>"`` by ``decide``/``rfl``), so an edited
  pattern breaks a proof obligation instead of leaving a stale matcher in the model.

A constant that cannot be found in the expected syntactic place is an extraction
failure: it is emitted as the string ``"<<EXTRACTION-FAILED: ...>>"`` (or an empty table
with ``extractionFailures`` non-empty), which breaks the corresponding pin.

The non-ASCII part of the regex class ``\\w`` is taken from the running interpreter
(``unicodedata`` via ``str.isalnum``) because it is a property of CPython, not of xdoctest.

Usage: extract_constants.py <repo_root> <out_file>   (writes only if the text changed)
"""
import ast
import os
import sys

FAIL = '<<EXTRACTION-FAILED: {}>>'


def lean_str(s):
    out = ['"']
    for ch in s:
        o = ord(ch)
        if ch == '\\':
            out.append('\\\\')
        elif ch == '"':
            out.append('\\"')
        elif ch == '\n':
            out.append('\\n')
        elif ch == '\t':
            out.append('\\t')
        elif ch == '\r':
            out.append('\\r')
        elif o < 32 or o == 127 or o > 126:
            out.append('\\u{%x}' % o)
        else:
            out.append(ch)
    out.append('"')
    return ''.join(out)


class Source(object):
    def __init__(self, root, rel):
        self.rel = rel
        self.path = os.path.join(root, rel)
        try:
            with open(self.path, 'r', encoding='utf8') as f:
                self.text = f.read()
            self.tree = ast.parse(self.text)
        except Exception as ex:  # missing or unparsable file
            self.text = ''
            self.tree = ast.parse('')
            self.error = repr(ex)

    def find_scope(self, qualname):
        """body of a (nested) function/class given as 'A.b', or the module for ''"""
        node = self.tree
        if not qualname:
            return node
        for name in qualname.split('.'):
            for child in ast.walk(node):
                if isinstance(child, (ast.FunctionDef, ast.AsyncFunctionDef, ast.ClassDef)) \
                        and child.name == name and child is not node:
                    node = child
                    break
            else:
                return None
        return node

    def assigned(self, scope, name):
        """the value expression of the LAST simple assignment ``name = <expr>`` directly
        or indirectly inside the scope (not descending into nested defs of other names)"""
        node = self.find_scope(scope)
        if node is None:
            return None
        found = None
        for child in ast.walk(node):
            if isinstance(child, ast.Assign) and len(child.targets) == 1:
                t = child.targets[0]
                if isinstance(t, ast.Name) and t.id == name:
                    found = child.value
        return found

    def call_arg(self, scope, funcname, index=0, nth=0):
        """the index-th positional argument of the nth call to ``funcname`` (dotted text)
        inside the scope, in source order"""
        node = self.find_scope(scope)
        if node is None:
            return None
        calls = []
        for child in ast.walk(node):
            if isinstance(child, ast.Call):
                try:
                    fn = ast.unparse(child.func)
                except Exception:
                    continue
                if fn == funcname:
                    calls.append(child)
        calls.sort(key=lambda c: (c.lineno, c.col_offset))
        if nth < len(calls) and index < len(calls[nth].args):
            return calls[nth].args[index]
        return None


def src_of(node):
    """normalised source text of an expression"""
    if node is None:
        return None
    return ast.unparse(node)


def literal(node):
    if node is None:
        return None
    try:
        return ast.literal_eval(node)
    except Exception:
        # dict literal that contains ``set()`` calls and similar
        try:
            txt = ast.unparse(node)
            return eval(txt, {'__builtins__': {}}, {'set': set, 'frozenset': frozenset})
        except Exception:
            return None


def word_ranges():
    """maximal ranges of non-ASCII code points matching regex ``\\w`` (str pattern)"""
    ranges = []
    start = None
    prev = None
    for cp in range(0x80, 0x110000):
        if 0xD800 <= cp <= 0xDFFF:
            ok = False
        else:
            ch = chr(cp)
            ok = ch.isalnum() or ch == '_'
        if ok:
            if start is None:
                start = cp
            prev = cp
        else:
            if start is not None:
                ranges.append((start, prev))
                start = None
    if start is not None:
        ranges.append((start, prev))
    return ranges


def generate(root):
    S = lambda rel: Source(root, os.path.join('src', 'xdoctest', rel))
    checker = S('checker.py')
    directive = S('directive.py')
    util_str = S(os.path.join('utils', 'util_str.py'))
    parser = S('parser.py')
    static = S('static_analysis.py')
    google = S(os.path.join('docstr', 'docscrape_google.py'))
    core = S('core.py')
    example = S('doctest_example.py')
    runner = S('runner.py')
    part = S('doctest_part.py')
    constants = S('constants.py')

    failures = []
    lines = []
    emit = lines.append
    emit('/-! GENERATED by tools/extract_constants.py from the xdoctest sources. DO NOT EDIT. -/')
    emit('namespace Xdoc.Generated')
    emit('')

    def text_const(name, node, doc):
        txt = src_of(node)
        if txt is None:
            failures.append(name)
            txt = FAIL.format(name)
        emit('/-- source text of: %s -/' % doc)
        emit('def %s : String := %s' % (name, lean_str(txt)))
        emit('')

    def str_value(name, node, doc):
        val = literal(node)
        if not isinstance(val, str):
            failures.append(name)
            val = FAIL.format(name)
        emit('/-- value of: %s -/' % doc)
        emit('def %s : String := %s' % (name, lean_str(val)))
        emit('')

    def str_list(name, val, doc):
        if not (isinstance(val, (list, tuple)) and all(isinstance(v, str) for v in val)):
            failures.append(name)
            val = []
        emit('/-- value of: %s -/' % doc)
        emit('def %s : List String := [%s]' % (name, ', '.join(lean_str(v) for v in val)))
        emit('')

    # ---- checker.py
    text_const('src_unicode_literal_re', checker.assigned('', 'unicode_literal_re'),
               'checker.unicode_literal_re')
    text_const('src_bytes_literal_re', checker.assigned('', 'bytes_literal_re'),
               'checker.bytes_literal_re')
    text_const('src_TRAILING_WS', checker.assigned('', 'TRAILING_WS'), 'checker.TRAILING_WS')
    text_const('src_EXCEPTION_RE', checker.assigned('', '_EXCEPTION_RE'), 'checker._EXCEPTION_RE')
    str_value('blanklineMarker', checker.assigned('', 'BLANKLINE_MARKER'), 'checker.BLANKLINE_MARKER')
    str_value('ellipsisMarker', checker.assigned('', 'ELLIPSIS_MARKER'), 'checker.ELLIPSIS_MARKER')
    text_const('src_ellipsis_split', checker.call_arg('_ellipsis_match', 're.split', 0),
               'first argument of re.split in checker._ellipsis_match')
    text_const('src_blankline_pattern', checker.assigned('remove_blankline_marker', 'blankline_pattern'),
               'blankline_pattern in checker.remove_blankline_marker')
    text_const('src_pos_lb', checker.assigned('remove_blankline_marker', 'pos_lb'),
               'pos_lb in checker.remove_blankline_marker')
    text_const('src_ignore_ws_sub', checker.call_arg('normalize', 're.sub', 0, nth=3),
               'pattern of the IGNORE_WHITESPACE substitution in checker.normalize')
    text_const('src_remove_prefixes_repl', checker.call_arg('normalize.remove_prefixes', 're.sub', 1),
               'replacement text in checker.normalize.remove_prefixes')
    # ---- utils/util_str.py
    text_const('src_ansi_escape', util_str.assigned('strip_ansi', 'ansi_escape3'),
               'util_str.strip_ansi.ansi_escape3')

    # ---- directive.py
    drs = literal(directive.assigned('', 'DEFAULT_RUNTIME_STATE'))
    emit('/-- directive.DEFAULT_RUNTIME_STATE: boolean entries (name, default) in source order -/')
    if not isinstance(drs, dict):
        failures.append('defaultRuntimeState')
        drs = {}
    bools = [(k, v) for k, v in drs.items() if isinstance(v, bool)]
    others = [k for k, v in drs.items() if not isinstance(v, bool)]
    emit('def defaultRuntimeStateBools : List (String × Bool) := [%s]' % ', '.join(
        '(%s, %s)' % (lean_str(k), 'true' if v else 'false') for k, v in bools))
    emit('/-- directive.DEFAULT_RUNTIME_STATE: the non-boolean keys (REQUIRES: a set, empty by default) -/')
    emit('def defaultRuntimeStateSets : List String := [%s]' % ', '.join(
        lean_str(k) for k in others if isinstance(drs[k], (set, frozenset)) and not drs[k]))
    emit('')
    text_const('src_DIRECTIVE_PATTERNS', directive.assigned('', 'DIRECTIVE_PATTERNS'),
               'directive.DIRECTIVE_PATTERNS')
    text_const('src_DIRECTIVE_RE', directive.assigned('', 'DIRECTIVE_RE'), 'directive.DIRECTIVE_RE')
    text_const('src_COMMANDS', directive.assigned('', 'COMMANDS'), 'directive.COMMANDS')

    # ---- the class \w of the running interpreter (CPython, not xdoctest)
    wr = word_ranges()
    emit('/-- non-ASCII ranges of the regex class `\\w` of the interpreter that ran the translator -/')
    emit('def wordRanges : List (Nat × Nat) := [')
    row = []
    for i, (a, b) in enumerate(wr):
        row.append('(%d, %d)' % (a, b))
        if len(row) == 8 or i == len(wr) - 1:
            emit('  ' + ', '.join(row) + (',' if i != len(wr) - 1 else ''))
            row = []
    emit(']')
    emit('')

    EXTRA(emit, text_const, str_value, str_list, literal, failures, locals())

    # plug-ins: tools/extractors/<topic>.py with `def extract(api)`; each emits its own constants
    import importlib.util
    exdir = os.path.join(os.path.dirname(os.path.abspath(__file__)), 'extractors')
    api = {'emit': emit, 'text_const': text_const, 'str_value': str_value, 'str_list': str_list,
           'literal': literal, 'failures': failures, 'Source': Source, 'root': root, 'S': S,
           'lean_str': lean_str, 'src_of': src_of}
    for fn in sorted(os.listdir(exdir)) if os.path.isdir(exdir) else []:
        if fn.endswith('.py') and not fn.startswith('_'):
            spec = importlib.util.spec_from_file_location('xdoc_extractor_' + fn[:-3], os.path.join(exdir, fn))
            m = importlib.util.module_from_spec(spec)
            spec.loader.exec_module(m)
            emit('/-! from tools/extractors/%s -/' % fn)
            try:
                m.extract(api)
            except Exception as ex:
                failures.append('extractor %s raised %r' % (fn, ex))

    emit('/-- constants the translator could not find in the expected syntactic place -/')
    emit('def extractionFailures : List String := [%s]' % ', '.join(lean_str(f) for f in failures))
    emit('')
    emit('end Xdoc.Generated')
    return '\n'.join(lines) + '\n'


def EXTRA(emit, text_const, str_value, str_list, literal, failures, env):
    """constants of the later modules (parser, static analysis, google, runner, ...)"""
    parser = env['parser']
    static = env['static']
    google = env['google']
    core = env['core']
    example = env['example']
    runner = env['runner']
    part = env['part']
    directive = env['directive']
    # parser.py
    text_const('src_INDENT_RE', parser.assigned('', 'INDENT_RE'), 'parser.INDENT_RE')
    # doctest_example / runner tables are added as the corresponding models are built


def main(argv):
    root = argv[1] if len(argv) > 1 else os.environ.get('XDOC_VERIF_REPO', '/repo')
    out = argv[2] if len(argv) > 2 else os.path.join(
        os.path.dirname(os.path.dirname(os.path.abspath(__file__))),
        'lean', 'XdocModel', 'Generated.lean')
    text = generate(root)
    old = None
    if os.path.exists(out):
        with open(out, 'r', encoding='utf8') as f:
            old = f.read()
    if old != text:
        tmp = out + '.tmp%d' % os.getpid()
        with open(tmp, 'w', encoding='utf8') as f:
            f.write(text)
        os.replace(tmp, out)
        print('Generated.lean: updated')
    else:
        print('Generated.lean: unchanged')
    return 0


if __name__ == '__main__':
    sys.exit(main(sys.argv))

#!/venv/bin/python
"""Developer tool (NOT run by the checks): applies each C17 mutant to a copy of /repo/src and runs
`./check C17` against it; prints the verdict lines.  usage: tools/mutants_C17.py [name ...]"""
import os
import shutil
import subprocess
import sys
import tempfile

HERE = os.path.dirname(os.path.dirname(os.path.abspath(__file__)))
F = 'utils/util_import.py'
MUTANTS = {
    'isvalid-always-true': [("            if not exists(join(subdir, '__init__.py')):\n                return False\n",
                             "            if False:\n                return False\n")],
    'module-before-package': [("""        modpath = join(dpath, _fname_we)
        if exists(modpath):
            if isfile(join(modpath, '__init__.py')):
                if _isvalid(modpath, dpath):
                    return modpath

        # If that fails, check for file-based modules
        for fname in candidate_fnames:
            modpath = join(dpath, fname)
            if isfile(modpath):
                if _isvalid(modpath, dpath):
                    return modpath
""", """        for fname in candidate_fnames:
            modpath = join(dpath, fname)
            if isfile(modpath):
                if _isvalid(modpath, dpath):
                    return modpath
        modpath = join(dpath, _fname_we)
        if exists(modpath):
            if isfile(join(modpath, '__init__.py')):
                if _isvalid(modpath, dpath):
                    return modpath
""")],
    'split-stops-one-level-early': [("    while exists(join(dpath, '__init__.py')):\n        dpath, dname = split(dpath)",
                                     "    while exists(join(dpath, '__init__.py')) and exists(join(dirname(dpath), '__init__.py')):\n        dpath, dname = split(dpath)")],
    'init-not-stripped': [("    if hide_init:\n        if basename(modpath) == '__init__.py':", "    if hide_init:\n        if basename(modpath) == '__init__.pyX':")],
    'module-file-skips-chain-check': [("            if isfile(modpath):\n                if _isvalid(modpath, dpath):\n                    return modpath",
                                       "            if isfile(modpath):\n                if True:\n                    return modpath")],
    'trailing-separator-regression': [("        base = normpath(base)\n        while subdir and normpath(subdir) != base:", "        while subdir and subdir != base:")],
    'syspath-not-restored': [("        else:\n            sys.path.pop(self.index)", "        else:\n            pass")],
    'package-init-exists-not-isfile': [("            if isfile(join(modpath, '__init__.py')):", "            if exists(join(modpath, '__init__.py')):")],
    'intermediate-init-isfile': [("            if not exists(join(subdir, '__init__.py')):", "            if not isfile(join(subdir, '__init__.py')):")],
    'main-always-hidden': [("def modpath_to_modname(modpath, hide_init=True, hide_main=False, check=True,", "def modpath_to_modname(modpath, hide_init=True, hide_main=True, check=True,")],
    'first-entry-does-not-win': [("        modpath = check_dpath(dpath)\n        if modpath:\n            found_modpath = modpath\n            break\n",
                                  "        modpath = check_dpath(dpath)\n        if modpath:\n            found_modpath = modpath\n")],
    'import-wrong-index-leak': [("        sys.path.insert(self.index, self.dpath)", "        sys.path.insert(self.index, self.dpath)\n        sys.path.append(self.dpath)")],
}


def main(argv):
    names = argv[1:] or list(MUTANTS)
    for name in names:
        d = tempfile.mkdtemp(prefix='xdocmut-')
        try:
            shutil.copytree('/repo/src', os.path.join(d, 'src'))
            p = os.path.join(d, 'src', 'xdoctest', F)
            s = open(p).read()
            for old, new in MUTANTS[name]:
                if old not in s:
                    print('%-34s PATTERN NOT FOUND' % name)
                    break
                s = s.replace(old, new, 1)
            else:
                open(p, 'w').write(s)
                env = dict(os.environ, XDOC_VERIF_REPO=d)
                proc = subprocess.run([os.path.join(HERE, 'check'), 'C17'], cwd=HERE, env=env, stdout=subprocess.PIPE, stderr=subprocess.STDOUT)
                out = proc.stdout.decode('utf8', 'replace').split('\n')
                keep = [l for l in out if l.startswith(('VIOLATION', 'correspondence:', '== C17 done', 'KNOWN'))]
                print('%-34s exit=%d  %s' % (name, proc.returncode, ' | '.join(keep)), flush=True)
                for l in keep:
                    if l.startswith('VIOLATION') and 'no-failing-input-found' not in l:
                        rp = l.split('replay=')[1].split()[0]
                        r = subprocess.run([os.path.join(HERE, 'check'), '--replay', rp], cwd=HERE, env=env, stdout=subprocess.PIPE, stderr=subprocess.STDOUT)
                        print('    ' + '\n    '.join(r.stdout.decode('utf8', 'replace').strip().split('\n')[-3:]), flush=True)
                        break
        finally:
            shutil.rmtree(d, ignore_errors=True)
    subprocess.run([os.path.join(HERE, 'check'), 'C17'], cwd=HERE, stdout=subprocess.DEVNULL)   # restore Generated.lean for /repo


if __name__ == '__main__':
    main(sys.argv)

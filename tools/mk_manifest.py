#!/usr/bin/env python3
"""Writes MANIFEST.json from the per-property metadata in harness/props/*.py (MANIFEST dict)."""
import importlib
import json
import os
import sys

HERE = os.path.dirname(os.path.dirname(os.path.abspath(__file__)))
sys.path.insert(0, HERE)
sys.dont_write_bytecode = True

props = [json.loads(l) for l in open(os.path.join(HERE, 'properties.jsonl'))]
checks = []
na = []
served = []
for p in props:
    pid = p['id']
    path = os.path.join(HERE, 'harness', 'props', pid + '.py')
    meta = None
    if os.path.exists(path):
        mod = importlib.import_module('harness.props.' + pid)
        meta = getattr(mod, 'MANIFEST', None)
    if not meta:
        na.append({'property_id': pid, 'reason': 'check not built yet (work in progress, see DESIGN.md section 9)'})
        continue
    served.append(pid)
    try:
        from harness.props import _extra
        meta = dict(meta, text=meta['text'] + _extra.EXTRA_TEXT.get(pid, ''))
    except ImportError:
        pass
    checks.append({
        'property_id': pid,
        'quick_cmd': './check %s --tier quick' % pid,
        'thorough_cmd': './check %s --tier thorough' % pid,
        'evidence_file': 'evidence/%s.json' % pid,
        'replay_cmd_template': './check --replay {path}',
        'engine': 'lean4-model+correspondence',
        'level_claimed': {'category': 'proof', 'text': meta['text'], 'design_ref': meta.get('design_ref', 'DESIGN.md section 5, ' + pid)},
        'level_note': meta['note'],
        'technique': meta.get('technique', 'Lean 4 theorems about an executable model + differential correspondence model vs /repo'),
    })
m = {
    'version': 1,
    'setup_cmd': './setup.sh',
    'hooks': {
        'guard': 'XDOCTEST_VERIF',
        'enable': 'no hooks are needed: every observation point is reachable from outside; checks import /repo/src in-process (sys.path / PYTHONPATH), so they always run the current working tree',
        'baseline_off_cmd': 'cd /repo && /venv/bin/python -m pytest -ra -q -p no:cacheprovider --timeout=900 --continue-on-collection-errors',
        'source_commits': [],
        'add_only': True,
    },
    'engines': [{
        'name': 'lean4-model+correspondence', 'path': 'check', 'serves_properties': served,
        'kind_free_text': 'Lean 4 (4.33, core only) theorems about a hand-written executable model of xdoctest; the model is tied to /repo on every run by (1) a constants/regex-text translator feeding Generated.lean + Pins.lean and (2) a differential correspondence harness driving a native Lean driver and the real code with the same inputs',
    }],
    'checks': checks,
    'notes': 'see DESIGN.md; known_findings.json lists recorded findings and fixed defects',
    'not_applicable': na,
}
with open(os.path.join(HERE, 'MANIFEST.json'), 'w') as f:
    json.dump(m, f, indent=1)
print('MANIFEST.json: %d checks, %d not_applicable' % (len(checks), len(na)))

#!/venv/bin/python
"""
Systematic mutation campaign (development aid, DESIGN.md section 7; not part of any verdict).

    tools/ast_mutants.py <Cxx[,Cyy]> <file under src/xdoctest> [func1,func2,...|-] [--jobs N] [--max M] [--seed S]
                         [--list] [--only i,j,...] [--out results.jsonl]

Generates one-site AST mutants of the named functions (`Class.method` or `func`; `-` = whole file) of the
current /repo source: comparison/boolean/arithmetic operator swaps, negation removal, constant
perturbation, condition forcing, statement deletion, call-argument dropping, slice-bound shifts.  Each
mutant lives in a scratch copy of /repo/src; the quick check(s) run against it from a scratch copy of
/verif (so runs are independent and /verif is untouched).  Survivors (exit 0) are either equivalent
mutants, mutants outside the property, or gaps of the correspondence: they are listed for triage.
"""
import ast
import copy
import json
import os
import random
import shutil
import subprocess
import sys
import tempfile
from concurrent.futures import ThreadPoolExecutor

HERE = os.path.dirname(os.path.dirname(os.path.abspath(__file__)))

CMP = {ast.Eq: ast.NotEq, ast.NotEq: ast.Eq, ast.Lt: ast.LtE, ast.LtE: ast.Lt, ast.Gt: ast.GtE, ast.GtE: ast.Gt,
       ast.In: ast.NotIn, ast.NotIn: ast.In, ast.Is: ast.IsNot, ast.IsNot: ast.Is}
BIN = {ast.Add: ast.Sub, ast.Sub: ast.Add, ast.Mult: ast.Add, ast.FloorDiv: ast.Mult, ast.Mod: ast.FloorDiv}


def find_funcs(tree, names):
    out = []
    if names is None:
        return [tree]
    for n in names:
        parts = n.split('.')
        scope = tree
        node = None
        for p in parts:
            node = None
            for ch in ast.walk(scope) if scope is tree and len(parts) == 1 else scope.body:
                if isinstance(ch, (ast.FunctionDef, ast.AsyncFunctionDef, ast.ClassDef)) and ch.name == p:
                    node = ch
                    break
            if node is None:
                raise SystemExit('function %s not found' % n)
            scope = node
        out.append(node)
    return out


def is_docstring(parent, node):
    return (isinstance(parent, (ast.FunctionDef, ast.AsyncFunctionDef, ast.ClassDef, ast.Module)) and parent.body and
            isinstance(parent.body[0], ast.Expr) and parent.body[0] is node)


def sites(func):
    """yield (description, mutator) where mutator(node_copy_root, path) applies the change; implemented by
    numbering the nodes of the function in ast.walk order"""
    nodes = list(ast.walk(func))
    parents = {}
    for n in nodes:
        for ch in ast.iter_child_nodes(n):
            parents[id(ch)] = n
    res = []
    for i, n in enumerate(nodes):
        ln = getattr(n, 'lineno', None)
        par = parents.get(id(n))
        if isinstance(n, ast.Compare):
            for j, op in enumerate(n.ops):
                if type(op) in CMP:
                    res.append((i, 'cmp', j, ln, '%s -> %s' % (type(op).__name__, CMP[type(op)].__name__)))
        elif isinstance(n, ast.BoolOp):
            res.append((i, 'boolop', 0, ln, '%s -> %s' % (type(n.op).__name__, 'Or' if isinstance(n.op, ast.And) else 'And')))
            for j in range(len(n.values)):
                res.append((i, 'booldrop', j, ln, 'drop operand %d of %s' % (j, type(n.op).__name__)))
        elif isinstance(n, ast.UnaryOp) and isinstance(n.op, ast.Not):
            res.append((i, 'notdrop', 0, ln, 'remove not'))
        elif isinstance(n, ast.BinOp) and type(n.op) in BIN:
            res.append((i, 'binop', 0, ln, '%s -> %s' % (type(n.op).__name__, BIN[type(n.op)].__name__)))
        elif isinstance(n, ast.Constant):
            if par is not None and isinstance(par, ast.Expr):
                continue   # docstring / bare string
            if isinstance(n.value, bool):
                res.append((i, 'const', (not n.value), ln, '%r -> %r' % (n.value, not n.value)))
            elif isinstance(n.value, int):
                res.append((i, 'const', n.value + 1, ln, '%r -> %r' % (n.value, n.value + 1)))
                res.append((i, 'const', n.value - 1, ln, '%r -> %r' % (n.value, n.value - 1)))
            elif n.value is None:
                pass
        elif isinstance(n, (ast.If, ast.While)) or isinstance(n, ast.IfExp):
            res.append((i, 'condtrue', 0, ln, 'condition -> True'))
            res.append((i, 'condfalse', 0, ln, 'condition -> False'))
        elif isinstance(n, (ast.Break, ast.Continue)):
            res.append((i, 'topass', 0, ln, '%s -> pass' % type(n).__name__.lower()))
        elif isinstance(n, (ast.Assign, ast.AugAssign, ast.Expr, ast.Raise, ast.Delete)):
            if isinstance(n, ast.Expr) and isinstance(n.value, ast.Constant):
                continue
            res.append((i, 'topass', 0, ln, 'delete statement `%s`' % ast.unparse(n)[:60]))
        elif isinstance(n, ast.Return) and n.value is not None and not (isinstance(n.value, ast.Constant) and n.value.value is None):
            res.append((i, 'retnone', 0, ln, 'return None instead of `%s`' % ast.unparse(n.value)[:50]))
        elif isinstance(n, ast.Call) and len(n.args) >= 2:
            res.append((i, 'droparg', 0, ln, 'drop last positional argument of `%s`' % ast.unparse(n)[:60]))
        elif isinstance(n, ast.Call) and n.keywords:
            for j, kw in enumerate(n.keywords):
                if kw.arg:
                    res.append((i, 'dropkw', j, ln, 'drop keyword %s of `%s`' % (kw.arg, ast.unparse(n)[:50])))
        elif isinstance(n, ast.Slice):
            if n.lower is not None:
                res.append((i, 'slicelo', 0, ln, 'slice lower bound + 1'))
            if n.upper is not None:
                res.append((i, 'slicehi', 0, ln, 'slice upper bound dropped'))
    return res


def apply_site(func, site):
    i, kind, arg, ln, desc = site
    f2 = copy.deepcopy(func)
    nodes = list(ast.walk(f2))
    n = nodes[i]
    parents = {}
    for x in nodes:
        for fld, val in ast.iter_fields(x):
            if isinstance(val, list):
                for k, ch in enumerate(val):
                    if isinstance(ch, ast.AST):
                        parents[id(ch)] = (x, fld, k)
            elif isinstance(val, ast.AST):
                parents[id(val)] = (x, fld, None)

    def replace(node, new):
        p, fld, k = parents[id(node)]
        if k is None:
            setattr(p, fld, new)
        else:
            getattr(p, fld)[k] = new

    if kind == 'cmp':
        n.ops[arg] = CMP[type(n.ops[arg])]()
    elif kind == 'boolop':
        n.op = ast.Or() if isinstance(n.op, ast.And) else ast.And()
    elif kind == 'booldrop':
        vals = [v for j, v in enumerate(n.values) if j != arg]
        replace(n, vals[0] if len(vals) == 1 else ast.BoolOp(op=n.op, values=vals))
    elif kind == 'notdrop':
        replace(n, n.operand)
    elif kind == 'binop':
        n.op = BIN[type(n.op)]()
    elif kind == 'const':
        n.value = arg
    elif kind == 'condtrue':
        n.test = ast.Constant(value=True)
    elif kind == 'condfalse':
        n.test = ast.Constant(value=False)
    elif kind == 'topass':
        replace(n, ast.Pass())
    elif kind == 'retnone':
        n.value = ast.Constant(value=None)
    elif kind == 'droparg':
        n.args = n.args[:-1]
    elif kind == 'dropkw':
        n.keywords = [k for j, k in enumerate(n.keywords) if j != arg]
    elif kind == 'slicelo':
        n.lower = ast.BinOp(left=n.lower, op=ast.Add(), right=ast.Constant(value=1))
    elif kind == 'slicehi':
        n.upper = None
    ast.fix_missing_locations(f2)
    return f2


def splice(text, func, newfunc):
    lines = text.split('\n')
    start = min([func.lineno] + [d.lineno for d in getattr(func, 'decorator_list', [])]) - 1
    end = func.end_lineno
    indent = ' ' * func.col_offset
    new = [indent + l if l else l for l in ast.unparse(newfunc).split('\n')]
    return '\n'.join(lines[:start] + new + lines[end:])


SNAP = [None]


def snapshot():
    """one stable copy of the framework for the whole campaign (so that /verif may be edited meanwhile)"""
    d = tempfile.mkdtemp(prefix='xdocastsnap-')
    for attempt in range(5):
        try:
            shutil.copytree(HERE, os.path.join(d, 'verif'), symlinks=True,
                            ignore=shutil.ignore_patterns('.git', 'replays', '__pycache__', 'seeded'))
            break
        except shutil.Error:
            shutil.rmtree(os.path.join(d, 'verif'), ignore_errors=True)
            import time
            time.sleep(5)
    SNAP[0] = os.path.join(d, 'verif')
    return d


def run_one(job):
    idx, props, relfile, newtext, desc, tier = job
    d = tempfile.mkdtemp(prefix='xdocastmut-')
    try:
        vc = os.path.join(d, 'verif')
        shutil.copytree(SNAP[0], vc, symlinks=True)
        src = os.path.join(d, 'mut', 'src')
        shutil.copytree('/repo/src', src)
        with open(os.path.join(src, 'xdoctest', relfile), 'w', encoding='utf8') as f:
            f.write(newtext)
        # must still import
        env = dict(os.environ, XDOC_VERIF_REPO=os.path.join(d, 'mut'), PYTHONPATH=src)
        p = subprocess.run(['/venv/bin/python', '-c', 'import xdoctest, xdoctest.runner, xdoctest.plugin'], env=env,
                           stdout=subprocess.PIPE, stderr=subprocess.STDOUT, timeout=120)
        if p.returncode:
            return idx, desc, 'noimport', {}
        env.pop('PYTHONPATH')
        res = {}
        for pid in props:
            p = subprocess.run([os.path.join(vc, 'check'), pid, '--tier', tier], cwd=vc, env=env,
                               stdout=subprocess.PIPE, stderr=subprocess.STDOUT, timeout=3600)
            out = p.stdout.decode('utf8', 'replace')
            vio = [l for l in out.splitlines() if l.startswith('VIOLATION')]
            res[pid] = {'rc': p.returncode, 'violation': (vio or [''])[0][:160]}
        caught = any(r['rc'] == 1 for r in res.values())
        return idx, desc, 'caught' if caught else ('error' if any(r['rc'] not in (0, 1) for r in res.values()) else 'survived'), res
    except subprocess.TimeoutExpired:
        return idx, desc, 'timeout', {}
    except Exception as ex:
        return idx, desc, 'error', {'exception': repr(ex)[:300]}
    finally:
        shutil.rmtree(d, ignore_errors=True)


def main(argv):
    props = argv[1].split(',')
    relfile = argv[2]
    names = None
    rest = argv[3:]
    if rest and not rest[0].startswith('--'):
        names = None if rest[0] == '-' else rest[0].split(',')
        rest = rest[1:]
    jobs, mx, seed, tier, only, outp, lst = 6, None, 0, 'quick', None, None, False
    it = iter(rest)
    for a in it:
        if a == '--jobs':
            jobs = int(next(it))
        elif a == '--max':
            mx = int(next(it))
        elif a == '--seed':
            seed = int(next(it))
        elif a == '--only':
            only = set(int(x) for x in next(it).split(','))
        elif a == '--out':
            outp = next(it)
        elif a == '--list':
            lst = True
    path = os.path.join('/repo/src/xdoctest', relfile)
    text = open(path, encoding='utf8').read()
    tree = ast.parse(text)
    funcs = find_funcs(tree, names)
    if names is None:
        funcs = [n for n in tree.body if isinstance(n, (ast.FunctionDef, ast.AsyncFunctionDef, ast.ClassDef))]
    allm = []
    for fn in funcs:
        for s in sites(fn):
            allm.append((fn, s))
    idxs = list(range(len(allm)))
    if only is not None:
        idxs = [i for i in idxs if i in only]
    elif mx is not None and len(idxs) > mx:
        idxs = sorted(random.Random(seed).sample(idxs, mx))
    if lst:
        for i in idxs:
            fn, s = allm[i]
            print('%4d %s:%s L%s %s' % (i, relfile, fn.name, s[3], s[4]))
        return 0
    jobsl = []
    for i in idxs:
        fn, s = allm[i]
        try:
            newtext = splice(text, fn, apply_site(fn, s))
            ast.parse(newtext)
        except Exception as ex:
            continue
        if newtext == text:
            continue
        jobsl.append((i, props, relfile, newtext, '%s:%s L%s %s' % (relfile, fn.name, s[3], s[4]), tier))
    print('%d mutants of %s (%s)' % (len(jobsl), relfile, ','.join(f.name for f in funcs)), flush=True)
    tally = {}
    outf = open(outp, 'a') if outp else None
    snapdir = snapshot()
    try:
        with ThreadPoolExecutor(jobs) as ex:
            for idx, desc, verdict, res in ex.map(run_one, jobsl):
                tally[verdict] = tally.get(verdict, 0) + 1
                print('%4d %-9s %s' % (idx, verdict, desc), flush=True)
                if outf:
                    outf.write(json.dumps({'i': idx, 'desc': desc, 'verdict': verdict, 'res': res}) + '\n')
                    outf.flush()
    finally:
        shutil.rmtree(snapdir, ignore_errors=True)
    print('summary: ' + ', '.join('%s=%d' % kv for kv in sorted(tally.items())))
    return 0


if __name__ == '__main__':
    sys.exit(main(sys.argv))

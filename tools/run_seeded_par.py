#!/venv/bin/python
"""
Parallel variant of tools/run_seeded.py: every seeded change is checked in its OWN copy of /verif
(so that the regenerated Generated.lean / build directory of one changed tree never meets another)
and its own scratch worktree of /repo.

    tools/run_seeded_par.py [-j N] [--tier quick|thorough] [--all-props] [id ...]

For every seed: the demonstration must pass on the clean tree and fail on the changed one; the check of
the targeted property must print a VIOLATION line whose replay fails on the changed tree.  Results go
to seeded/<id>/result.json (of the real /verif).  Nothing is written to /repo's files; the scratch
copies are removed as soon as each seed is done.
"""
import concurrent.futures
import json
import os
import shutil
import subprocess
import sys
import tempfile
import time

HERE = os.path.dirname(os.path.dirname(os.path.abspath(__file__)))
SEEDED = os.path.join(HERE, 'seeded')
PY = '/venv/bin/python'


def sh(cmd, env=None, cwd=None, timeout=5400):
    e = dict(os.environ)
    if env:
        e.update(env)
    try:
        p = subprocess.run(cmd, shell=isinstance(cmd, str), cwd=cwd, env=e, stdout=subprocess.PIPE,
                           stderr=subprocess.STDOUT, timeout=timeout)
    except subprocess.TimeoutExpired as ex:
        return 124, (ex.stdout or b'').decode('utf8', 'replace') + '\nTIMEOUT'
    return p.returncode, p.stdout.decode('utf8', 'replace')


def run_demo(sd, tree):
    demo = os.path.join(sd, 'demo.py')
    if not os.path.exists(demo):
        return None, 'no demo.py'
    return sh([PY, demo], env={'PYTHONPATH': os.path.join(tree, 'src'), 'PYTHONDONTWRITEBYTECODE': '1'},
              cwd=tempfile.gettempdir(), timeout=900)


def run_one(sid, tier, props_override=None):
    sd = os.path.join(SEEDED, sid)
    meta = json.load(open(os.path.join(sd, 'meta.json')))
    props = meta['property'] if isinstance(meta['property'], list) else [meta['property']]
    if props_override:
        props = props_override
    patch = os.path.join(sd, 'patch.diff')
    if os.path.exists(os.path.join(sd, 'patch.rebased.diff')):
        patch = os.path.join(sd, 'patch.rebased.diff')
    res = {'id': sid, 'property': props, 'tier': tier, 'checks': {}}
    scratch = tempfile.mkdtemp(prefix='xdocseed-%s-' % sid)
    tree = os.path.join(scratch, 'repo')
    vcopy = os.path.join(scratch, 'verif')
    try:
        rc0, out0 = run_demo(sd, '/repo')
        res['demo_clean_rc'] = rc0
        rc, out = sh('git -C /repo worktree add --detach %s HEAD -q' % tree)
        if rc:
            res['error'] = 'worktree: ' + out[-300:]
            return res
        rc, out = sh(['git', '-C', tree, 'apply', patch])
        if rc:
            res['error'] = 'patch does not apply: ' + out[-300:]
            return res
        rc, out = sh(['rsync', '-a', '--exclude', '.git', '--exclude', 'replays', '--exclude', 'seeded',
                      '--exclude', '__pycache__', HERE + '/', vcopy + '/'])
        if rc:
            res['error'] = 'rsync: ' + out[-300:]
            return res
        rc1, out1 = run_demo(sd, tree)
        res['demo_changed_rc'] = rc1
        res['demo_changed_tail'] = out1[-400:] if out1 else ''
        chk = os.path.join(vcopy, 'check')
        for pid in props:
            t0 = time.time()
            rc, out = sh([chk, pid, '--tier', tier], env={'XDOC_VERIF_REPO': tree}, cwd=vcopy)
            vio = [l for l in out.splitlines() if l.startswith('VIOLATION')]
            res['checks'][pid] = {'rc': rc, 'violation_lines': vio, 'wall_s': round(time.time() - t0, 1),
                                  'tail': out[-1500:]}
            for l in vio[:1]:
                for tok in l.split():
                    if tok.startswith('replay='):
                        rp = tok[len('replay='):]
                        rpa = rp if os.path.isabs(rp) else os.path.join(vcopy, rp)
                        rrc, rout = sh([chk, '--replay', rpa], env={'XDOC_VERIF_REPO': tree}, cwd=vcopy)
                        res['checks'][pid]['replay_on_changed_rc'] = rrc
                        crc, cout = sh([chk, '--replay', rpa], cwd=vcopy)
                        res['checks'][pid]['replay_on_clean_rc'] = crc
                        try:
                            pl = json.load(open(rpa))
                            res['checks'][pid]['replay_kind'] = pl.get('kind')
                            f = pl.get('failing') or {}
                            res['checks'][pid]['replay_suite'] = f.get('suite')
                            res['checks'][pid]['replay_head'] = json.dumps(f, default=repr)[:600]
                        except Exception:
                            pass
    finally:
        sh('git -C /repo worktree remove --force %s' % tree)
        shutil.rmtree(scratch, ignore_errors=True)
    res['caught'] = all(c['rc'] == 1 and c['violation_lines'] for c in res['checks'].values()) and bool(res['checks'])
    res['caught_by_any'] = any(c['rc'] == 1 and c['violation_lines'] for c in res['checks'].values())
    return res


def main(argv):
    tier = 'quick'
    jobs = 6
    args = argv[1:]
    if '--tier' in args:
        i = args.index('--tier')
        tier = args[i + 1]
        del args[i:i + 2]
    if '-j' in args:
        i = args.index('-j')
        jobs = int(args[i + 1])
        del args[i:i + 2]
    outname = 'result.json'
    if '--out' in args:
        i = args.index('--out')
        outname = args[i + 1]
        del args[i:i + 2]
    ids = [a for a in args if not a.startswith('--')]
    if not ids:
        ids = sorted(d for d in os.listdir(SEEDED) if os.path.exists(os.path.join(SEEDED, d, 'meta.json')))
    with concurrent.futures.ThreadPoolExecutor(jobs) as ex:
        futs = {ex.submit(run_one, sid, tier): sid for sid in ids}
        for fu in concurrent.futures.as_completed(futs):
            sid = futs[fu]
            try:
                r = fu.result()
            except Exception as e:
                r = {'id': sid, 'error': repr(e), 'checks': {}}
            with open(os.path.join(SEEDED, sid, outname), 'w') as f:
                json.dump(r, f, indent=1, sort_keys=True)
            ck = '; '.join('%s rc=%s %s %s' % (p, c['rc'], c.get('replay_kind'), (c['violation_lines'] or ['-'])[0][:70])
                           for p, c in r['checks'].items())
            print('%-10s demo clean=%s changed=%s | %s | %s' % (
                sid, r.get('demo_clean_rc'), r.get('demo_changed_rc'),
                'CAUGHT' if r.get('caught') else ('partly' if r.get('caught_by_any') else 'MISSED'),
                r.get('error') or ck), flush=True)
    return 0


if __name__ == '__main__':
    sys.exit(main(sys.argv))

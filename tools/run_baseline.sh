#!/bin/sh
# runs the repository's pinned suite (guard off) and prints the summary line; expected: 2 failed, 298 passed
cd /repo && /venv/bin/python -m pytest -ra -q -p no:cacheprovider --timeout=900 --continue-on-collection-errors 2>&1 | tail -4

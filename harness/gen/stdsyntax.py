"""
Generator of doctests in the STANDARD library's syntax (C20).

A doctest is a list of example specs. Every executable example calls ``t(k)`` (k = index of the
example), which appends k to the TRACE list ``T`` and returns k. The want under each example is
produced by executing the example with REPL semantics (``compile(src, 'single')`` with the
interpreter's own display hook writing to the captured stdout) in ``repl_wants`` -- independent of
both doctest modules. Mutations of the want that the standard module is documented to accept
(``<BLANKLINE>``, ``...`` under ELLIPSIS, re-flowed whitespace under NORMALIZE_WHITESPACE, another
message under IGNORE_EXCEPTION_DETAIL, the three traceback header/stack spellings) are applied by
the example kind. Whether a text is kept is decided by the standard module itself
(``std_passes``), never by this file.
"""
import builtins
import contextlib
import io
import sys
import traceback

# kinds whose examples are a known source of difference (the trigger of a known finding)
TRIGGER = {'both': 'K-C20-a', 'bothsemi': 'K-C20-a', 'loopboth': 'K-C20-a',
           'marker': 'K-C20-b', 'marker2': 'K-C20-b',
           'underscore': 'K-C20-c',
           'selfsyntax': 'K-C20-i', 'selfindent': 'K-C20-i',
           'dir_in_tripstr_skip': 'K-C20-j',
           'dir_after_remark_skip': 'K-C20-l', 'dir_after_remark_detail': 'K-C20-l',
           'escaped': 'K-C20-d', 'true1': 'K-C20-e', 'ansi': 'K-C20-f', 'prefix': 'K-C20-g', 'cr': 'K-C20-h'}

# kinds that differ only when the user switched the named default off (kind -> (finding, option))
TRIGGER_WHEN_OFF = {'dir_second_comment': ('K-C20-l', 'ELLIPSIS')}

PLAIN = ['assign', 'expr', 'strexpr', 'print', 'noneexpr', 'multi', 'multiexpr', 'multiprint', 'compound',
         'compound_t', 'loopecho', 'loopecho_t', 'funcdef', 'classdef', 'semi', 'semiecho', 'semi2echo', 'comment', 'trailcomment',
         'tripstr', 'blankline', 'blankline2', 'ellipsis', 'ellipsis2', 'normws', 'ellnorm', 'skip', 'skipwant',
         'raise', 'raise_inner', 'raise_file', 'raise_detail', 'raise_detail_mod', 'printraise', 'raise_ell', 'callraise', 'dictecho', 'bytesecho',
         'wsline', 'longexpr', 'deco', 'decoclass', 'decoclass_print', 'decofunc_print'] + [
    # option directives on a CONTINUATION line of a multi-line example (the standard module's directive
    # regex is MULTILINE over the example source, so they apply to that one example)
    'skip_cont_loop', 'skip_cont_call', 'skip_cont_multi', 'skip_cont_want', 'ell_cont', 'ell_cont_silent', 'normws_cont',
    'normws_cont_silent', 'detail_cont', 'detail_cont_silent', 'ellnorm_cont_last', 'skip_gap_tripstr', 'skip_gap_call', 'detail_gap',
    # expected tracebacks of the SyntaxError family (format_exception_only yields several lines) and
    # multi-line exception messages
    'syn_eval', 'syn_eval_full', 'syn_eval_detail', 'syn_compile', 'syn_compile_full', 'indent_exec', 'indent_exec_full',
    'indent_exec_detail', 'tab_exec', 'multiline_msg', 'multiline_msg_detail', 'multiline_msg_ell',
    # comments inside a multi-line example
    'multi_comment', 'compound_comment'] + [
    # SCALE: many continuation lines, wants with 9..40 markers / wildcards / lines, long exception messages
    'bigmulti', 'bigcompound', 'bigcall', 'manyblank', 'manyblank_ws', 'manyell', 'manyell_lines', 'manylines', 'manyline_msg',
    'manyline_msg_ell', 'manynormws',
    # exception classes from modules with 0..4 dots, nested classes
    'dotexc0', 'dotexc1', 'dotexc2', 'dotexc3', 'dotexc4', 'dotexc_nested', 'dotexc2_detail', 'dotexc4_detail', 'dotexc_nested_detail',
    'dotexc3_detail_bare',
    # directive placements of the standard syntax
    'minus_ell', 'minus_normws', 'minus_skip', 'minus_detail', 'plus_minus_one_comment', 'three_in_one', 'dir_nospace', 'dir_spaces',
    'dir_in_string', 'dir_in_string2', 'unknown_opt', 'dir_second_comment', 'ell_literal_dots',
    # interactions
    'dir_in_tripstr_ell', 'printraise_multi', 'oldstyle_blankline', 'oldstyle_blankline_t', 'printraise_detail', 'raise_then_stdout']

# examples that produce no output and have no want (they share a part with their silent neighbours in xdoctest)
SILENT = ['assign', 'noneexpr', 'multi', 'funcdef', 'classdef', 'deco', 'tripstr', 'comment', 'decoclass', 'decoclass']
CONT_DIRECTIVE = ['skip_cont_loop', 'skip_cont_call', 'skip_cont_multi', 'skip_cont_want', 'ell_cont', 'ell_cont_silent',
                  'normws_cont', 'normws_cont_silent', 'detail_cont', 'detail_cont_silent', 'ellnorm_cont_last',
                  'skip_gap_tripstr', 'skip_gap_call', 'detail_gap']


def make_namespace():
    T = []

    def t(k):
        T.append(k)
        return k

    def pv(k):
        print('p%d' % k)
        return 'v%d' % k

    def boom(k):
        raise KeyError('b%d' % k)

    def mkexc(dots, nested=False):
        """an exception class that prints as pkg0.pkg1...[Outer.]Err<dots> (what format_exception_only shows)"""
        cls = type('Err%d' % dots, (Exception,), {})
        cls.__module__ = '.'.join('pkg%d' % i for i in range(dots)) if dots else 'builtins'
        if nested:
            cls.__qualname__ = 'Outer.Err%d' % dots
        return cls

    def pdeco(obj):
        print('decorated %s' % obj.__name__)
        return obj

    ns = {'T': T, 't': t, 'pv': pv, 'boom': boom, 'deco': (lambda f: f), 'pdeco': pdeco, 'mkexc': mkexc, '__name__': '__main__'}
    return ns, T


TB = 'Traceback (most recent call last):'


def example(kind, k):
    """-> dict(src=[lines], directive=str|None, want=None (= REPL output) | callable(repl_out) -> want text,
               bare_end=bool allowed)"""
    d = {'kind': kind, 'k': k, 'src': None, 'directive': None, 'want': None, 'directive_line': 0, 'tbstyle': 'elided'}
    K = k

    def src(*lines):
        d['src'] = list(lines)

    if kind == 'assign':
        src('x%d = t(%d)' % (K, K))
    elif kind == 'expr':
        src('t(%d)' % K)
    elif kind == 'strexpr':
        src('"s%%d" %% t(%d)' % K)
    elif kind == 'print':
        src('print(t(%d))' % K)
    elif kind == 'noneexpr':
        src('T.append(-t(%d))' % K)
    elif kind == 'both':
        src('pv(t(%d))' % K)
    elif kind == 'bothsemi':
        src('print("a%d"); t(%d)' % (K, K))
    elif kind == 'loopboth':
        src('for i in [t(%d)]:' % K, '    print("l%d")' % K, '    i')
    elif kind == 'multi':
        src('y%d = [t(%d),' % (K, K), '      0]')
    elif kind == 'multiexpr':
        src('(t(%d),' % K, ' 1)')
    elif kind == 'multiprint':
        src('print(t(%d),' % K, '      "z")')
    elif kind in ('compound', 'compound_t'):
        src('if t(%d) >= 0:' % K, '    print("c%d")' % K)
    elif kind in ('loopecho', 'loopecho_t'):
        src('for i in [t(%d), 7]:' % K, '    i')
    elif kind == 'funcdef':
        src('def f%d(a):' % K, '    return a + t(%d)' % K)
    elif kind == 'deco':
        src('@deco', 'def g%d(a=t(%d)):' % (K, K), '    return a')
    elif kind == 'classdef':
        src('class C%d(object):' % K, '    v = t(%d)' % K)
    elif kind == 'decoclass':
        # a DECORATED class: the statement starts at the decorator line, the `class` line is a continuation line
        src('@deco', 'class G%d(object):' % K, '    v = t(%d)' % K)
    elif kind == 'decoclass_print':
        src('@pdeco', 'class H%d(object):' % K, '    v = t(%d)' % K)
    elif kind == 'decofunc_print':
        src('@pdeco', '@deco', 'def q%d(a=t(%d)):' % (K, K), '    return a')
    elif kind == 'semi':
        src('a%d = t(%d); print(a%d + 1)' % (K, K, K))
    elif kind == 'semiecho':
        src('b%d = 1; t(%d)' % (K, K))
    elif kind == 'semi2echo':
        src('t(%d); "two"' % K)
    elif kind == 'comment':
        src('# just a comment %d' % K)
        d['want'] = lambda out: ''      # the standard parser drops comment-only examples (_IS_BLANK_OR_COMMENT)
    elif kind == 'trailcomment':
        src('t(%d)  # a trailing comment' % K)
    elif kind == 'tripstr':
        src('z%d = """l1' % K, 'l2""" + str(t(%d))' % K)
    elif kind == 'blankline':
        src('print("a\\n\\nb", t(%d))' % K)
        d['want'] = lambda out: out.replace('\n\n', '\n<BLANKLINE>\n')
    elif kind == 'blankline2':
        src('print("\\n\\nb", t(%d)); print()' % K)
        d['want'] = lambda out: '\n'.join(l if l else '<BLANKLINE>' for l in out[:-1].split('\n')) + '\n'
    elif kind == 'wsline':
        src('print("a\\n  \\nb", t(%d))' % K)
        d['want'] = lambda out: 'a\n<BLANKLINE>\nb %d\n' % K
    elif kind == 'marker':
        src('print("<BLANKLINE>", t(%d))' % K)
    elif kind == 'marker2':
        src('print("<BLANKLINE>"); t(%d) and None' % K)
    elif kind == 'ellipsis':
        src('print("x", t(%d), "yz")' % K)
        d['directive'] = '+ELLIPSIS'
        d['want'] = lambda out: 'x ... yz\n'
    elif kind == 'ellipsis2':
        src('print(list(range(t(%d) + 30)))' % K)
        d['directive'] = '+ELLIPSIS'
        d['want'] = lambda out: '[0, 1, ..., %d]\n' % (K + 29)
    elif kind == 'normws':
        src('print("a   b", t(%d), "c")' % K)
        d['directive'] = '+NORMALIZE_WHITESPACE'
        d['want'] = lambda out: 'a b\n    %d   c\n' % K
    elif kind == 'ellnorm':
        src('print(list(range(t(%d) + 40)))' % K)
        d['directive'] = '+ELLIPSIS, +NORMALIZE_WHITESPACE'
        d['want'] = lambda out: '[0,   1,  ...,\n   %d]\n' % (K + 39)
    elif kind == 'skip':
        src('t(%d)' % K)
        d['directive'] = '+SKIP'
        d['want'] = lambda out: ''
    elif kind == 'skipwant':
        src('print(t(%d))' % K)
        d['directive'] = '+SKIP'
        d['want'] = lambda out: 'something else entirely\n'
    elif kind == 'raise':
        src('raise ValueError("m%%d" %% t(%d))' % K)
        d['want'] = lambda out: '%s\n    ...\nValueError: m%d\n' % (TB, K)
    elif kind == 'raise_inner':
        src('raise ValueError("m%%d" %% t(%d))' % K)
        d['want'] = lambda out: 'Traceback (innermost last):\n  ...\nValueError: m%d\n' % K
    elif kind == 'raise_file':
        src('raise ValueError("m%%d" %% t(%d))' % K)
        d['want'] = lambda out: '%s\n  File "<stdin>", line 1, in ?\nValueError: m%d\n' % (TB, K)
    elif kind == 'raise_detail':
        src('raise ValueError("m%%d" %% t(%d))' % K)
        d['directive'] = '+IGNORE_EXCEPTION_DETAIL'
        d['want'] = lambda out: '%s\n    ...\nValueError: a different message\n' % TB
    elif kind == 'raise_detail_mod':
        src('raise ValueError("m%%d" %% t(%d))' % K)
        d['directive'] = '+IGNORE_EXCEPTION_DETAIL'
        d['want'] = lambda out: '%s\n    ...\nsome.module.ValueError: whatever\n' % TB
    elif kind == 'raise_ell':
        src('raise ValueError("long message %%d end" %% t(%d))' % K)
        d['directive'] = '+ELLIPSIS'
        d['want'] = lambda out: '%s\n    ...\nValueError: long ... end\n' % TB
    elif kind == 'printraise':
        src('print("r%d"); raise ValueError("m%%d" %% t(%d))' % (K, K))
        d['want'] = lambda out: '%s\n    ...\nValueError: m%d\n' % (TB, K)
    elif kind == 'callraise':
        src('boom(t(%d))' % K)
        d['want'] = lambda out: "%s\n    ...\nKeyError: 'b%d'\n" % (TB, K)
    elif kind == 'underscore':
        src('t(%d) * 0 + _' % K)
    elif kind == 'dictecho':
        src('{"k": t(%d), "s": u"v"}' % K)
    elif kind == 'bytesecho':
        src('b"raw%%d" %% t(%d)' % K)
    elif kind == 'longexpr':
        src('[t(%d)] * 3' % K)
    elif kind == 'escaped':
        src('print("caf\\xe9", t(%d))' % K)
        d['want'] = lambda out: 'caf\\xe9 %d\n' % K
    elif kind == 'true1':
        src('t(%d) == %d' % (K, K))
        d['want'] = lambda out: '1\n'
    elif kind == 'ansi':
        src('print("x\\x1b[0mdone", t(%d))' % K)
        d['directive'] = '+ELLIPSIS'
        d['want'] = lambda out: 'x...[0mdone %d\n' % K
    elif kind == 'prefix':
        src('print("u\'x\'", t(%d))' % K)
        d['directive'] = '+ELLIPSIS'
        d['want'] = lambda out: "u... %d\n" % K
    elif kind == 'cr':
        src('print("a\\rb", t(%d))' % K)
        d['directive'] = '+NORMALIZE_WHITESPACE'
        d['want'] = lambda out: 'a b %d\n' % K
    elif kind == 'skip_cont_loop':
        src('for i%d in range(3):' % K, '    x%d = t(%d) + undefined_name' % (K, K))
        d['directive'] = '+SKIP'
        d['directive_line'] = 1
        d['want'] = lambda out: ''
    elif kind == 'skip_cont_call':
        src('print(t(%d),' % K, '      undefined_name)')
        d['directive'] = '+SKIP'
        d['directive_line'] = 1
        d['want'] = lambda out: ''
    elif kind == 'skip_cont_multi':
        src('y%d = [t(%d),' % (K, K), '      undefined_name,', '      0]')
        d['directive'] = '+SKIP'
        d['directive_line'] = 2
        d['want'] = lambda out: ''
    elif kind == 'skip_gap_tripstr':
        # an EMPTY line inside the example (here inside a string literal; written as a bare `...`), the directive after it
        src('z%d = """l1' % K, '', 'l2""" + str(t(%d) + undefined_name)' % K)
        d['directive'] = '+SKIP'
        d['directive_line'] = 2
        d['want'] = lambda out: ''
    elif kind == 'skip_gap_call':
        src('print(t(%d),' % K, '', '      undefined_name)')
        d['directive'] = '+SKIP'
        d['directive_line'] = 2
        d['want'] = lambda out: ''
    elif kind == 'detail_gap':
        src('raise ValueError("m%d" %', '', '                 t(%d))' % K)
        d['directive'] = '+IGNORE_EXCEPTION_DETAIL'
        d['directive_line'] = 2
        d['want'] = lambda out: '%s\n    ...\nValueError: a different message\n' % TB
    elif kind == 'skip_cont_want':
        src('print(t(%d),' % K, '      undefined_name)')
        d['directive'] = '+SKIP'
        d['directive_line'] = 1
        d['want'] = lambda out: 'this want is never looked at\n'
    elif kind == 'ell_cont':
        src('print("x", t(%d),' % K, '      "yz")')
        d['directive'] = '+ELLIPSIS'
        d['directive_line'] = 1
        d['want'] = lambda out: 'x ... yz\n'
    elif kind == 'ell_cont_silent':
        src('e%d = [t(%d),' % (K, K), '      0]')
        d['directive'] = '+ELLIPSIS'
        d['directive_line'] = 1
    elif kind == 'normws_cont':
        src('print("a   b", t(%d),' % K, '      "c")')
        d['directive'] = '+NORMALIZE_WHITESPACE'
        d['directive_line'] = 1
        d['want'] = lambda out: 'a b\n    %d   c\n' % K
    elif kind == 'normws_cont_silent':
        src('if t(%d) >= 0:' % K, '    n%d = 1' % K)
        d['directive'] = '+NORMALIZE_WHITESPACE'
        d['directive_line'] = 1
    elif kind == 'detail_cont':
        src('raise ValueError("m%d" %', '                 t(%d))' % K)
        d['directive'] = '+IGNORE_EXCEPTION_DETAIL'
        d['directive_line'] = 1
        d['want'] = lambda out: '%s\n    ...\nValueError: a different message\n' % TB
    elif kind == 'detail_cont_silent':
        src('d%d = (t(%d),' % (K, K), '      1)')
        d['directive'] = '+IGNORE_EXCEPTION_DETAIL'
        d['directive_line'] = 1
    elif kind == 'ellnorm_cont_last':
        src('print(list(range(', '    t(%d) + 40)))' % K)
        d['directive'] = '+ELLIPSIS, +NORMALIZE_WHITESPACE'
        d['directive_line'] = 1
        d['want'] = lambda out: '[0,   1,  ...,\n   %d]\n' % (K + 39)
    elif kind in ('syn_eval', 'syn_eval_full', 'syn_eval_detail'):
        src('eval("%%d +" %% t(%d))' % K)
        if kind == 'syn_eval_full':
            d['tbstyle'] = 'full'
        if kind == 'syn_eval_detail':
            d['directive'] = '+IGNORE_EXCEPTION_DETAIL'
            d['want'] = lambda out: '%s\n    ...\nSyntaxError: some other wording\n' % TB
    elif kind in ('syn_compile', 'syn_compile_full'):
        src('compile("x = (%%d" %% t(%d), "<src>", "exec")' % K)
        if kind == 'syn_compile_full':
            d['tbstyle'] = 'full'
    elif kind in ('indent_exec', 'indent_exec_full', 'indent_exec_detail'):
        src('exec("if %%d:\\nx = 1" %% t(%d))' % K)
        if kind == 'indent_exec_full':
            d['tbstyle'] = 'full'
        if kind == 'indent_exec_detail':
            d['directive'] = '+IGNORE_EXCEPTION_DETAIL'
            d['want'] = lambda out: '%s\n    ...\nIndentationError: whatever\n' % TB
    elif kind == 'tab_exec':
        src('exec("if %%d:\\n\\tx = 1\\n        y = 2" %% t(%d))' % K)
    elif kind == 'bigmulti':
        n = 9 + (K * 7) % 24
        src(*(['m%d = [t(%d),' % (K, K)] + ['      %d,' % i for i in range(n)] + ['      0]']))
    elif kind == 'bigcall':
        n = 9 + (K * 5) % 20
        src(*(['print(t(%d),' % K] + ['      %d,' % i for i in range(n)] + ['      "end")']))
    elif kind == 'bigcompound':
        n = 9 + (K * 3) % 20
        src(*(['for i in [t(%d)]:' % K] + ['    v%d_%d = i + %d' % (K, i, i) for i in range(n)] + ['    print("big", v%d_%d)' % (K, n - 1)]))
    elif kind in ('manyblank', 'manyblank_ws'):
        n = 9 + (K * 7) % 32
        src('print("\\n\\n".join(str(i) for i in range(t(%d) * 0 + %d)))' % (K, n))
        if kind == 'manyblank':
            d['want'] = lambda out: out.replace('\n\n', '\n<BLANKLINE>\n')
        else:
            d['want'] = lambda out: out.replace('\n\n', '\n<BLANKLINE>  \n')
    elif kind == 'manyell':
        n = 9 + (K * 7) % 32
        src('print(" ".join("x%%d y%%d" %% (i, i * t(%d)) for i in range(%d)))' % (K, n))
        d['directive'] = '+ELLIPSIS'
        d['want'] = lambda out, n=n: ' '.join('x%d ...' % i for i in range(n)) + '\n'
    elif kind == 'manyell_lines':
        n = 9 + (K * 5) % 32
        src('print("\\n".join("row %%d: %%d" %% (i, i * t(%d) %% 7) for i in range(%d)))' % (K, n))
        d['directive'] = '+ELLIPSIS'
        d['want'] = lambda out, n=n: '\n'.join('row %d: ...' % i for i in range(n)) + '\n'
    elif kind == 'manylines':
        n = 9 + (K * 11) % 32
        src('print("\\n".join("line %%d" %% i for i in range(t(%d) * 0 + %d)))' % (K, n))
    elif kind == 'manynormws':
        n = 9 + (K * 5) % 32
        src('print(list(range(t(%d) * 0 + %d)))' % (K, n))
        d['directive'] = '+NORMALIZE_WHITESPACE'
        d['want'] = lambda out: out.replace(', ', ',\n   ')
    elif kind in ('manyline_msg', 'manyline_msg_ell'):
        n = 9 + (K * 7) % 32
        src('raise ValueError("\\n".join("detail %%d" %% i for i in range(t(%d) * 0 + %d)))' % (K, n))
        if kind == 'manyline_msg_ell':
            d['directive'] = '+ELLIPSIS'
            d['want'] = lambda out, n=n: '%s\n    ...\nValueError: detail 0\n...\ndetail %d\n' % (TB, n - 1) if False else \
                '%s\n    ...\nValueError: detail 0\ndetail 1\n...\ndetail %d\n' % (TB, n - 1)
    elif kind in ('dotexc0', 'dotexc1', 'dotexc2', 'dotexc3', 'dotexc4'):
        src('raise mkexc(%s)("m%%d" %% t(%d))' % (kind[-1], K))
    elif kind == 'dotexc_nested':
        src('raise mkexc(2, True)("m%%d" %% t(%d))' % K)
    elif kind in ('dotexc2_detail', 'dotexc4_detail'):
        nd = int(kind[6])
        src('raise mkexc(%d)("m%%d" %% t(%d))' % (nd, K))
        d['directive'] = '+IGNORE_EXCEPTION_DETAIL'
        d['want'] = lambda out, nd=nd: '%s\n    ...\nother.path.Err%d: another message\n' % (TB, nd)
    elif kind == 'dotexc3_detail_bare':
        src('raise mkexc(3)("m%%d" %% t(%d))' % K)
        d['directive'] = '+IGNORE_EXCEPTION_DETAIL'
        d['want'] = lambda out: '%s\n    ...\nErr3\n' % TB
    elif kind == 'dotexc_nested_detail':
        src('raise mkexc(2, True)("m%%d" %% t(%d))' % K)
        d['directive'] = '+IGNORE_EXCEPTION_DETAIL'
        d['want'] = lambda out: '%s\n    ...\nErr2: x\n' % TB
    elif kind == 'minus_ell':
        src('print("a...b", t(%d))' % K)
        d['directive'] = '-ELLIPSIS'
    elif kind == 'minus_normws':
        src('print("a  b", t(%d))' % K)
        d['directive'] = '-NORMALIZE_WHITESPACE'
    elif kind == 'minus_skip':
        src('print(t(%d))' % K)
        d['directive'] = '-SKIP'
    elif kind == 'minus_detail':
        src('raise ValueError("m%%d" %% t(%d))' % K)
        d['directive'] = '-IGNORE_EXCEPTION_DETAIL'
    elif kind == 'plus_minus_one_comment':
        src('print("x", t(%d), "yz")' % K)
        d['directive'] = '+NORMALIZE_WHITESPACE, -NORMALIZE_WHITESPACE, +ELLIPSIS'
        d['want'] = lambda out: 'x ... yz\n'
    elif kind == 'three_in_one':
        src('raise ValueError("long message %%d end" %% t(%d))' % K)
        d['directive'] = '+ELLIPSIS, +NORMALIZE_WHITESPACE, +IGNORE_EXCEPTION_DETAIL'
        d['want'] = lambda out: '%s\n    ...\nValueError: long\n    ... end\n' % TB
    elif kind == 'dir_nospace':
        src('print("x", t(%d), "yz")' % K)
        d['directive'] = '+ELLIPSIS'
        d['dirprefix'] = '  #doctest:'
        d['want'] = lambda out: 'x ... yz\n'
    elif kind == 'dir_spaces':
        src('print("x", t(%d), "yz")' % K)
        d['directive'] = '  +ELLIPSIS ,  +NORMALIZE_WHITESPACE  '
        d['dirprefix'] = '  #   doctest:'
        d['want'] = lambda out: 'x ...\n   yz\n'
    elif kind == 'dir_in_string':
        src('print("# doctest: +SKIP", t(%d))' % K)
    elif kind == 'dir_in_string2':
        src('s%d = "# doctest: +ELLIPSIS"; print(len(s%d) + t(%d))' % (K, K, K))
    elif kind == 'dir_in_tripstr_skip':
        # the standard module's directive regex also fires on a line INSIDE a multi-line string (its documented
        # false positive): it skips the example; xdoctest executes it
        src('q%d = """' % K, '# doctest: +SKIP', '""" + str(t(%d))' % K)
        d['directive'] = None
        d['std_skips'] = True
    elif kind == 'dir_in_tripstr_ell':
        src("print('''a", '# doctest: +ELLIPSIS', "b''', t(%d))" % K)
    elif kind == 'unknown_opt':
        src('print(t(%d))' % K)
        d['directive'] = '+NO_SUCH_OPTION_%d' % K
    elif kind == 'dir_after_remark_skip':
        # the directive is not at the start of the comment: the standard module's regex finds it anywhere in the line
        src('print(t(%d))  # a remark' % K)
        d['directive'] = '+SKIP'
        d['want'] = lambda out: 'not this\n'
    elif kind == 'dir_after_remark_detail':
        src('raise ValueError("m%%d" %% t(%d))  # why' % K)
        d['directive'] = '+IGNORE_EXCEPTION_DETAIL'
        d['want'] = lambda out: '%s\n    ...\nValueError: some other text\n' % TB
    elif kind == 'dir_second_comment':
        src('print("x", t(%d), "yz")  # a remark' % K)
        d['directive'] = '+ELLIPSIS'
        d['want'] = lambda out: 'x ... yz\n'
    elif kind == 'ell_literal_dots':
        src('print("wait...", t(%d), "done")' % K)
        d['directive'] = '+ELLIPSIS'
        d['want'] = lambda out: 'wait... ... done\n'
    elif kind == 'printraise_multi':
        src('print("before %d"); print("more"); raise ValueError("m%%d" %% t(%d))' % (K, K))
        d['want'] = lambda out: '%s\n    ...\nValueError: m%d\n' % (TB, K)
    elif kind == 'printraise_detail':
        src('print("before %d"); raise ValueError("m%%d" %% t(%d))' % (K, K))
        d['directive'] = '+IGNORE_EXCEPTION_DETAIL'
        d['want'] = lambda out: '%s\n    ...\nValueError: not the same\n' % TB
    elif kind == 'raise_then_stdout':
        # the NEXT example's want must be matched on its own stdout only
        src('print("early %d", t(%d)); {}["k%d"]' % (K, K, K))
        d['want'] = lambda out: "%s\n    ...\nKeyError: 'k%d'\n" % (TB, K)
    elif kind in ('oldstyle_blankline', 'oldstyle_blankline_t'):
        src('for i in [t(%d)]:' % K, '    print("a\\n\\nb", i)', '    i')
        d['want'] = lambda out: out.replace('\n\n', '\n<BLANKLINE>\n')
    elif kind in ('endblank', 'endblank_minus_nw'):
        src('print("x%%d\\n" %% t(%d))' % K)
        d['want'] = lambda out: 'x%d\n<BLANKLINE>\n' % K
        if kind == 'endblank_minus_nw':
            d['directive'] = '-NORMALIZE_WHITESPACE'
    elif kind in ('bareprint', 'bareprint_minus_nw'):
        src('print(""[t(%d):])' % K)
        d['want'] = lambda out: '<BLANKLINE>\n'
        if kind == 'bareprint_minus_nw':
            d['directive'] = '-NORMALIZE_WHITESPACE'
    elif kind == 'endblank2':
        src('print("y%%d\\n\\n" %% t(%d))' % K)
        d['want'] = lambda out: 'y%d\n<BLANKLINE>\n<BLANKLINE>\n' % K
    elif kind == 'endblank_ws':
        src('print("z%%d\\n  " %% t(%d))' % K)
        d['want'] = lambda out: 'z%d\n<BLANKLINE>\n' % K
    elif kind == 'endblank_loop':
        src('for i in [t(%d)]:' % K, '    print(i)', '    print()')
        d['want'] = lambda out: '%d\n<BLANKLINE>\n' % K
    elif kind == 'endblank_ell':
        src('print("head", t(%d), "tail\\n")' % K)
        d['directive'] = '+ELLIPSIS'
        d['want'] = lambda out: 'head ... tail\n<BLANKLINE>\n'
    elif kind == 'selfsyntax':
        # the example's OWN source does not compile: for the standard module that is the example's exception
        src('t(%d) +' % K)
    elif kind == 'selfindent':
        src('if t(%d):' % K, 'y%d = 1' % K)
    elif kind == 'multi_comment':
        src('c%d = [t(%d),' % (K, K), '# a comment inside the literal', '      0]')
    elif kind == 'compound_comment':
        src('if t(%d) >= 0:' % K, '    # a comment line in the body', '    print("cc%d")' % K)
    elif kind == 'multiline_msg':
        src('raise ValueError("multi\\n   line %%d\\ndetail" %% t(%d))' % K)
    elif kind == 'multiline_msg_detail':
        src('raise ValueError("multi\\n   line %%d\\ndetail" %% t(%d))' % K)
        d['directive'] = '+IGNORE_EXCEPTION_DETAIL'
        d['want'] = lambda out: '%s\n    ...\nValueError: another\n   text\n' % TB
    elif kind == 'multiline_msg_ell':
        src('raise ValueError("multi\\n   line %%d\\ndetail" %% t(%d))' % K)
        d['directive'] = '+ELLIPSIS'
        d['want'] = lambda out: '%s\n    ...\nValueError: multi\n   ...\ndetail\n' % TB
    else:
        raise KeyError(kind)
    return d


def example_source(ex):
    return '\n'.join(ex['src']) + '\n'


def repl_run(specs):
    """REPL-semantics execution of the examples, one after the other in one namespace; returns
    (list of output texts or ('raise', exc_line)), TRACE). SKIP examples are not run."""
    ns, T = make_namespace()
    outs = []
    old_hook = sys.displayhook
    had_ = hasattr(builtins, '_')
    old_ = getattr(builtins, '_', None)
    try:
        sys.displayhook = sys.__displayhook__
        for ex in specs:
            if ex.get('std_skips') or (ex['directive'] and '+SKIP' in ex['directive'].replace(' ', '')):
                outs.append('')
                continue
            buf = io.StringIO()
            try:
                code = compile(example_source(ex), '<repl>', 'single')
                with contextlib.redirect_stdout(buf):
                    exec(code, ns)
                outs.append(buf.getvalue())
            except Exception as e:
                fe = traceback.format_exception_only(type(e), e)
                outs.append(('raise', fe[-1], buf.getvalue(), ''.join(fe)))
    finally:
        sys.displayhook = old_hook
        if had_:
            builtins._ = old_
        elif hasattr(builtins, '_'):
            del builtins._
    return outs, list(T)


def render(specs, layout):
    """layout: dict(indent=str, bare_end=set of example indexes that get a terminating bare '...',
    sep={index: 'blank'|'prose'} separator AFTER example index, header=bool)"""
    outs, T = repl_run(specs)
    ind = layout.get('indent', '')
    lines = []
    if layout.get('header'):
        lines += ['Summary line of the docstring.', '']
    for i, ex in enumerate(specs):
        src = ex['src']
        dl = ex.get('directive_line', 0) if ex['directive'] else -1
        for j, l in enumerate(src):
            text = ('>>> ' if j == 0 else '... ') + l if (l or j == 0) else '...'
            if j == dl:
                text += ex.get('dirprefix', '  # doctest:') + ' ' + ex['directive']
            lines.append(ind + text)
        if i in layout.get('bare_end', ()) and len(src) > 1 and ex['kind'] not in ('multi', 'multiexpr', 'multiprint', 'tripstr'):
            lines.append(ind + '...')
        out = outs[i]
        if ex['want'] is not None:
            want = ex['want'](out if isinstance(out, str) else out[2])
        elif isinstance(out, tuple) and ex.get('tbstyle') == 'full':
            # what the interpreter prints: the frame of the example, then every line of format_exception_only
            want = '%s\n  File "<stdin>", line 1, in <module>\n%s' % (TB, out[3])
        elif isinstance(out, tuple):
            want = '%s\n    ...\n%s' % (TB, out[1])
        else:
            want = out
        if want:
            for l in want[:-1].split('\n') if want.endswith('\n') else want.split('\n'):
                lines.append(ind + l if l else '')
        sep = layout.get('sep', {}).get(i)
        if sep == 'blank':
            lines.append('')
        elif sep == 'prose':
            lines += ['', ind + 'Some prose between the examples.', '']
    return '\n'.join(lines) + '\n', T


def std_run(text):
    """the standard module as the oracle: (failed, attempted, TRACE)"""
    import doctest
    if hasattr(builtins, '_'):
        del builtins._
    ns, T = make_namespace()
    try:
        test = doctest.DocTestParser().get_doctest(text, ns, 't', 't.py', 0)
    except ValueError as e:
        return 1, 0, [], 0, 'parse: %s' % (e,)
    runner = doctest.DocTestRunner(verbose=False, optionflags=0)
    buf = io.StringIO()
    had_ = hasattr(builtins, '_')
    old_ = getattr(builtins, '_', None)
    try:
        with contextlib.redirect_stdout(io.StringIO()):
            res = runner.run(test, out=buf.write, clear_globs=False)
    finally:
        if had_:
            builtins._ = old_
        elif hasattr(builtins, '_'):
            del builtins._
    return res.failed, res.attempted, list(T), len(test.examples), buf.getvalue()


def xdoc_run(text, defaults=None):
    """the same text through xdoctest: dict(collected, passed, failed, T, exc)"""
    from xdoctest import core
    # `single`-mode parts go through CPython's display hook, which binds builtins._ for the whole process: every run starts
    # without it (otherwise the verdict of a text that reads `_` would depend on what this PROCESS evaluated before)
    if hasattr(builtins, '_'):
        del builtins._
    with contextlib.redirect_stdout(io.StringIO()), contextlib.redirect_stderr(io.StringIO()):
        try:
            exs = list(core.parse_docstr_examples(text, callname='t', modpath=None, style='freeform'))
        except Exception as e:
            return {'collected': 0, 'error': 'parse:%s: %s' % (type(e).__name__, e), 'passed': False, 'T': []}
        if not exs:
            return {'collected': 0, 'passed': False, 'T': [], 'error': 'no doctest collected'}
        allT = []
        ok = True
        info = None
        for ex in exs:
            ns, T = make_namespace()
            ex.mode = 'native'
            ex.global_namespace.update(ns)
            if defaults:
                ex.config['default_runtime_state'] = dict(defaults)
            try:
                summ = ex.run(on_error='return', verbose=0)
            except BaseException as e:   # pytest.skip etc.
                summ = {'passed': False, 'failed': True}
                info = 'run raised %s: %s' % (type(e).__name__, e)
            allT += list(T)
            if not summ.get('passed') and not summ.get('skipped'):
                ok = False
            if summ.get('skipped') and not T:
                pass
            if summ.get('failed') and info is None:
                ei = getattr(ex, 'exc_info', None)
                info = 'failed: %s' % (''.join(traceback.format_exception_only(ei[0], ei[1])).strip() if ei else '?')
                fp = getattr(ex, '_part_of_failure', None) or getattr(ex, 'failed_part', None)
                if fp is not None:
                    info += ' | part: %r' % (getattr(fp, 'source', None),)
    return {'collected': len(exs), 'passed': ok, 'T': allT, 'error': info}


def in_child(fn, *args):
    """run fn(*args) in a forked child (fresh copy of this process's state), return its (picklable) result"""
    import os
    import pickle
    r, w = os.pipe()
    pid = os.fork()
    if pid == 0:
        try:
            os.close(r)
            try:
                res = ('ok', fn(*args))
            except BaseException as e:   # noqa
                res = ('error', '%s: %s' % (type(e).__name__, e))
            with os.fdopen(w, 'wb') as f:
                pickle.dump(res, f)
        finally:
            os._exit(0)
    os.close(w)
    with os.fdopen(r, 'rb') as f:
        data = f.read()
    os.waitpid(pid, 0)
    if not data:
        return ('error', 'child died')
    return pickle.loads(data)


def _short(o):
    return {'collected': o['collected'], 'passed': o['passed'], 'T': o['T']}


def xdoc_run_seq(texts, order, rerun):
    """the docstrings `texts` collected and run in ONE process in the given order (indexes into texts, with
    repetitions); rerun[j] = run the same DocTest objects of step j a second time. Returns one outcome per step
    (and per re-run): (step, index, 'first'|'again', {collected, passed, T})"""
    from xdoctest import core
    out = []
    for j, i in enumerate(order):
        text = texts[i]
        # `single`-mode parts go through CPython's display hook, which binds builtins._ for the whole process (the
        # standard module does the same): not xdoctest state, removed between the steps
        if hasattr(builtins, '_'):
            del builtins._
        with contextlib.redirect_stdout(io.StringIO()), contextlib.redirect_stderr(io.StringIO()):
            try:
                exs = list(core.parse_docstr_examples(text, callname='t%d' % i, modpath=None, style='freeform'))
            except Exception as e:
                out.append((j, i, 'first', {'collected': 0, 'passed': False, 'T': [], 'error': 'parse:' + type(e).__name__}))
                continue
            for which in (['first', 'again'] if rerun[j] else ['first']):
                if hasattr(builtins, '_'):
                    del builtins._
                allT = []
                ok = bool(exs)
                for ex in exs:
                    ns, T = make_namespace()
                    ex.mode = 'native'
                    ex.global_namespace.update(ns)
                    try:
                        summ = ex.run(on_error='return', verbose=0)
                    except BaseException as e:   # noqa
                        summ = {'passed': False, 'failed': True}
                    allT += list(T)
                    if not summ.get('passed') and not summ.get('skipped'):
                        ok = False
                out.append((j, i, which, {'collected': len(exs), 'passed': ok, 'T': allT}))
    return out

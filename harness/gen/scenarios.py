"""
Scenario generators for the run-loop properties (C02, C03, C04, C09). A scenario is a dict:
  text      the docstring
  run       kwargs for runloop.observe (on_error, defaults, pytest_mode, verbose)
  expect    by-construction expectation: {'pfs': '100'|'010'|'001', 'kind': failure kind or None,
            'T': expected TRACE, 'fail_group': index of the statement the failure is attributed to}
            (keys that are absent are not checked)
  desc      small description for samples / replays
"""
import itertools

from . import doctests as gd

EXTRA = 'EXTRA9'


def correct_wants(groups, ref, j, since):
    """candidates for a correct, non-empty want after group j (outputs since group index `since`)"""
    g = groups[j]
    r = ref[j]
    if not r['runs']:
        return []
    from ..oracle import checker_spec
    # a want is written as the VISIBLE text (terminal control sequences are removed before comparing)
    acc = checker_spec.strip_ansi(''.join(ref[i]['out'] for i in range(since, j + 1) if ref[i].get('runs')))
    c = []
    if acc.strip():
        c.append(('all-stdout', acc.rstrip('\n')))
    if g.is_expr and g.out.strip() and checker_spec.strip_ansi(g.out) != acc:
        c.append(('last-stdout', checker_spec.strip_ansi(g.out).rstrip('\n')))
    if g.is_expr and g.val not in (None, 'RAISES', 'None'):
        c.append(('value-repr', g.val))
    return c


def corrupt(want, how, stale='', stale_value=None):
    if how == 'stalevalue':
        # the value of an EARLIER expression statement is not what this statement produced
        return stale_value
    if how == 'stale':
        # output already consumed by the PREVIOUS want is no longer eligible
        if not stale.strip():
            return None
        return stale.rstrip('\n') + '\n' + want
    if how == 'replaced':
        return 'zzz9'
    if how == 'appended':
        return want + '\n' + EXTRA
    if how == 'prepended':
        return EXTRA + '\n' + want
    if how == 'dropped':
        ls = want.split('\n')
        if len(ls) < 2:
            return None
        return '\n'.join(ls[:-1])
    raise KeyError(how)


CORRUPTIONS = ['replaced', 'appended', 'prepended', 'dropped', 'stale', 'stalevalue']


def build_c02(kinds, styles, want_choice, corruption, rng=None, sep_prob=0.0, ignore_idx=()):
    """kinds: list of statement kinds; want_choice: list (per group) of None or an index into the
    candidate list; corruption: None or (group index, how)"""
    groups = [gd.Group(kind, k, style=styles[k % len(styles)]) for k, kind in enumerate(kinds)]
    ref = gd.reference(groups)
    since = 0
    chosen = {}
    stale = {}          # group index -> stdout consumed by the previous want
    legit = {}
    last_acc = ''
    for j, g in enumerate(groups):
        if isinstance(g.raises, tuple):
            # an expected exception: the want is its traceback; what the statement wrote before raising is logged for
            # that part but is not offered to a later want, and later wants see only what came after it
            g.want = exc_want('exact', g.raises[0], g.raises[1])
            chosen[j] = 'traceback'
            since = j + 1
            last_acc = ''
            continue
        wc = want_choice[j]
        if wc is None:
            continue
        cands = correct_wants(groups, ref, j, since)
        if not cands:
            continue
        name, w = cands[wc % len(cands)]
        g.want = w
        chosen[j] = name
        stale[j] = last_acc
        # every text that IS a correct want here: any trailing run of the outputs since the previous want, or the value
        outs = [ref[i]['out'] for i in range(since, j + 1) if ref[i].get('runs')]
        legit[j] = set(''.join(outs[i:]).strip() for i in range(len(outs)))
        if g.is_expr and g.val not in (None, 'RAISES'):
            legit[j].add(g.val.strip())
        last_acc = ''.join(ref[i]['out'] for i in range(since, j + 1) if ref[i].get('runs'))
        since = j + 1
    expect = {'pfs': '100', 'kind': None, 'T': [g.k for g, r in zip(groups, ref) if r['runs']]}
    if not any(r['runs'] for r in ref):
        expect['pfs'] = '001'
    desc = {'kinds': kinds, 'wants': chosen}
    if corruption is not None:
        j, how = corruption
        if groups[j].want is None or j not in legit:
            return None      # (an expected-exception want is not corrupted here: that is C03's table)
        earlier = [g.val for g, r in zip(groups[:j], ref) if r['runs'] and g.is_expr and g.val not in (None, 'RAISES', 'None')]
        cw = corrupt(groups[j].want, how, stale.get(j, ''), earlier[-1] if earlier else None)
        if cw is None:
            return None
        if cw.strip() in legit[j]:
            return None      # the corrupted text happens to be another correct want (coincidence of outputs)
        groups[j].want = cw
        expect = {'pfs': '010', 'kind': 'gotwant', 'fail_group': j,
                  'T': [g.k for g, r in zip(groups[:j + 1], ref) if r['runs']]}
        desc['corruption'] = [j, how]
    ign = []
    for j in ignore_idx:
        # a want that is there but IGNORED (inline +IGNORE_WANT, junk text): never compared — and it still ends the window of
        # "output since the previous want", exactly like a compared want
        if j < len(groups) and groups[j].want is not None and chosen.get(j) != 'traceback' and (corruption is None or corruption[0] != j):
            groups[j].want = 'junk that is never compared'
            groups[j].inline = ['+IGNORE_WANT']
            # on the statement that carries the want (kind funcdef = a definition followed by a call: the call)
            groups[j].inline_line = (len(groups[j].lines) - 1) if groups[j].kind == 'funcdef' else 0
            ign.append(j)
    if ign:
        desc['ignored_wants'] = ign
    text = gd.render(groups, rng=rng, sep_prob=sep_prob)
    return {'text': text, 'run': {}, 'expect': expect, 'desc': desc, 'groups': groups}


C02_KINDS = ['assign', 'print', 'expr', 'nlstr', 'both', 'multi', 'multiexpr', 'compound', 'print2', 'eqobj']


def c02_exhaustive(maxlen):
    """all programs of <= maxlen statements over C02_KINDS x all placements of correct wants (each
    candidate kind) x no corruption / every single corruption"""
    for n in range(1, maxlen + 1):
        for kinds in itertools.product(C02_KINDS, repeat=n):
            for wc in itertools.product([None, 0, 1, 2], repeat=n):
                base = build_c02(list(kinds), ['new'], list(wc), None)
                if base is None:
                    continue
                # skip duplicates: a choice index beyond the number of candidates wraps around
                yield base
                for j in range(n):
                    if base['groups'][j].want is None:
                        continue
                    for how in CORRUPTIONS:
                        sc = build_c02(list(kinds), ['new'], list(wc), (j, how))
                        if sc is not None:
                            yield sc


def c02_random(rng):
    n = rng.randint(1, 8)
    kinds = [rng.choice(gd.PLAIN_KINDS + ['comment', 'await', 'awaitexpr'] if rng.random() < 0.9 else ['comment']) for _ in range(n)]
    if n >= 2 and rng.random() < 0.3:
        # a statement that writes and then raises its expected exception, somewhere before the end
        kinds[rng.randrange(n - 1)] = rng.choice(['printraise', 'raise', 'callraise'])
    styles = [rng.choice(['new', 'old']) for _ in range(n)]
    wc = [rng.choice([None, None, 0, 1, 2]) for _ in range(n)]
    corruption = None
    if rng.random() < 0.55:
        corruption = (rng.randrange(n), rng.choice(CORRUPTIONS))
    ign = ()
    if rng.random() < 0.3:
        ign = tuple(j for j in range(n) if rng.random() < 0.5 and (corruption is None or j < corruption[0]))
    sc = build_c02(kinds, styles, wc, corruption, rng=rng, sep_prob=0.25, ignore_idx=ign)
    if sc is None:
        sc = build_c02(kinds, styles, wc, None, rng=rng, sep_prob=0.25, ignore_idx=ign)
    sc['run'] = {'on_error': rng.choice(['return', 'return', 'raise']), 'verbose': 0}
    return sc


# ------------------------------------------------------------------ C03
EXC_KINDS = ['raise', 'printraise', 'callraise', 'emptyraise', 'falsyraise', 'quietraise', 'callquietraise', 'awaitcallraise', 'awaitprintraise', 'evalsyntax', 'compileindent']
WANT_FORMS = ['none', 'exact', 'stack', 'wrongmsg', 'wrongtype', 'nontb', 'nontb_dots', 'nontb_hdronly', 'ellipsis', 'dotted', 'oldheader']


def exc_want(form, tname, msg):
    last = '%s: %s' % (tname, msg) if msg else tname
    hdr = 'Traceback (most recent call last):'
    if form == 'none':
        return None
    if form == 'exact':
        return hdr + '\n' + last
    if form == 'stack':
        return hdr + '\n  File "<stdin>", line 1, in <module>\n    ...\n' + last
    if form == 'wrongmsg':
        return hdr + '\n    ...\n%s: different message' % tname
    if form == 'wrongtype':
        return hdr + '\n    ...\nOSError: %s' % (msg or 'x')
    if form == 'nontb':
        return last
    if form == 'nontb_dots':
        return '...'
    if form == 'nontb_hdronly':
        return hdr
    if form == 'ellipsis':
        return hdr + '\n    ...\n%s...' % tname[:3]
    if form == 'dotted':
        return hdr + '\n    ...\nsome.module.' + last
    if form == 'oldheader':
        return 'Traceback (innermost last):\n' + last
    raise KeyError(form)


def build_c03(pre_kinds, exc_kind, post_kinds, form, flags, on_error='return'):
    """flags: dict with IGNORE_EXCEPTION_DETAIL / ELLIPSIS / IGNORE_WANT booleans, given as a leading
    block directive"""
    groups = []
    dirs = []
    for name in ('IGNORE_EXCEPTION_DETAIL', 'ELLIPSIS', 'IGNORE_WANT'):
        if name in flags:
            dirs.append(('+' if flags[name] else '-') + name)
    if dirs:
        groups.append(gd.Group('block', -1, block=dirs))
    k = 0
    for kind in pre_kinds:
        groups.append(gd.Group(kind, k))
        k += 1
    eg = gd.Group(exc_kind, k)
    k += 1
    tname, msg = eg.raises
    eg.want = exc_want(form, tname, msg)
    groups.append(eg)
    ej = len(groups) - 1
    for kind in post_kinds:
        groups.append(gd.Group(kind, k))
        k += 1
    ell = flags.get('ELLIPSIS', True)
    ign = flags.get('IGNORE_EXCEPTION_DETAIL', False)
    # decision table of the property
    if form in ('none', 'nontb', 'nontb_dots', 'nontb_hdronly'):
        passes = False
        kind = 'exception'
    elif form in ('exact', 'stack', 'oldheader'):
        passes, kind = True, None
    elif form == 'wrongmsg':
        passes = ign
        kind = None if ign else 'gotwant'
    elif form == 'wrongtype':
        passes, kind = False, 'gotwant'
    elif form == 'ellipsis':
        passes = ell
        kind = None if ell else 'gotwant'
    elif form == 'dotted':
        passes = ign
        kind = None if ign else 'gotwant'
    pre_T = [g.k for g in groups[:ej + 1] if g.kind not in ('block', 'comment')]
    if passes:
        expect = {'pfs': '100', 'kind': None, 'T': [g.k for g in groups if g.kind not in ('block', 'comment')]}
    else:
        expect = {'pfs': '010', 'kind': kind, 'T': pre_T, 'fail_group': ej,
                  'exc_type': tname if kind == 'exception' else 'GotWantException'}
    text = gd.render(groups)
    return {'text': text, 'run': {'on_error': on_error}, 'expect': expect,
            'desc': {'exc': exc_kind, 'form': form, 'flags': flags, 'pre': pre_kinds, 'post': post_kinds},
            'groups': groups}


def c03_table():
    for exc_kind in EXC_KINDS:
        for form in WANT_FORMS:
            for pos in ('first', 'middle', 'last', 'after-await'):
                pre = [] if pos == 'first' else (['await', 'print'] if pos == 'after-await' else ['assign', 'print'])
                post = [] if pos == 'last' else ['expr', 'print']
                for ign in (False, True):
                    for ell in (True, False):
                        for iw in (False, True):
                            flags = {}
                            if ign:
                                flags['IGNORE_EXCEPTION_DETAIL'] = True
                            if not ell:
                                flags['ELLIPSIS'] = False
                            if iw:
                                flags['IGNORE_WANT'] = True
                            yield build_c03(pre, exc_kind, post, form, flags)


def c03_noraise_tbwant(rng):
    """a traceback want on code that does not raise: plain comparison, must fail"""
    kind = rng.choice(['print', 'expr', 'assign', 'both'])
    g0 = gd.Group('assign', 0)
    g = gd.Group(kind, 1)
    g.want = exc_want(rng.choice(['exact', 'stack']), 'ValueError', 'm1')
    g2 = gd.Group('print', 2)
    expect = {'pfs': '010', 'kind': 'gotwant', 'T': [0, 1], 'fail_group': 1}
    return {'text': gd.render([g0, g, g2]), 'run': {}, 'expect': expect, 'desc': {'noraise_tbwant': kind},
            'groups': [g0, g, g2]}


# ------------------------------------------------------------------ C04
def directive_events():
    ev = [('plain', None)]
    for where in ('block', 'inline'):
        for d in ('+SKIP', '-SKIP', '+REQUIRES(%s)' % gd.MET, '-REQUIRES(%s)' % gd.MET,
                  '+REQUIRES(%s)' % gd.UNMET_A, '-REQUIRES(%s)' % gd.UNMET_A,
                  '+REQUIRES(%s)' % gd.UNMET_B, '-REQUIRES(%s)' % gd.UNMET_B,
                  '+ELLIPSIS', '-ELLIPSIS',
                  # several conditions in one directive, met ones before and after unmet ones
                  '+REQUIRES(%s, %s)' % (gd.MET, gd.UNMET_A), '+REQUIRES(%s, %s)' % (gd.UNMET_A, gd.MET),
                  '-REQUIRES(%s, %s)' % (gd.MET, gd.UNMET_A),
                  # TWO unmet conditions in one directive: each becomes pending / is withdrawn on its own
                  '+REQUIRES(%s, %s)' % (gd.UNMET_A, gd.UNMET_B), '-REQUIRES(%s, %s)' % (gd.UNMET_A, gd.UNMET_B),
                  '-REQUIRES(%s, %s)' % (gd.UNMET_B, gd.UNMET_A)):
            ev.append((where, d))
    return ev


SHAPES = ['assign', 'multi', 'compound', 'decorated', 'print', 'tripstr', 'classdef', 'decorated2', 'gapmulti', 'gapcompound',
          'decorated3', 'gapclass', 'multicomment']
STYLES = ['new', 'new', 'old']


def build_c04(events, shapes, default_skip=None, want_mode=None, rng=None, strings_with_directive=False):
    """events: list of (where, directive) from directive_events(); each non-block event carries one
    statement of shape shapes[i]; want_mode: None | 'correct' | 'garbage-on-skipped'"""
    groups = []
    k = 0
    for i, (where, d) in enumerate(events):
        if where == 'block':
            groups.append(gd.Group('block', -1, block=[d]))
            continue
        shape = shapes[i % len(shapes)]
        g = gd.Group(shape, k, style=(rng.choice(STYLES) if rng is not None else STYLES[(i + len(events)) % 3]),
                     inline=[d] if where == 'inline' else None,
                     inline_line=((i + k) % 4))
        k += 1
        groups.append(g)
    if strings_with_directive:
        # directive-looking text inside a string literal is not a directive
        g = gd.Group('assign', k)
        g.lines = ['s%d = "# xdoctest: +SKIP"; t(%d)' % (k, k)]
        groups.insert(0, g)
        k += 1
    ref = gd.reference(groups, default_skip=bool(default_skip))
    if want_mode:
        since = 0
        for j, g in enumerate(groups):
            if g.kind == 'block':
                continue
            if ref[j]['runs']:
                c = correct_wants(groups, ref, j, since)
                if c and (rng is None or rng.random() < 0.5):
                    g.want = c[0][1]
                    since = j + 1
            elif want_mode == 'garbage-on-skipped' and g.kind != 'comment':
                g.want = 'garbage that is never checked'
    T = [g.k for g, r in zip(groups, ref) if r.get('runs')]
    expect = {'pfs': '100' if T else '001', 'kind': None, 'T': T}
    run = {}
    if default_skip is not None:
        run['defaults'] = {'SKIP': bool(default_skip)}
    return {'text': gd.render(groups), 'run': run, 'expect': expect,
            'desc': {'events': events, 'default_skip': default_skip, 'want_mode': want_mode}, 'groups': groups}


# ------------------------------------------------------------------ C09
FAULTS = ['wrong-output', 'wrong-output-marker', 'wrong-output-long', 'exception', 'exception-finally', 'exception-reraise', 'exception-ignorewant', 'exception-ignorewant-inline', 'called-exception', 'helper-long', 'helper-short', 'compile', 'compile-late', 'badrepr',
          'badrepr-stdout', 'bad-directive', 'bad-directive-inline']


def build_c09(fault, pos, pre_want, multi, on_error='return', verbose=0, helper_extra=None, own_want=0):
    """pos in first/middle/last; pre_want: a correct want before the failing part; multi: a multi-line
    statement before it. expectation: failed, report renders and names type + failing line"""
    groups = []
    k = 0
    helper = None
    if fault == 'compile':
        pre_want = True      # keep the part that does not compile apart from the statements before it
    if fault in ('helper-long', 'helper-short'):
        g = gd.Group('assign', k)
        body = ['def helper%d(a):' % k]
        if helper_extra is not None:
            body += ['    a%d = a + %d' % (i, i) for i in range(helper_extra)]
        elif fault == 'helper-long':
            body += ['    a1 = a + 1', '    a2 = a1 + 1', '    a3 = a2 + 1', '    a4 = a3 + 1']
        body += ['    raise IndexError("h%d" % a)']
        g.lines = body
        g.out, g.val, g.is_expr, g.raises = '', None, False, None
        helper = 'helper%d' % k
        groups.append(g)
        k += 1
        # the definition does not call t(); give it a want-free separate statement
    if pos != 'first':
        if multi:
            groups.append(gd.Group('multi', k))
            k += 1
        g = gd.Group('print', k)
        if pre_want:
            g.want = g.out.rstrip('\n')
        groups.append(g)
        k += 1
    fk = k
    exc_type = None
    failing_line = None
    fail_offset = 0
    if fault == 'wrong-output':
        g = gd.Group('print', k)
        g.want = 'not the output'
        kind = 'gotwant'
        exc_type = 'GotWantException'
        failing_line = 'want'
    elif fault == 'wrong-output-marker':
        # a want that normalises to nothing
        g = gd.Group('print', k)
        g.want = '<BLANKLINE>'
        kind = 'gotwant'
        exc_type = 'GotWantException'
        failing_line = 'want'
    elif fault == 'wrong-output-long':
        # long enough for the diff-style report; the texts hold %, {} and backslashes
        g = gd.Group('plong', k)
        g.want = 'row %d: 99%% done\n{0} {y} {}\n%%s %%d %%(name)s\nback\\slash\nlast line' % k
        kind = 'gotwant'
        exc_type = 'GotWantException'
        failing_line = 'want'
    elif fault == 'exception':
        g = gd.Group('raise', k)
        kind = 'exception'
        exc_type = 'ValueError'
    elif fault in ('exception-finally', 'exception-reraise'):
        # the report must name the line that RAISED (second line of the statement), not the last line the frame executed
        g = gd.Group('raisefinally' if fault == 'exception-finally' else 'raisereraise', k, style='old')
        kind = 'exception'
        exc_type = 'ZeroDivisionError'
        fail_offset = 1
    elif fault in ('exception-ignorewant', 'exception-ignorewant-inline'):
        # IGNORE_WANT switches the comparison of wants off; it must not switch exceptions off
        if fault == 'exception-ignorewant':
            groups.append(gd.Group('block', -1, block=['+IGNORE_WANT']))
            g = gd.Group('raise', k)
        else:
            g = gd.Group('raise', k, inline=['+IGNORE_WANT'])
        g.want = 'some expected text'
        kind = 'exception'
        exc_type = 'ValueError'
    elif fault == 'called-exception':
        g = gd.Group('callraise', k)
        kind = 'exception'
        exc_type = 'KeyError'
    elif fault in ('helper-long', 'helper-short'):
        g = gd.Group('expr', k)
        g.lines = ['%s(t(%d))' % (helper, k)]
        g.raises = ('IndexError', 'h%d' % k)
        kind = 'exception'
        exc_type = 'IndexError'
        if own_want:
            # a want that is not a traceback block never hides the exception (C03); it only makes the part longer
            g.want = '\n'.join('expected line %d' % i for i in range(own_want))
    elif fault == 'compile':
        g = gd.Group('compileerr', k)
        kind = 'compile'
        exc_type = 'SyntaxError'
    elif fault == 'compile-late':
        # the offending statement is NOT the first line of its part: two want-less statements precede it
        groups.append(gd.Group('assign', k))
        k += 1
        groups.append(gd.Group('multi', k))
        k += 1
        fk = k
        g = gd.Group('compileerr', k)
        kind = 'compile'
        exc_type = 'SyntaxError'
    elif fault == 'badrepr':
        g = gd.Group('badrepr', k)
        g.want = 'something'
        kind = 'repr'
        exc_type = 'ExtractGotReprException'
    elif fault == 'badrepr-stdout':
        g = gd.Group('badreprprint', k)
        g.want = 'something else'
        kind = 'repr'
        exc_type = 'ExtractGotReprException'
    elif fault == 'bad-directive':
        groups.append(gd.Group('block', -1, block=['+REQUIRES(not-a-valid-requirement)']))
        g = gd.Group('print', k)
        kind = 'directive'
        exc_type = 'Exception'
    elif fault == 'bad-directive-inline':
        g = gd.Group('print', k, inline=['+REQUIRES(env:A:B:C)'])
        kind = 'directive'
        exc_type = 'Exception'
    groups.append(g)
    k += 1
    if pos != 'last':
        groups.append(gd.Group('assign', k))
        k += 1
        groups.append(gd.Group('print', k))
        k += 1
    ran = [x.k for x in groups if x.kind not in ('block',) and x.k < fk and 'def helper' not in x.lines[0]]
    T = list(ran)
    if kind in ('gotwant', 'exception', 'repr'):
        T.append(fk)
    if fault == 'compile-late':
        # a part that does not compile runs nothing: only the statements up to the last want before it ran
        gi = groups.index(g)
        lastw = max([j for j in range(gi) if groups[j].kind != 'block' and groups[j].want is not None] or [-1])
        T = [x.k for x in groups[:lastw + 1] if x.kind != 'block' and 'def helper' not in x.lines[0]]
    expect = {'pfs': '010', 'kind': kind, 'T': T, 'exc_type': exc_type, 'render': True,
              'fail_first_line': g.lines[fail_offset].strip() if failing_line is None else None}
    text = gd.render(groups)
    # the file line the report must name (the doctest starts on file line 1): the first line of the
    # offending want for a got/want mismatch, otherwise the doctest line that raised / called failing code
    tl = text.split('\n')
    if kind in ('gotwant', 'exception', 'compile', 'repr'):
        first_src = g.src_lines()[0]
        idx = [i for i, l in enumerate(tl) if l == first_src or l.startswith(first_src + '  #')]
        if len(idx) == 1:
            expect['fail_lineno'] = 1 + idx[0] + (len(g.src_lines()) if kind == 'gotwant' else fail_offset)
    return {'text': text, 'run': {'on_error': on_error, 'verbose': verbose}, 'expect': expect,
            'desc': {'fault': fault, 'pos': pos, 'pre_want': pre_want, 'multi': multi, 'verbose': verbose,
                     'helper_extra': helper_extra, 'own_want': own_want},
            'groups': groups}


# ------------------------------------------------------------------ C09 / C03 / C02: random composites
RANDOM_FAULTS = ['wrong-output', 'wrong-output', 'wrong-output-marker', 'wrong-value', 'exception', 'exception',
                 'exception-nontb', 'exception-wrongtype', 'exception-wrongmsg', 'exception-ignorewant-inline',
                 'called-exception', 'printraise', 'emptyraise', 'falsyraise', 'quietraise', 'callquietraise', 'wrong-eqobj', 'compile', 'badrepr', 'badrepr-stdout', 'tbwant-noraise']


def c09_random(rng):
    """a random program (every plain statement kind, both prompt styles, correct wants of every candidate form, prose
    between parts, statements switched off by an inline SKIP) with ONE fault of a random kind at a random place, and
    now and then a second fault further down (which must never be reached, let alone reported). Expectation by
    construction: failed, the failure kind / exception type / failing line of the FIRST fault, exactly the statements
    before it ran."""
    npre = rng.randint(0, 6)
    npost = rng.randint(0, 4)
    n = npre + 1 + npost
    fault = rng.choice(RANDOM_FAULTS)
    groups = []
    for k in range(n):
        kind = rng.choice(gd.PLAIN_KINDS + ['comment'])
        inline = ['+SKIP'] if (k != npre and kind not in ('comment', 'funcdef') and rng.random() < 0.12) else None
        groups.append(gd.Group(kind, k, style=rng.choice(['new', 'new', 'old']), inline=inline))
    j = npre
    style = rng.choice(['new', 'new', 'old'])
    kind = exc_type = None
    at_want = False
    if fault in ('wrong-output', 'wrong-output-marker'):
        g = gd.Group('print', j, style=style)
        g.want = 'not the output' if fault == 'wrong-output' else '<BLANKLINE>'
        kind, exc_type, at_want = 'gotwant', 'GotWantException', True
    elif fault == 'wrong-value':
        g = gd.Group('expr', j, style=style)
        g.want = 'zzz9'
        kind, exc_type, at_want = 'gotwant', 'GotWantException', True
    elif fault == 'wrong-eqobj':
        g = gd.Group('eqobj', j, style=style)
        g.want = 'E%d' % (j + 1)
        kind, exc_type, at_want = 'gotwant', 'GotWantException', True
    elif fault == 'tbwant-noraise':
        g = gd.Group(rng.choice(['print', 'expr']), j, style=style)
        g.want = exc_want(rng.choice(['exact', 'stack']), 'ValueError', 'm%d' % j)
        kind, exc_type, at_want = 'gotwant', 'GotWantException', True
    elif fault in ('exception', 'exception-nontb', 'exception-wrongtype', 'exception-wrongmsg', 'exception-ignorewant-inline',
                   'called-exception', 'printraise', 'emptyraise', 'falsyraise', 'quietraise', 'callquietraise'):
        ek = {'called-exception': 'callraise', 'printraise': 'printraise', 'emptyraise': 'emptyraise', 'falsyraise': 'falsyraise',
              'quietraise': 'quietraise', 'callquietraise': 'callquietraise'}.get(fault, 'raise')
        g = gd.Group(ek, j, style=style, inline=['+IGNORE_WANT'] if fault == 'exception-ignorewant-inline' else None)
        tname, msg = g.raises
        kind, exc_type = 'exception', tname
        if fault == 'exception-nontb':
            g.want = exc_want(rng.choice(['nontb', 'nontb_dots', 'nontb_hdronly']), tname, msg)
        elif fault == 'exception-ignorewant-inline':
            g.want = 'some expected text'
        elif fault == 'exception-wrongtype':
            g.want = exc_want('wrongtype', tname, msg)
            kind, exc_type, at_want = 'gotwant', 'GotWantException', True
        elif fault == 'exception-wrongmsg':
            g.want = exc_want('wrongmsg', tname, msg)
            kind, exc_type, at_want = 'gotwant', 'GotWantException', True
    elif fault == 'compile':
        g = gd.Group('compileerr', j, style=style)
        kind, exc_type = 'compile', 'SyntaxError'
    elif fault == 'badrepr':
        g = gd.Group('badrepr', j, style=style)
        g.want = 'something'
        kind, exc_type = 'repr', 'ExtractGotReprException'
    elif fault == 'badrepr-stdout':
        g = gd.Group('badreprprint', j, style=style)
        g.want = 'something else'
        kind, exc_type = 'repr', 'ExtractGotReprException'
    groups[j] = g
    second = None
    if npost and rng.random() < 0.4:
        j2 = rng.randrange(j + 1, n)
        second = rng.choice(['wrong-output', 'exception', 'called-exception'])
        if second == 'wrong-output':
            g2 = gd.Group('print', j2)
            g2.want = 'not the output either'
        else:
            g2 = gd.Group('raise' if second == 'exception' else 'callraise', j2)
        groups[j2] = g2
    # correct wants (any candidate form) on some of the statements before the fault; the statements after it carry
    # wants too (never checked: the run stops at the fault), so that the parts split the same way
    ref = gd.reference(groups)
    since = 0
    for i, x in enumerate(groups):
        if i == j or x.want is not None or rng.random() < 0.5:
            if i == j:
                since = j + 1
            continue
        cands = correct_wants(groups, ref, i, since)
        if not cands:
            continue
        x.want = rng.choice(cands)[1]
        since = i + 1
    ran = [x.k for x, r in zip(groups[:j], ref) if r['runs']]
    expect = {'pfs': '010', 'kind': kind, 'exc_type': exc_type, 'render': True, 'fail_group': j,
              'fail_first_line': None if at_want else g.lines[0]}
    if kind != 'compile':
        expect['T'] = ran + [j]
    text = gd.render(groups, rng=rng, sep_prob=0.2)
    tl = text.split('\n')
    first_src = g.src_lines()[0]
    idx = [i for i, l in enumerate(tl) if l == first_src]
    if len(idx) == 1 and kind != 'compile':
        expect['fail_lineno'] = 1 + idx[0] + (len(g.src_lines()) if at_want else 0)
    return {'text': text, 'run': {'on_error': rng.choice(['return', 'return', 'raise']), 'verbose': rng.choice([0, 0, 0, 1, 2, 3])},
            'expect': expect, 'desc': {'family': 'c09_random', 'fault': fault, 'npre': npre, 'npost': npost, 'second': second},
            'groups': groups}

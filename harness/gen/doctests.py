"""
Generator of doctest texts whose behaviour is known BY CONSTRUCTION.

Every executable statement calls the injected function ``t(k)`` exactly once (k = index of the
statement), which appends k to the list ``T`` (the TRACE) and returns k. Helpers injected in the
namespace (see ``make_namespace``): ``pv(k)`` prints ``p<k>`` and returns ``'v<k>'``; ``boom(k)``
raises ``KeyError('b<k>')`` from code outside the doctest; ``bad(k)`` returns an object whose repr
raises; ``badp(k)`` prints ``q<k>`` and returns such an object; ``ext(k)`` raises
``xdoctest.ExitTestException``.

A doctest is a list of ``Group`` objects rendered to text by ``render``. The reference semantics
(which statements run, what each writes, what its value is) is computed by ``reference``, which is
written from the property statements and does not import xdoctest.
"""

UNMET_A = '--xdocverif-unmet-a'
UNMET_B = '--xdocverif-unmet-b'
MET = 'env:XDOCVERIF_MET'      # the harness sets this environment variable


class BadRepr(object):
    def __repr__(self):
        raise RuntimeError('repr raises')


class EmptyProblems(Exception):
    """an exception whose instances are FALSY (a container-like error: len() == 0)"""
    __module__ = 'builtins'

    def __len__(self):
        return 0


class QuietError(Exception):
    """an exception whose instances are falsy through __bool__"""
    __module__ = 'builtins'

    def __bool__(self):
        return False


class NoTruth(object):
    def __bool__(self):
        raise TypeError('the truth value of this comparison is undefined')

    def __repr__(self):
        return '<NoTruth>'


class EqObj(object):
    """a value whose == / != do not return booleans (array- and expression-like objects)"""

    def __init__(self, k):
        self.k = k

    def __eq__(self, other):
        return NoTruth()

    def __ne__(self, other):
        return NoTruth()

    __hash__ = object.__hash__

    def __repr__(self):
        return 'E%d' % self.k


def make_namespace(ns=None):
    import xdoctest
    ns = {} if ns is None else ns
    T = []

    def t(k):
        T.append(k)
        return k

    def pv(k):
        print('p%d' % k)
        return 'v%d' % k

    def boom(k):
        raise KeyError('b%d' % k)

    def bad(k):
        return BadRepr()

    def badp(k):
        print('q%d' % k)
        return BadRepr()

    def ext(k):
        raise xdoctest.ExitTestException()

    async def aw(k):
        return k

    async def agen(k):
        yield k
        yield k + 1

    async def aboom(k):
        raise KeyError('b%d' % k)

    def plong(k):
        # five lines holding the characters that matter to string formatting of a failure report
        print('row %d: 100%% done' % k)
        print('{0} {x} {}')
        print('%s %d %(name)s')
        print('back\\slash \\n')
        print('last line %d' % k)

    def empt(k):
        return EmptyProblems('e%d' % k)

    def quiet(k):
        return QuietError('u%d' % k)

    def boomq(k):
        raise QuietError('u%d' % k)

    ns.update({'empt': empt, 'quiet': quiet, 'boomq': boomq, 'eqo': EqObj})
    ns.update({'plong': plong, 'T': T, 't': t, 'pv': pv, 'boom': boom, 'bad': bad, 'badp': badp, 'ext': ext, 'aw': aw, 'agen': agen, 'aboom': aboom, 'deco': (lambda f: f)})
    return ns, T


# kind -> (lines, stdout, value-repr or None, is_expression, raises (type name, message) or None)
def statement(kind, k):
    if kind == 'assign':
        return ['x%d = t(%d)' % (k, k)], '', None, False, None
    if kind == 'print':
        return ['print(t(%d))' % k], '%d\n' % k, 'None', True, None
    if kind == 'print2':
        return ['print("a%d"); print(t(%d))' % (k, k)], 'a%d\n%d\n' % (k, k), None, False, None
    if kind == 'expr':
        return ['t(%d)' % k], '', '%d' % k, True, None
    if kind == 'strexpr':
        return ['"s%%d" %% t(%d)' % k], '', "'s%d'" % k, True, None
    if kind == 'nlstr':
        # a value whose str() and repr() differ by more than the surrounding quotes
        return ['"a\\nb%%d" %% t(%d)' % k], '', "'a\\nb%d'" % k, True, None
    if kind == 'both':
        return ['pv(t(%d))' % k], 'p%d\n' % k, "'v%d'" % k, True, None
    if kind == 'multi':
        return ['y%d = [t(%d),' % (k, k), '      0]'], '', None, False, None
    if kind == 'multiexpr':
        return ['(t(%d),' % k, ' 1)'], '', '(%d, 1)' % k, True, None
    if kind == 'multiprint':
        return ['print(t(%d),' % k, '      "z")'], '%d z\n' % k, 'None', True, None
    if kind == 'compound':
        return ['if t(%d) >= 0:' % k, '    print("c%d")' % k], 'c%d\n' % k, None, False, None
    if kind == 'funcdef':
        return ['def f%d(a):' % k, '    return a + t(%d)' % k, 'print(f%d(1))' % k], '%d\n' % (k + 1), 'None', True, None
    if kind == 'decorated':
        return ['@deco', 'def g%d(a=t(%d)):' % (k, k), '    return a'], '', None, False, None
    if kind == 'decorated2':
        return ['@deco', '@deco', 'def g%d(a=t(%d)):' % (k, k), '    return a'], '', None, False, None
    if kind == 'decorated3':
        return ['@deco', '@deco', '@deco', 'class G%d(object):' % k, '    v = t(%d)' % k], '', None, False, None
    if kind == 'multicomment':
        # a bracketed statement one of whose continuation lines is a pure comment
        return ['y%d = [t(%d),' % (k, k), '      # a remark inside the brackets', '      0]'], '', None, False, None
    if kind == 'gapmulti':
        # a bracketed statement with an EMPTY line inside
        return ['y%d = [t(%d),' % (k, k), '', '      0]'], '', None, False, None
    if kind == 'gapcompound':
        return ['if t(%d) >= 0:' % k, '', '    print("c%d")' % k], 'c%d\n' % k, None, False, None
    if kind == 'gapclass':
        return ['class D%d(object):' % k, '    v = t(%d)' % k, '', '    w = 1'], '', None, False, None
    if kind == 'csiprint':
        # terminal control sequences that are NOT colour codes (erase line, cursor up, hide cursor): the visible text is what counts
        return ['print("\\x1b[2Kitem %%d\\x1b[1A\\x1b[?25l minimum" %% t(%d))' % k], '\x1b[2Kitem %d\x1b[1A\x1b[?25l minimum\n' % k, 'None', True, None
    if kind == 'plong':
        return ['plong(t(%d))' % k], ('row %d: 100%% done\n{0} {x} {}\n%%s %%d %%(name)s\nback\\slash \\n\nlast line %d\n' % (k, k)), 'None', True, None
    if kind == 'classdef':
        return ['class C%d(object):' % k, '    v = t(%d)' % k], '', None, False, None
    if kind == 'tripstr':
        return ['z%d = """l1' % k, 'l2""" + str(t(%d))' % k], '', None, False, None
    if kind == 'raise':
        return ['raise ValueError("m%%d" %% t(%d))' % k], '', None, False, ('ValueError', 'm%d' % k)
    if kind == 'raisefinally':
        # the raising line sits INSIDE a try/finally: the frame goes on executing the cleanup lines while the exception unwinds
        return ['try:', '    v%d = t(%d) // 0' % (k, k), 'finally:', '    w%d = 2' % k, '    u%d = 3' % k], '', None, False, ('ZeroDivisionError', 'integer division or modulo by zero')
    if kind == 'raisereraise':
        return ['try:', '    v%d = t(%d) // 0' % (k, k), 'except ZeroDivisionError:', '    w%d = 2' % k, '    raise'], '', None, False, ('ZeroDivisionError', 'integer division or modulo by zero')
    if kind == 'printraise':
        return ['print("r%d"); raise ValueError("m%%d" %% t(%d))' % (k, k)], 'r%d\n' % k, None, False, ('ValueError', 'm%d' % k)
    if kind == 'callraise':
        return ['boom(t(%d))' % k], '', None, True, ('KeyError', "'b%d'" % k)
    if kind == 'evalsyntax':
        # a SyntaxError raised AT RUN TIME by called code: format_exception_only gives several lines (file, source, caret), the last one names it
        return ['eval("%%d +" %% t(%d))' % k], '', None, True, ('SyntaxError', 'invalid syntax')
    if kind == 'compileindent':
        return ['c%d = compile("if x:\\npass # %%d" %% t(%d), "<s>", "exec")' % (k, k)], '', None, False, ('IndentationError', "expected an indented block after 'if' statement on line 1")
    if kind == 'awaitcallraise':
        # the exception leaves an AWAITED coroutine, in a statement that is not a bare expression (the part runs as a coroutine in exec mode)
        return ['y%d = await aboom(t(%d))' % (k, k)], '', None, False, ('KeyError', "'b%d'" % k)
    if kind == 'awaitprintraise':
        return ['print("r%d"); await aw(0); raise ValueError("m%%d" %% t(%d))' % (k, k)], 'r%d\n' % k, None, False, ('ValueError', 'm%d' % k)
    if kind == 'falsyraise':
        return ['raise empt(t(%d))' % k], '', None, False, ('EmptyProblems', 'e%d' % k)
    if kind == 'quietraise':
        return ['print("r%d"); raise quiet(t(%d))' % (k, k)], 'r%d\n' % k, None, False, ('QuietError', 'u%d' % k)
    if kind == 'callquietraise':
        return ['boomq(t(%d))' % k], '', None, True, ('QuietError', 'u%d' % k)
    if kind == 'eqobj':
        return ['eqo(t(%d))' % k], '', 'E%d' % k, True, None
    if kind == 'emptyraise':
        return ['t(%d); raise TypeError()' % k], '', None, False, ('TypeError', '')
    if kind == 'comment':
        return ['# comment %d' % k], '', None, False, None
    if kind == 'badrepr':
        return ['bad(t(%d))' % k], '', 'RAISES', True, None
    if kind == 'badreprprint':
        return ['badp(t(%d))' % k], 'q%d\n' % k, 'RAISES', True, None
    if kind == 'exit':
        return ['ext(t(%d))' % k], '', None, True, 'EXIT'
    if kind == 'compileerr':
        return ['return t(%d)' % k], '', None, False, 'COMPILE'
    if kind == 'await':
        return ['w%d = await aw(t(%d))' % (k, k)], '', None, False, None
    if kind == 'awaitexpr':
        return ['await aw(t(%d))' % k], '', '%d' % k, True, None
    raise KeyError(kind)


PLAIN_KINDS = ['assign', 'print', 'expr', 'strexpr', 'nlstr', 'csiprint', 'both', 'multi', 'multiexpr', 'multiprint', 'compound',
               'funcdef', 'tripstr', 'print2', 'eqobj', 'multicomment']


class Group(object):
    """one statement (or a block directive line) with optional inline directives and want"""

    def __init__(self, kind, k, style='new', want=None, inline=None, block=None, inline_line=0):
        self.kind = kind          # statement kind or 'block'
        self.k = k
        self.style = style        # 'new' (>>> everywhere), 'old' (... continuations)
        self.want = want          # text or None
        self.inline = inline or []    # list of directive strings, e.g. ['+SKIP']
        self.block = block        # for kind == 'block': list of directive strings
        self.inline_line = inline_line
        if kind != 'block':
            self.lines, self.out, self.val, self.is_expr, self.raises = statement(kind, k)
        if kind in ('gapcompound', 'gapclass'):
            # an empty `...` line ends a compound statement in REPL (old-style) syntax; only the
            # all-`>>>` style can carry an empty line inside a block
            self.style = 'new'
        if kind == 'multiexpr':
            # an old-style continuation directly followed by a want is compiled in 'single' mode,
            # which echoes the value to stdout (REPL semantics, covered by C20); keep the new style
            self.style = 'new'

    @property
    def final_line(self):
        """first line of the LAST statement of the group"""
        return self.lines[-1] if self.kind == 'funcdef' else self.lines[0]

    # the directive prefix is matched case-insensitively and has four spellings (x?doctest / x?doc)
    PREFIXES = ['xdoctest', 'xdoctest', 'doctest', 'xdoc', 'XDOCTEST', 'XDoc', 'DocTest', 'xDocTest', 'DOC']

    def _prefix(self, dirs):
        return self.PREFIXES[(sum(map(ord, ''.join(dirs))) + self.k) % len(self.PREFIXES)]

    def src_lines(self):
        if self.kind == 'block':
            return ['>>> # %s: ' % self._prefix(self.block) + ', '.join(self.block)]
        out = []
        for i, l in enumerate(self.lines):
            if self.kind == 'tripstr' and i > 0 and self.style == 'bare':
                out.append(l)
                continue
            pre = '>>> ' if (i == 0 or self.style == 'new') else '... '
            if self.kind == 'funcdef' and i == len(self.lines) - 1:
                pre = '>>> '       # the call is a statement of its own
            out.append(pre + l)
        if self.inline:
            j = min(self.inline_line, len(out) - 1)
            if self.kind == 'tripstr':
                j = len(out) - 1   # never inside the string literal
            if self.lines[j].lstrip().startswith('#'):
                j = 0              # (a directive is only seen at the START of a comment, K-C20-l: never after a remark)
            out[j] = out[j] + '  # %s: ' % self._prefix(self.inline) + ', '.join(self.inline)
        return out

    def describe(self):
        d = {'kind': self.kind, 'k': self.k}
        if self.want is not None:
            d['want'] = self.want
        if self.inline:
            d['inline'] = self.inline
        if self.block:
            d['block'] = self.block
        return d


def render(groups, indent='', sep_prob=None, rng=None, header=None):
    """text of the docstring; separators (blank line + prose) may be inserted between groups that
    are followed by a want or at random"""
    lines = []
    if header:
        lines.extend(header)
    for gi, g in enumerate(groups):
        for l in g.src_lines():
            lines.append(indent + l)
        if g.kind != 'block' and g.want is not None:
            for l in g.want.split('\n'):
                lines.append(indent + l)
        if rng is not None and sep_prob and rng.random() < sep_prob and gi + 1 < len(groups):
            lines.append('')
            if rng.random() < 0.5:
                lines.append(indent + 'some prose here')
                lines.append('')
    return '\n'.join(lines) + '\n'


class State(object):
    def __init__(self, skip=False, req=()):
        self.skip = skip
        self.req = set(req)

    def copy(self):
        return State(self.skip, self.req)

    def apply(self, dstr, met=(MET,)):
        d = dstr.replace(' ', '')
        pos = not d.startswith('-')
        name = d.lstrip('+-')
        arg = None
        if '(' in name:
            name, arg = name[:name.index('(')], name[name.index('(') + 1:name.index(')')]
        name = name.upper()
        if name == 'SKIP':
            self.skip = pos
        elif name == 'REQUIRES':
            for a in arg.split(','):
                if a in met:
                    continue
                if pos:
                    self.req.add(a)
                else:
                    self.req.discard(a)
        # other directives do not influence what runs

    @property
    def ok(self):
        return not self.skip and not self.req


def reference(groups, default_skip=False):
    """the three-line specification of C04 plus the output bookkeeping of C02:
    returns list of per-group dicts {runs, out, val, raises}"""
    st = State(skip=default_skip)
    res = []
    for g in groups:
        if g.kind == 'block':
            for d in g.block:
                st.apply(d)
            res.append({'runs': False, 'block': True})
            continue
        loc = st.copy()
        for d in g.inline:
            loc.apply(d)
        runs = loc.ok and g.kind != 'comment'
        res.append({'runs': runs, 'block': False, 'out': g.out, 'val': g.val, 'raises': g.raises,
                    'is_expr': g.is_expr})
    return res

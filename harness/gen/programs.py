"""
Generator of doctest PROGRAMS for C01 / C18 / C19: a list of statements from the statement grammar of
DESIGN.md (C01), rendered as a docstring under a prompt style, an indentation and a placement of wants,
blank lines and prose. Everything the checks need is known BY CONSTRUCTION or from an independent
reference execution (plain ``exec`` of the de-prompted program; no xdoctest code involved):

* ``program_lines``  the de-prompted source lines, in order (what must be executed, each once)
* every statement calls ``t(k)`` exactly once (TRACE) — comments and directive lines never
* ``doc_lines``      the docstring lines; ``line_of[j]`` = docstring line index of program line j
"""
import ast
import asyncio
import contextlib
import inspect
import io
import random
import warnings

from . import doctests as gd

# kind -> (lines, is_expr)   ; stdout / values come from the reference execution
def stmt_lines(kind, k, ref=None):
    if kind == 'skipcomment':
        # as FIRST line it disables the doctest under pytest only; the native runner and `dump` keep it
        return ['# pytest.skip is not needed here']
    if kind == 'kwcomment':
        # an ordinary comment that merely STARTS with a word which, on the FIRST line only, disables a doctest
        return ['# %s inputs are reported below (%d)' % (['failing', 'Disable', 'script', 'UNSTABLE', 'slow_doctest'][k % 5], k)]
    if kind == 'compoundraise':
        return ['if t(%d) >= 0:' % k, '    print("r%d")' % k, '    raise ValueError("m%d")' % k]
    # helpers whose BODY must never run unless the program drives them (it never does): the body records -1-k
    if kind == 'corodef':
        return ['async def cf%d(a=t(%d)):' % (k, k), '    T.append(-1 - %d)' % k, '    print("coro body %d")' % k, '    return a']
    if kind == 'gendef':
        return ['def gf%d(a=t(%d)):' % (k, k), '    T.append(-1 - %d)' % k, '    print("gen body %d")' % k, '    yield a']
    if kind == 'agendef':
        return ['async def ag%d(a=t(%d)):' % (k, k), '    T.append(-1 - %d)' % k, '    print("agen body %d")' % k, '    yield a']
    if kind == 'awaitabledef':
        return ['class AW%d(object):' % k, '    v = t(%d)' % k, '    def __await__(self):', '        T.append(-1 - %d)' % k,
                '        return iter(())', '    def __call__(self):', '        T.append(-2 - %d)' % k, '        return 0']
    # expression statements whose VALUE is a coroutine / generator / async generator / awaitable / callable
    if kind == 'corocall':
        return ['cf%d(t(%d))' % (ref, k)]
    if kind == 'gencall':
        return ['gf%d(t(%d))' % (ref, k)]
    if kind == 'agencall':
        return ['ag%d(t(%d))' % (ref, k)]
    if kind == 'awaitableval':
        return ['AW%d() if t(%d) >= 0 else None' % (ref, k)]
    if kind == 'funcvalue':
        return ['cf%d if t(%d) >= 0 else None' % (ref, k)]
    if kind == 'lambdavalue':
        return ['(lambda: T.append(-1 - %d)) if t(%d) >= 0 else None' % (k, k)]
    if kind == 'backslash':
        return ['b%d = t(%d) + \\' % (k, k), '    1']
    if kind == 'semicolon':
        return ['a%d = t(%d); c%d = 2' % (k, k, k)]
    if kind == 'forloop':
        return ['for i%d in range(2):' % k, '    q%d = t(%d) if i%d == 0 else 0' % (k, k, k)]
    if kind == 'lambda':
        return ['lam%d = (lambda a:' % k, '    a + t(%d))(1)' % k]
    if kind == 'multicomment':
        return ['m%d = [t(%d),' % (k, k), '      # inner comment', '      0]']
    if kind == 'decorated2':
        return ['@deco', '@deco', 'def g%d(a=t(%d)):' % (k, k), '    return a']
    if kind == 'multicomment0':
        return ['mc%d = [t(%d),' % (k, k), '# comment at column 0, inside the brackets', '      0]']
    if kind == 'asyncdef':
        return ['async def h%d(a=t(%d)):' % (k, k), '    return a']
    if kind == 'deffn':
        return ['def d%d(a=t(%d)):' % (k, k), '    return a']
    if kind == 'with':
        return ['with open(__file__) if False else memoryview(b"x") as mv%d:' % k, '    wv%d = t(%d)' % (k, k)]
    if kind == 'dictml':
        return ['dd%d = {' % k, '    "a": t(%d),' % k, '}']
    if kind == 'tripbare':
        return ['zb%d = """l1' % k, 'l2""" + str(t(%d))' % k]
    if kind == 'asynccomp':
        # an async comprehension at the top level of a part, with no `await` / `async for` / `async with` STATEMENT next to it:
        # the part still compiles to a coroutine and must be driven to completion
        return ['ac%d = [x + 1 async for x in agen(t(%d))]' % (k, k)]
    if kind == 'asyncdictcomp':
        return ['ad%d = {x: len([y async for y in agen(x)]) async for x in agen(t(%d))}' % (k, k)]
    if kind == 'crprint':
        # output with carriage returns (a progress line, a CRLF record): recorded exactly as written
        return ['cr%d = print("p%%d\\rq" %% t(%d), end="\\r\\n")' % (k, k)]
    if kind == 'tripws':
        # a line of a string literal that ENDS IN BLANKS (significant: they are part of the value)
        return ['zw%d = """l1   ' % k, 'l2""" + str(t(%d))' % k]
    if kind == 'starimport':
        # a third of them carry something after the star (a linter remark, a directive): still a star import
        tail = ['', '', '  # NOQA', '', '', '  # xdoctest: +ELLIPSIS'][(k * 7 + 3) % 6]
        return ['from %s import *%s' % (['os.path', 'math', 'string'][k % 3], tail)]
    if kind == 'directive':
        return ['# xdoctest: +ELLIPSIS']
    return gd.statement(kind, k)[0]


# call kind -> the helper it needs
DEF_FOR = {'corocall': 'corodef', 'gencall': 'gendef', 'agencall': 'agendef', 'awaitableval': 'awaitabledef',
           'funcvalue': 'corodef'}
VALUE_KINDS = set(DEF_FOR) | {'lambdavalue'}


def value_want(s):
    """the repr of the value of an expression statement, with the address left to the ellipsis"""
    k, r = s.k, s.ref
    return {'expr': '%d' % k, 'strexpr': "'s%d'" % k, 'multiexpr': '(%d, 1)' % k, 'awaitexpr': '%d' % k,
            'corocall': '<coroutine object cf%s at ...>' % r, 'gencall': '<generator object gf%s at ...>' % r,
            'agencall': '<async_generator object ag%s at ...>' % r, 'awaitableval': '<...AW%s object at ...>' % r,
            'funcvalue': '<function cf%s at ...>' % r, 'lambdavalue': '<function <lambda> at ...>'}.get(s.kind)


EXPR_KINDS = {'print', 'expr', 'strexpr', 'both', 'multiexpr', 'multiprint', 'awaitexpr'} | VALUE_KINDS
SINGLE_LINE = {'kwcomment', 'skipcomment', 'raise', 'printraise', 'callraise', 'assign', 'print', 'expr', 'strexpr', 'both', 'print2', 'semicolon', 'await', 'awaitexpr', 'asynccomp', 'asyncdictcomp', 'crprint', 'comment',
               'starimport', 'directive'} | VALUE_KINDS
COMPOUND = {'compoundraise', 'compound', 'forloop', 'classdef', 'decorated', 'decorated2', 'asyncdef', 'deffn', 'with', 'corodef', 'gendef', 'agendef',
            'awaitabledef'}
NO_TRACE = {'comment', 'kwcomment', 'skipcomment', 'starimport', 'directive'}
# statements that RAISE (some after writing): kind -> last line of format_exception_only
RAISE_KINDS = {'raise': 'ValueError: m%d', 'printraise': 'ValueError: m%d', 'callraise': "KeyError: 'b%d'",
               'compoundraise': 'ValueError: m%d'}


def traceback_want(s):
    return ['Traceback (most recent call last):', '    ...', RAISE_KINDS[s.kind] % s.k]
KINDS = ['assign', 'print', 'expr', 'strexpr', 'both', 'multi', 'multiexpr', 'multiprint', 'compound', 'decorated',
         'classdef', 'tripstr', 'tripbare', 'print2', 'backslash', 'semicolon', 'forloop', 'lambda', 'multicomment',
         'asyncdef', 'deffn', 'dictml', 'await', 'awaitexpr', 'comment', 'kwcomment', 'with', 'multicomment0', 'decorated2',
         'corocall', 'gencall', 'agencall', 'awaitableval', 'funcvalue', 'lambdavalue', 'tripws', 'asynccomp', 'asyncdictcomp']
ASYNC_KINDS = {'await', 'awaitexpr', 'asynccomp', 'asyncdictcomp'}
# an inline directive sits on the statement's only line, or on the FIRST line of a multi-line one (e.g. a decorator)
INLINE_OK = {'assign', 'print', 'expr', 'semicolon', 'multi', 'decorated', 'decorated2', 'compound', 'classdef', 'deffn', 'asyncdef',
             'multiexpr', 'multiprint', 'dictml', 'forloop', 'corodef', 'corocall', 'gencall'}


class Stmt(object):
    def __init__(self, kind, k, style='new', terminator=False, inline=None, ref=None, shift=0, cont=False):
        self.kind = kind
        self.k = k
        self.ref = ref                # index of the helper a value kind uses
        self.shift = shift            # extra blanks before this statement's lines (and its want)
        self.cont = cont              # the statement STARTS on a `... ` line (explicit PS2: stays with what precedes it)
        self.style = style            # new | old | bare (tripstr/tripbare only)
        self.terminator = terminator  # bare '...' line after a compound statement (old style)
        self.inline = inline          # directive text appended to a single-line statement
        self.lines = stmt_lines(kind, k, ref)
        self.is_expr = kind in EXPR_KINDS
        self.want = None              # list of want lines
        self.sep = None               # None | 'blank' | 'prose' | 'shallow' : what follows (after the want)

    def exec_lines(self):
        ls = list(self.lines)
        if self.inline:
            ls[-1 if self.kind in SINGLE_LINE else 0] += '  # xdoctest: ' + self.inline
        if self.terminator:
            ls.append('')
        return ls

    def prompt_lines(self):
        """(prefix-with-prompt, is_unprefixed) per exec line"""
        out = []
        ex = self.exec_lines()
        for i, l in enumerate(ex):
            if self.terminator and i == len(ex) - 1:
                out.append(('...', False))
            elif self.cont and not (self.style == 'bare' and i > 0):
                out.append(('... ' + l, False))
            elif i == 0 or self.style == 'new':
                out.append(('>>> ' + l, False))
            elif self.style == 'bare' and self.kind in ('tripstr', 'tripbare'):
                out.append((l, True))
            else:
                out.append(('... ' + l, False))
        return out

    def describe(self):
        d = {'kind': self.kind, 'k': self.k, 'style': self.style}
        if self.want is not None:
            d['want'] = self.want
        if self.sep:
            d['sep'] = self.sep
        if self.terminator:
            d['terminator'] = True
        if self.inline:
            d['inline'] = self.inline
        if self.ref is not None:
            d['ref'] = self.ref
        if self.shift:
            d['shift'] = self.shift
        if self.cont:
            d['cont'] = True
        return d

    @staticmethod
    def from_desc(sd):
        s = Stmt(sd['kind'], sd['k'], sd.get('style', 'new'), sd.get('terminator', False), sd.get('inline'),
                 sd.get('ref'), sd.get('shift', 0), sd.get('cont', False))
        s.want = sd.get('want')
        s.sep = sd.get('sep')
        return s


class Program(object):
    def __init__(self, stmts, indent='', header=None):
        self.stmts = stmts
        self.indent = indent       # string of blanks and/or tabs put before every docstring line
        self.header = header or []
        self.preset = None         # {name: value}: globals of the MODULE the doctest belongs to (None: a bare docstring)

    @property
    def program_lines(self):
        return [l for s in self.stmts for l in s.exec_lines()]

    @property
    def source(self):
        return '\n'.join(self.program_lines) + '\n'

    def has_raise(self):
        return any(s.kind in RAISE_KINDS for s in self.stmts)

    def unexpected_raise(self):
        """index of the first raising statement without a traceback want (the doctest must fail there), or None"""
        for i, s in enumerate(self.stmts):
            if s.kind in RAISE_KINDS and s.want is None:
                return i
        return None

    def uses_await(self):
        return any(s.kind in ASYNC_KINDS for s in self.stmts)

    def render(self):
        """returns (docstring text, line_of: program line index -> docstring line index,
        stmt_first: per statement the program line index of its first line)"""
        doc = list(self.header)
        line_of = []
        stmt_first = []
        n = 0
        for s in self.stmts:
            stmt_first.append(n)
            ind = self.indent + ' ' * s.shift
            for txt, _bare in s.prompt_lines():
                line_of.append(len(doc))
                doc.append(ind + txt)
                n += 1
            if s.want is not None:
                for w in s.want:
                    doc.append(ind + w)
            if s.sep == 'shallow':
                # prose DIRECTLY after the source/want lines, at a smaller indentation than the example
                doc.append('Prose at column zero.')
            elif s.sep == 'blank':
                doc.append('')
            elif s.sep == 'prose':
                doc.append('')
                doc.append(ind + 'Some prose about the next lines.')
                doc.append('')
        return '\n'.join(doc) + '\n', line_of, stmt_first

    def describe(self):
        d = {'indent': self.indent, 'header': self.header, 'stmts': [s.describe() for s in self.stmts]}
        if self.preset:
            d['preset'] = self.preset
        return d

    @staticmethod
    def from_desc(d):
        p = Program([Stmt.from_desc(sd) for sd in d['stmts']], d['indent'], d['header'])
        p.preset = d.get('preset')
        return p

    def column(self, s):
        """column of the prompts of statement s"""
        return len((self.indent + ' ' * s.shift).expandtabs())


# ------------------------------------------------------------------------------- reference execution
def reference(source, uses_await=False, preset=None):
    """plain execution of the de-prompted program: (TRACE, stdout, bindings, error-or-None); `preset`: names that exist
    before the program starts (the globals of the module a doctest belongs to): the program may rebind them"""
    ns, T = gd.make_namespace({})
    ns['__file__'] = '<ref>'
    injected = set(ns)
    if preset:
        ns.update(preset)
    buf = io.StringIO()
    err = None
    with warnings.catch_warnings():
        warnings.simplefilter('ignore')     # "coroutine ... was never awaited": the program never awaits it, on purpose
        try:
            flags = ast.PyCF_ALLOW_TOP_LEVEL_AWAIT if uses_await else 0
            code = compile(source, '<reference>', 'exec', flags=flags, dont_inherit=True)
            with contextlib.redirect_stdout(buf):
                if code.co_flags & inspect.CO_COROUTINE:
                    asyncio.run(eval(code, ns))
                else:
                    exec(code, ns)
        except BaseException as ex:   # noqa
            err = '%s: %s' % (type(ex).__name__, ex)
    return list(T), buf.getvalue(), canon_bindings(ns, injected), err


def reference_stmtwise(prog):
    """for programs with raising statements: the statements executed one after the other in ONE dict, an exception of
    a statement that carries a traceback want is caught and execution goes on, any other ends it.
    returns (TRACE, stdout, bindings, error-or-None, stdout per statement ('' for statements never reached))"""
    ns, T = gd.make_namespace({})
    ns['__file__'] = '<ref>'
    injected = set(ns)
    if getattr(prog, 'preset', None):
        ns.update(prog.preset)
    outs = []
    err = None
    stopped = False
    with warnings.catch_warnings():
        warnings.simplefilter('ignore')
        for s in prog.stmts:
            if stopped:
                outs.append('')
                continue
            buf = io.StringIO()
            try:
                flags = ast.PyCF_ALLOW_TOP_LEVEL_AWAIT if s.kind in ASYNC_KINDS else 0
                code = compile('\n'.join(s.exec_lines()) + '\n', '<reference>', 'exec', flags=flags, dont_inherit=True)
                with contextlib.redirect_stdout(buf):
                    if code.co_flags & inspect.CO_COROUTINE:
                        asyncio.run(eval(code, ns))
                    else:
                        exec(code, ns)
            except Exception as ex:
                if s.kind in RAISE_KINDS:
                    stopped = s.want is None
                else:
                    err = '%s: %s' % (type(ex).__name__, ex)
                    stopped = True
            outs.append(buf.getvalue())
    return list(T), ''.join(outs), canon_bindings(ns, injected), err, outs


def reference_prog(prog):
    """(TRACE, stdout, bindings, error) of the plain program"""
    if prog.has_raise():
        return reference_stmtwise(prog)[:4]
    return reference(prog.source, prog.uses_await(), getattr(prog, 'preset', None))


def canon_bindings(ns, injected=()):
    out = {}
    for k, v in ns.items():
        if k in injected or k.startswith('__'):
            continue
        if isinstance(v, (int, str, float, tuple, list, dict, bytes, type(None), bool)):
            out[k] = repr(v)
        elif inspect.isclass(v):
            out[k] = 'class:' + v.__name__
        elif callable(v):
            out[k] = 'callable:' + getattr(v, '__name__', '?')
        else:
            out[k] = 'obj:' + type(v).__name__
    return out


def per_statement_stdout(prog):
    """stdout written by each statement alone, from the cumulative reference execution of prefixes"""
    if prog.has_raise():
        r = reference_stmtwise(prog)
        return [None] * len(prog.stmts) if r[3] else r[4]
    outs = []
    prev = ''
    lines = []
    ua = prog.uses_await()
    for s in prog.stmts:
        lines.extend(s.exec_lines())
        _T, out, _b, err = reference('\n'.join(lines) + '\n', ua)
        outs.append(out[len(prev):] if err is None else None)
        prev = out
    return outs


# ------------------------------------------------------------------------------- random programs
IGNORE_TAGS = ['DisableDoctest:', 'DisableExample:', 'SkipDoctest:', 'Ignore:', 'Script:', 'Benchmark:', 'Sympy:']


def ignored_block_header(rng):
    """text before the doctest that holds a block the freeform collector documents as NOT a doctest (source lines
    AND want lines, none of which is executed or displayed), closed by a line of prose"""
    tag = rng.choice(IGNORE_TAGS)
    if rng.random() < 0.3:
        tag = tag.lower()
    out = ['Summary line.', '', tag]
    for i in range(rng.randint(1, 2)):
        out.append('    >>> not_run_%d()' % i)
        for j in range(rng.randint(0, 3)):
            out.append('    ignored output %d' % j)
    r = rng.random()
    if r < 0.35:
        # the block is closed by blank line(s) ONLY: what follows is ordinary doctest code again
        out.extend([''] * rng.randint(1, 2))
        return out
    if r < 0.7:
        out.append('')
    out.append('Usage text.')
    return out


def gen_program(rng, max_len=7, allow_await=True, allow_star=False, allow_directive=True, wants=True, allow_raise=True):
    n = rng.randint(1, max_len)
    kinds = list(KINDS)
    if not allow_await:
        kinds = [x for x in kinds if x not in ASYNC_KINDS and x != 'asyncdef']
    if allow_star:
        kinds = kinds + ['starimport', 'starimport']
    if allow_directive:
        kinds = kinds + ['directive']
    if allow_raise and rng.random() < 0.35:
        kinds = kinds + ['printraise', 'printraise', 'compoundraise', 'raise', 'callraise']
    stmts = []
    while len(stmts) < n:
        kind = rng.choice(kinds)
        ref = None
        if kind in DEF_FOR:
            have = [x.k for x in stmts if x.kind == DEF_FOR[kind]]
            if not have or rng.random() < 0.2:
                stmts.append(Stmt(DEF_FOR[kind], len(stmts), rng.choice(['new', 'old'])))
                have = [stmts[-1].k]
            ref = have[-1]
        k = len(stmts)
        style = rng.choice(['new', 'old', 'old'])
        if kind in ('tripstr', 'tripbare') and rng.random() < 0.5:
            style = 'bare'
        term = (kind in COMPOUND and style == 'old' and rng.random() < 0.3)
        inline = None
        if allow_directive and kind in INLINE_OK and rng.random() < 0.12:
            inline = rng.choice(['+ELLIPSIS', '+NORMALIZE_WHITESPACE', '-IGNORE_WANT'])
        stmts.append(Stmt(kind, k, style, term, inline, ref))
    # a raising statement is EXPECTED (traceback want, the doctest goes on) or, as last statement, unexpected
    for i, st in enumerate(stmts):
        if st.kind in RAISE_KINDS:
            st.terminator = False
            if rng.random() < 0.8:
                st.want = traceback_want(st)
            else:
                del stmts[i + 1:]
                break
    # never start with something that disables the whole doctest / is not a statement
    if stmts[0].kind in ('comment', 'kwcomment', 'directive'):
        stmts[0] = Stmt('assign', 0, 'new')
    indent = rng.choice(['', '', '    ', '  ', '\t', '        ', '    \t'])
    header = rng.choice([[], [], ['Some text first.', ''], ['Example:']]) if indent else rng.choice([[], ['Intro text.', '']])
    if header == ['Example:'] and not indent.strip(' ') == '':
        header = []
    if rng.random() < 0.2:
        header = ignored_block_header(rng)
    if rng.random() < 0.06:
        stmts.insert(0, Stmt('skipcomment', 1000, 'new'))
    prog = Program(stmts, indent, header)
    if wants:
        place_wants(prog, rng)
    if rng.random() < 0.25 and not prog.has_raise():
        # the doctest belongs to a MODULE whose globals already hold every name the program binds (and two it does not):
        # rebinding / shadowing a module-level name must behave as in the plain program, in every later part as well
        try:
            bound = reference(prog.source, prog.uses_await())[2]
        except Exception:
            bound = {}
        prog.preset = dict(('%s' % k, 'module-level %s' % k) for k in bound)
        prog.preset.update({'modonly_a': 1, 'modonly_b': 'two'})
    return prog


SHIFTS = [0, 0, 1, 2, 3, 4, 8]


def place_wants(prog, rng, prob=0.45, layout=True):
    """attach CORRECT wants (from the reference execution), separators and — where a new example may
    legitimately start at another column: after a want, a blank line or prose — indentation shifts"""
    outs = per_statement_stdout(prog)
    if any(o is None for o in outs):
        return False
    acc = ''
    nst = len(prog.stmts)
    shift = rng.choice(SHIFTS) if layout else 0
    boundary = True
    for i, (s, o) in enumerate(zip(prog.stmts, outs)):
        if layout and i > 0 and boundary and rng.random() < 0.45:
            shift = rng.choice(SHIFTS)
        s.shift = shift
        last = (i == nst - 1)
        seps = ['blank', 'prose'] + (['shallow'] if (layout and prog.column(s) > 0) else [])
        if s.kind in RAISE_KINDS:
            # an expected exception (traceback want, set by gen_program): what its part wrote is logged for the part
            # but is not compared with any want
            s.sep = rng.choice([None, None] + seps) if (not last and s.want is not None) else None
            boundary = True
            # output of earlier statements of the SAME part is logged with it and never offered to a later want
            acc = ''
            continue
        acc += o
        if s.kind in NO_TRACE:
            boundary = False
            if not last and rng.random() < 0.2:
                s.sep = rng.choice(seps)
                boundary = True
            continue
        if rng.random() < prob and not s.terminator:
            want = None
            if '\r' in acc:
                pass      # (a carriage return cannot be written into a docstring line: no want is placed after such output)
            elif acc.strip() and '\n\n' not in acc.strip('\n') and not acc.startswith('\n'):
                want = acc.rstrip('\n').split('\n')
            elif not acc and value_want(s) is not None:
                want = [value_want(s)]
            if want is not None and all(w.strip() and not w.lstrip().startswith(('>>>', '...')) for w in want):
                if s.kind == 'multiexpr' or (s.style == 'bare'):
                    # an old-style continuation chunk with a want is compiled in 'single' mode (REPL echo of
                    # the value: C20); an unprefixed string line directly before a want is ambiguous
                    s.style = 'new'
                if layout and rng.random() < 0.15:
                    # a want may end in, or be, the ellipsis; as FIRST want line it is a want only after a
                    # `>>> ` line (after a `... ` line it is a statement terminator)
                    if len(want) >= 2:
                        want = want[:-1] + ['...']
                    elif s.style == 'new' or len(s.lines) == 1:
                        want = ['...']
                s.want = want
                acc = ''
        if s.want is not None:
            s.sep = rng.choice([None, None] + seps) if not last else None
        elif not last and rng.random() < 0.25 and s.style != 'bare':
            s.sep = rng.choice(seps)
        boundary = (s.want is not None) or (s.sep is not None)
    if layout:
        # a NEW statement written on `... ` lines (old doctest habit): it stays in the part of the preceding lines.
        # Only in the middle of a chunk that has a later `>>> ` line, otherwise the chunk would be compiled in
        # 'single' mode (REPL echo, C20)
        st = prog.stmts
        for i in range(1, nst - 1):
            a, b, c = st[i - 1], st[i], st[i + 1]
            if (a.want is None and a.sep is None and not a.terminator and a.kind not in NO_TRACE and a.style != 'bare'
                    and not a.cont and b.want is None and b.sep is None and not b.terminator and b.kind not in NO_TRACE
                    and b.style != 'bare' and not b.inline and b.shift == a.shift == c.shift and rng.random() < 0.15):
                b.cont = True
    return True

"""
Grammar of docstrings assembled from labelled building blocks (C13, C14).

`gen_docstring(rng)` returns `(text, expected, meta)`: `expected` is the list of `(kind, line)` the labeller is
meant to see, one entry per line of the tab-expanded, commonly de-indented docstring, `kind` in
{'text', 'src', 'want'}; for a source line touched by the triple-quote hack `line` is the line WITH the
inserted '... ' and the entry has a third element `'hack'`. Nothing here imports xdoctest: the intended
kinds follow from the wording of the property:

* source = the prompt-prefixed lines plus the lines needed to complete a statement they open;
* want   = the non-blank lines that follow source up to the first blank line, de-indented line or prompt;
* text   = everything else.

Side conditions of the grammar (each is a place where the property sentence would be ambiguous):
a prose block never directly follows source or want at the same or a deeper indentation (it would BE
a want); the first line of a want is not `...`-prefixed unless it is a bare `...` after a `>>>` line;
a bare `...` source line only follows a `... ` line (of a compound, bracketed or triple-quoted statement);
within one statement `>>> ` completion lines may follow `... ` ones but not the other way round (K-C13-b); a want line never starts with `>>>`.

`fuzz_docstring(rng)` produces malformed text from a grammar of prompt fragments, brackets, quotes,
backslashes, directive fragments, control characters and keywords (C14), and `mutate(rng, text)`
damages a well-formed docstring.
"""

PROSE = ['Some narrative text.', 'Args:', '    x (int): a number', 'Returns:', 'more words here',
         'Example:', 'Notes about ... things', 'a line with a # hash', 'CommandLine:', 'see `foo(1, 2)`',
         'text, with (parens', "it's quoted", 'Ignore:', '1 + 1 = 2', '>> not a prompt', '.. rst directive::']

SIMPLE = ['x = 1', 'print(x)', 'f(1, 2)', "s = 'a # b'", 'y = [1, 2]  # comment', "z = {'a': (1, 2)}",
          "'''one line'''", 'a = 1; b = 2', 'x', '"text"', 'import os', 'del x', 'assert x == 1',
          '# just a comment', 'print("...")', 'x = 1  # xdoctest: +SKIP', '# xdoctest: +ELLIPSIS']
# the final statement of the chunk decides eval/exec; both kinds occur in SIMPLE

MULTI = [
    ['x = [1,', '     2,', '     3]'],
    ['print(1,', '      2)'],
    ['d = {', "    'k': (1,", '          2),', '}'],
    ['f(', ')'],
    ['y = (1 +', '     2)'],
]
TRIPLE = [
    ["s = '''", 'text line', "more'''"],
    ['t = """first', '    indented body', 'last"""'],
    ["print('''a", "b''')"],
    ["'''", '    this wont hurt the test at all', "    even though its multiline '''"],
]
COMPOUND = [
    ['for i in range(2):', '    print(i)'],
    ['if x:', '    y = 1', 'else:', '    y = 2'],
    ['def g():', '    return 1'],
    ['@deco', 'def h():', '    return 2'],
    ['class A:', '    v = 1'],
    ['with open(p) as f:', '    pass'],
    ['x = 1 + \\', '    2'],
]
WANTS = ['1', '[1, 2]', 'text with words', '<BLANKLINE>', 'Traceback (most recent call last):',
         'KeyError: 1', "'v1'", '    deeper output', 'out ... put', '(1,', ' 2)', 'x = 1', '# not a comment',
         '.. dotted', '....', '>> x']


def _statement(rng):
    """returns (exec lines, kind) ; kind in simple|multi|triple|compound"""
    r = rng.random()
    if r < 0.5:
        return [rng.choice(SIMPLE)], 'simple'
    if r < 0.7:
        return list(rng.choice(MULTI)), 'multi'
    if r < 0.82:
        return list(rng.choice(TRIPLE)), 'triple'
    return list(rng.choice(COMPOUND)), 'compound'


def _needs_hack(text):
    """documented quirk of `_complete_source`: an unprefixed line inside a triple-quoted string gets a
    `... ` prompt inserted unless its first four characters are blank (then they ARE the prompt)"""
    return text[:4].strip() not in ('', '>>>', '...')


def _prompted(rng, lines, kind):
    """returns list of (prompted line, is_ps2, hack) for one statement"""
    style = rng.choice(['ps1', 'ps2', 'ps2'] if len(lines) > 1 else ['ps1'])
    if kind in ('multi', 'triple') and len(lines) >= 3 and rng.random() < 0.25:
        style = 'ps21'      # `>>> ` opens, `... ` lines, then `>>> ` lines complete the SAME statement
    out = []
    needs = [_needs_hack(l) for l in lines[1:]]
    # mixing blank-prefixed and unprefixed continuation lines in one statement is excluded (K-C13-b)
    if kind == 'triple' and len(lines) > 1 and (all(needs) or not any(needs)) and rng.random() < 0.5:
        # unprefixed continuation lines inside the string: the parser inserts '... ' itself
        out.append(('>>> ' + lines[0], False, False))
        for l in lines[1:]:
            out.append((l, True, True))
        return out, 'hack'
    if style == 'ps21':
        k = rng.randint(1, len(lines) - 2)      # lines 1..k carry `... `, the rest `>>> `
        for i, l in enumerate(lines):
            if i == 0:
                out.append(('>>> ' + l, False, False))
            elif i <= k:
                out.append(('... ' + l, True, False))
            else:
                # still the statement that was continued with `... `: what follows it follows a continuation
                out.append(('>>> ' + l, True, False))
        return out, style
    for i, l in enumerate(lines):
        if i == 0 or style == 'ps1':
            out.append((('>>> ' + l) if l else '>>>', False, False))
        else:
            out.append((('... ' + l) if l else '...', True, False))
    if style == 'ps2' and ((kind == 'compound' and rng.random() < 0.4) or (kind in ('multi', 'triple') and rng.random() < 0.3)):
        out.append(('...', True, False))     # bare terminator after a `... ` line
    return out, style


def gen_docstring(rng, max_blocks=6, allow_offside_prompt=False):
    """returns (text, expected, meta)"""
    rel = []      # (kind, line[, 'hack'])   relative to the base indentation
    n_blocks = rng.randint(1, max_blocks)
    prev = 'start'          # start | prose | blank | src | want
    prev_indent = 0
    meta = {'examples': 0, 'wants': 0, 'hack': 0, 'styles': set(), 'offside_prompt': False}
    for b in range(n_blocks):
        kind = rng.choice(['prose', 'example', 'example', 'blank'])
        if b == 0 and kind == 'blank':
            kind = 'prose'
        if kind == 'blank':
            for _ in range(rng.randint(1, 2)):
                rel.append(('text', rng.choice(['', '', '  '])))
            prev = 'blank'
            continue
        if kind == 'prose':
            ind = rng.choice([0, 0, 4])
            first_stripped = False
            if prev in ('src', 'want'):
                if prev_indent > 0 and rng.random() < 0.5:
                    ind = rng.choice([i for i in (0, 2, 4) if i < prev_indent])   # a de-indented line ends the example
                    first_stripped = True
                else:
                    rel.append(('text', ''))
            for k in range(rng.randint(1, 3)):
                line = rng.choice(PROSE)
                if k == 0 and first_stripped:
                    line = line.strip()
                rel.append(('text', ' ' * ind + line))
            prev = 'prose'
            prev_indent = ind
            continue
        # ---- an example block
        ind = rng.choice([0, 4, 4, 8])
        if prev == 'src' and ind != prev_indent:
            if allow_offside_prompt and rng.random() < 0.7:
                meta['offside_prompt'] = True      # a prompt directly after source at another indentation
            else:
                rel.append(('text', ''))
        pad = ' ' * ind
        meta['examples'] += 1
        last_ps2 = False
        for _ in range(rng.randint(1, 4)):
            lines, skind = _statement(rng)
            pl, style = _prompted(rng, lines, skind)
            meta['styles'].add(style + ':' + skind)
            for text, is_ps2, hack in pl:
                if hack and _needs_hack(text):
                    meta['hack'] += 1
                    rel.append(('src', pad + '... ' + text, 'hack'))
                else:
                    rel.append(('src', pad + text))
                last_ps2 = is_ps2
        prev = 'src'
        prev_indent = ind
        if rng.random() < 0.6:
            n = rng.randint(1, 3)
            meta['wants'] += 1
            for j in range(n):
                w = rng.choice(WANTS)
                if j == 0:
                    if w.startswith('...') or w.startswith('>>>'):
                        w = 'v'
                    if rng.random() < 0.08 and not last_ps2:
                        w = '...'           # a bare ellipsis want after a `>>>` statement
                    elif w.startswith(' ') and rng.random() < 0.5:
                        w = w.strip()
                rel.append(('want', pad + w))
            prev = 'want'
    # ---- normalise: the common indentation of the non-blank lines is what the parser removes anyway
    def lead(l):
        return len(l) - len(l.lstrip(' '))
    nonblank = [it[1] for it in rel if it[1].strip()]
    m0 = min(lead(l) for l in nonblank) if nonblank else 0
    if m0:
        rel = [(it[0], it[1][m0:]) + tuple(it[2:]) for it in rel]
    while rel and rel[-1][1] == '':
        rel.pop()
    if not rel:
        rel = [('text', 'Only prose.')]
    # ---- render with a base indentation; some leading blanks become tabs
    base = rng.choice([0, 0, 4, 8])
    use_tabs = base == 8 and rng.random() < 0.5
    out_lines = []
    expected = []
    for idx, item in enumerate(rel):
        line = item[1]
        if len(item) == 3:
            # the hack line is written WITHOUT the prompt the parser inserts
            k = lead(line)
            raw = line[:k] + line[k + 4:]
        else:
            raw = line
        if raw.strip() == '':
            if idx < len(rel) - 1 and rng.random() < 0.5:
                out_lines.append('')             # shorter than the base indentation
                expected.append(('text', ''))
                continue
            if idx == len(rel) - 1:
                raw = '  '
                line = '  '
        full = ' ' * base + raw
        if use_tabs and full.startswith(' ' * 8) and rng.random() < 0.7:
            full = '\t' + full[8:]
        out_lines.append(full)
        expected.append((item[0], line) + tuple(item[2:]))
    text = '\n'.join(out_lines)
    tail = rng.choice(['', '', '\n', '\n\n', '\n' + ' ' * base])
    text += tail
    if tail == '\n\n' and base == 0:
        expected.append(('text', ''))       # with a common indent the re-join drops this trailing empty line
    meta['styles'] = sorted(meta['styles'])
    meta['base'] = base
    meta['tabs'] = use_tabs
    return text, expected, meta


# ---------------------------------------------------------------------- malformed text (C14)
FRAGMENTS = ['>>> ', '... ', '>>>', '...', '>>', '>>>x', '(', ')', '[', ']', '{', '}', "'", '"', "'''", '"""',
             '\\', '\\\n', '\n', '\n', '\n', '    ', '  ', '\t', ' ', '# xdoctest: +SKIP', '# xdoctest: +REQUIRES(',
             '# xdoctest: -', '# doctest: +ELLIPSIS, +', '# xdoc: +SKIP)', '# XDOCTEST: +SKIP(', '# XDoc: +SKIP)',
             '# DOCTEST: +ELLIPSIS, +', '# Xdoctest: +REQUIRES(module:os', '# DocTest: -', '# XDOC: +SKIP', '# xDoc: +REQUIRES(a)(',
             'x = 1', 'print(', 'def f():', 'class ',
             'return', 'lambda:', 'if x:', 'else:', 'for ', 'import ', '@', ';', ':', ',', '=', 'x', '1', 'want',
             'Example:', 'Args:', '\r', '\x0c', '\x0b', '\x1c', '\x85', ' ', '\x00', '\x1b[0m', '\xa0', 'é',
             '$', '?', '!', '`', '　', 'await x', 'async def g():', 'yield', 'Traceback (most recent call last):']


DIRECTIVE_PREFIXES = ['xdoctest:', 'doctest:', 'xdoc:', 'doc:', 'XDOCTEST:', 'DOCTEST:', 'XDoc:', 'Doc:', 'xDocTest:', 'XDOC:',
                      'xdoctest :', 'xdoctest', 'x doctest:']
DIRECTIVE_TOKENS = ['+', '-', 'SKIP', 'REQUIRES', 'ELLIPSIS', 'NORMALIZE_WHITESPACE', 'IGNORE_WANT', 'skip', '(', ')', '(', ')', ',', ' ',
                    ' ', 'module:os', 'env:X==1', '--flag', 'x', ':', '=', '#', '+SKIP', '-SKIP', '+REQUIRES(--a)', ',,', '()', ')(' ]


def fuzz_directive(rng):
    """a directive comment: prefix in every spelling (the pattern is case-insensitive) + a body of option tokens that is
    well-formed, unknown, or malformed in every way the option grammar can be (unbalanced / stray / nested parens,
    empty options, missing sign, trailing commas)"""
    body = ''.join(rng.choice(DIRECTIVE_TOKENS) for _ in range(rng.randint(0, 6)))
    return '#' + rng.choice(['', ' ', '  ']) + rng.choice(DIRECTIVE_PREFIXES) + rng.choice(['', ' ', '  ']) + body


def fuzz_directive_docstring(rng):
    """one or two statements carrying fuzzed directive comments (block and inline), optionally with a want"""
    lines = []
    for _ in range(rng.randint(1, 3)):
        r = rng.random()
        if r < 0.4:
            lines.append('>>> ' + fuzz_directive(rng))
        elif r < 0.8:
            lines.append('>>> ' + rng.choice(['x = 1', 'print(1)', 'f(', '1']) + '  ' + fuzz_directive(rng))
            if lines[-1].startswith('>>> f('):
                lines.append('... )  ' + (fuzz_directive(rng) if rng.random() < 0.5 else ''))
        else:
            lines.append('>>> print(1)')
    if rng.random() < 0.5:
        lines.append('1')
    pad = ' ' * rng.choice([0, 4])
    return '\n'.join(pad + l for l in lines)


def fuzz_docstring(rng, maxlen=24):
    n = rng.randint(1, maxlen)
    parts = []
    for _ in range(n):
        r = rng.random()
        if r < 0.25:
            parts.append('\n' + ' ' * rng.choice([0, 0, 4, 4, 2, 8]) + rng.choice(['>>> ', '>>> ', '... ', '']))
        else:
            parts.append(rng.choice(FRAGMENTS))
    return ''.join(parts)


def mutate(rng, text, n=None):
    """damage a docstring: delete / insert / duplicate / re-indent"""
    n = n or rng.randint(1, 3)
    for _ in range(n):
        if not text:
            text = rng.choice(FRAGMENTS)
            continue
        op = rng.randint(0, 6)
        i = rng.randint(0, len(text))
        if op == 0:
            j = min(len(text), i + rng.randint(1, 4))
            text = text[:i] + text[j:]
        elif op in (1, 2):
            text = text[:i] + rng.choice(FRAGMENTS) + text[i:]
        elif op == 3:
            lines = text.split('\n')
            k = rng.randrange(len(lines))
            lines[k] = rng.choice(['', ' ', '  ', '    ', '\t']) + lines[k].lstrip(' ') if rng.random() < 0.5 else lines[k][1:]
            text = '\n'.join(lines)
        elif op == 4:
            lines = text.split('\n')
            k = rng.randrange(len(lines))
            lines.insert(k, lines[rng.randrange(len(lines))])
            text = '\n'.join(lines)
        elif op == 6:
            # the prompt of one line becomes 0..5 blanks (an unprefixed / oddly indented continuation line)
            lines = text.split('\n')
            cands = [k for k, l in enumerate(lines) if l.lstrip(' ').startswith(('>>> ', '... '))]
            if cands:
                k = rng.choice(cands)
                l = lines[k]
                ind = len(l) - len(l.lstrip(' '))
                lines[k] = l[:ind] + ' ' * rng.randint(0, 5) + l[ind + 4:]
                text = '\n'.join(lines)
        else:
            lines = text.split('\n')
            k = rng.randrange(len(lines))
            del lines[k]
            text = '\n'.join(lines)
    return text

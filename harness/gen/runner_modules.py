"""
Generated modules whose doctests have by-construction outcomes (C10, C15).

A module spec is a JSON-able dict ``{'name': str, 'funcs': [func spec]}``; a func spec is
``{'name': 'f3', 'cls': None | 'K1', 'sig': '' | 'a=1' | 'x', 'blocks': [[kind, variant], ...]}``
(0 blocks = no docstring, 1 or 2 ``Example:`` blocks).  Every doctest that executes code calls
``_trace('<ident>/<letter>')`` (a module-level helper appending to the file named by the environment
variable XDOCVERIF_TRACE), so which doctests ran, how often and in which order is observable
whatever the verbosity.

The expectation functions below are the INDEPENDENT oracle: they are written from the meaning of
each kind, never from xdoctest or from the Lean model.
"""
import random

KINDS = ['pass', 'failout', 'failexc', 'allskip', 'partskip', 'expexc', 'disabled', 'comment']
EXTRA_KINDS = ['neardis', 'ellipsis', 'normws', 'ignws']
# doctests that FAIL BEFORE ANY PART EXECUTED (nothing is logged, nothing is skipped at the failing part):
# a statement rejected when the part is compiled (first executed part, possibly after skipped parts; shape 2 =
# the same error after a part already ran), a malformed directive.  A module that raises on import is a
# module-level flag of the spec (`import_error`).
EARLY_KINDS = ['failcompile', 'baddirective']
COMPILE_STMTS = ['return 5', 'break', 'continue', 'nonlocal x', 'yield 1']
# doctests that END THEMSELVES at run time: `pytest.skip()` called by the doctest (a BaseException) and
# `raise xdoctest.ExitTestException()`; both stop the doctest at that line without an error: reported PASSED by
# both front ends (something ran), the rest of the doctest does not run, later doctests still run
EXIT_KINDS = ['skipcall', 'exitcall']
# kinds whose outcome depends on something OUTSIDE the doctest text:
#   useglobal: needs the name G_VERIF = 41, which only `--global-exec` / XDOCTEST_GLOBAL_EXEC provides
#              (opts['__genv__']); without it the doctest fails with a NameError
#   modval   : prints a token defined by ITS OWN module (`_modval`); passes unless another module of the same
#              name leaked in through sys.modules
#   longpass / longfail: 30..120 statements, each with its own want (the last want of longfail is wrong)
STATE_KINDS = ['useglobal', 'modval', 'longpass', 'longfail']
# kinds that LEAVE A BLOCK-LEVEL DIRECTIVE SWITCHED ON when the doctest ends (nothing of it may reach the next
# doctest: every doctest starts from the defaults plus the user's --options):
#   reqblock : an UNMET block-level `# xdoctest: +REQUIRES(...)` first: everything skipped, the requirement stays
#   reqleft  : a part runs and is checked, then an unmet block-level REQUIRES skips the rest: passed
#   skipleft : a part runs and is checked, then a block-level `+SKIP` stays on until the end: passed
LEFTON_KINDS = ['reqblock', 'reqleft', 'skipleft']
UNMET = ['env:XDOCVERIF_NEVER_SET', 'module:xdocverif_no_such_module', '--xdocverif-never-given',
         'env:XDOCVERIF_NEVER_SET, module:os']
# kinds allowed in a two-block callable (freeform merges the blocks into one doctest)
TWO_KINDS = ['pass', 'failout', 'failexc', 'allskip', 'partskip', 'expexc', 'comment', 'failcompile', 'baddirective',
             'reqblock', 'reqleft', 'skipleft']

DISABLE_FIRST_LINES = [
    '>>> # DISABLE_DOCTEST',
    '>>> # SCRIPT',
    '>>> # UNSTABLE',
    '>>> # FAILING',
    '>>> # SLOW_DOCTEST',
    '>>> #Disable this',
    '>>>   #   Failing because of a bug',
    '>>> # script: run by hand',
    '>>> #\tUnstable on windows',
    '>>> #slow_doctest',
]
PYSKIP_FIRST_LINES = ['>>> # pytest.skip', '>>> #  PyTest.Skip("reason")', '>>> #pytest_skip']

HEADER = '''import os


def _trace(x):
    p = os.environ.get('XDOCVERIF_TRACE')
    if p:
        with open(p, 'a') as f:
            f.write(x + '\\n')

'''


def n_disabled_variants():
    return 2 * len(DISABLE_FIRST_LINES)


def mod_token(modname):
    return 'token of ' + modname


def block_lines(kind, variant, ident, modname='?'):
    """lines of one doctest block (no indentation)"""
    T = lambda k: ">>> _trace('%s/%s')" % (ident, k)
    v = 'v %s' % ident
    if kind == 'pass':
        return [T('a'), ">>> print('%s')" % v, v]
    if kind == 'reqblock':
        return ['>>> # xdoctest: +REQUIRES(%s)' % UNMET[variant % len(UNMET)], T('a'), ">>> print('%s')" % v, 'wrong']
    if kind in ('reqleft', 'skipleft'):
        d = '+REQUIRES(%s)' % UNMET[variant % len(UNMET)] if kind == 'reqleft' else '+SKIP'
        return [T('a'), ">>> print('%s')" % v, v, '>>> # xdoctest: ' + d, T('b'), ">>> print('x')", 'wrong']
    if kind == 'useglobal':
        return [T('a'), '>>> print(G_VERIF + 1)', '42']
    if kind == 'modval':
        return [T('a'), '>>> print(_modval(0))', mod_token(modname)]
    if kind in ('longpass', 'longfail'):
        n = 30 + 10 * (variant % 10)
        out = [T('a')]
        for i in range(n):
            out += ['>>> print(%d * 3)' % i, str(i * 3 + (1 if (kind == 'longfail' and i == n - 1) else 0))]
        return out + [T('b')]
    if kind == 'failout':
        return [T('a'), ">>> print('%s')" % v, 'w ' + ident, T('b')]
    if kind == 'failexc':
        return [T('a'), ">>> raise ValueError('boom %s')" % ident, T('b')]
    if kind == 'allskip':
        return ['>>> # xdoctest: +SKIP', T('a'), ">>> print('%s')" % v, 'wrong']
    if kind == 'partskip':
        return [T('a'), ">>> print('%s')" % v, v, T('b') + '  # xdoctest: +SKIP',
                ">>> print('x')  # xdoctest: +SKIP", 'wrong']
    if kind == 'expexc':
        return [T('a'), ">>> raise ValueError('boom %s')" % ident, 'Traceback (most recent call last):',
                'ValueError: boom %s' % ident, T('b')]
    if kind == 'disabled':
        first = DISABLE_FIRST_LINES[(variant // 2) % len(DISABLE_FIRST_LINES)]
        want = v if variant % 2 == 0 else 'w ' + ident
        return [first, T('a'), ">>> print('%s')" % v, want]
    if kind == 'pyskip':
        first = PYSKIP_FIRST_LINES[(variant // 2) % len(PYSKIP_FIRST_LINES)]
        want = v if variant % 2 == 0 else 'w ' + ident
        return [first, T('a'), ">>> print('%s')" % v, want]
    if kind == 'failcompile':
        stmt = '>>> ' + COMPILE_STMTS[variant % len(COMPILE_STMTS)]
        shape = (variant // len(COMPILE_STMTS)) % 3
        if shape == 0:      # the very first part
            return [stmt, T('b')]
        if shape == 1:      # first EXECUTED part, after a skipped one
            return [">>> print('x')  # xdoctest: +SKIP", 'wrong', stmt, T('b')]
        return [T('a'), ">>> print('%s')" % v, v, stmt, T('b')]     # after a part already ran
    if kind in ('skipcall', 'exitcall'):
        call = ['>>> import pytest', ">>> pytest.skip('resource missing %s')" % ident] if kind == 'skipcall' else \
            ['>>> import xdoctest', '>>> raise xdoctest.ExitTestException()']
        shape = variant % 3
        if shape == 0:      # first thing the doctest does; the part has a (never checked) want
            return call + [T('b'), ">>> print('z')", 'wrong']
        if shape == 1:      # after output that was checked against a want
            return [T('a'), ">>> print('%s')" % v, v] + call + [T('b')]
        return [T('a')] + call + [T('b'), ">>> print('z')", 'wrong', T('c')]     # in the middle
    if kind == 'baddirective':
        if variant % 2 == 0:
            return ['>>> # xdoctest: +REQUIRES(foo:bar)', T('a'), ">>> print('%s')" % v, v]
        return [T('a') + '  # xdoctest: +REQUIRES(foo:bar)', ">>> print('%s')" % v, v]
    if kind == 'plaincmt':   # `pyskip` with its trigger neutralised
        want = v if variant % 2 == 0 else 'w ' + ident
        return ['>>> # plain first line', T('a'), ">>> print('%s')" % v, want]
    if kind == 'comment':
        return ['>>> # just a comment %s' % ident]
    if kind == 'neardis':
        return [T('a'), '>>> # DISABLE_DOCTEST', ">>> print('%s')  # SCRIPT" % v, v]
    if kind == 'ellipsis':
        return [T('a'), ">>> print('abc %s xyz')" % ident, 'abc ... xyz']
    if kind == 'normws':
        return [T('a'), ">>> print('a   b %s')" % ident, 'a b %s' % ident]
    if kind == 'ignws':
        return [T('a'), ">>> print('ab%s')" % ident.replace(':', ''), 'a b %s' % ident.replace(':', ' ')]
    raise KeyError(kind)


def is_force_disabled(kind, pytest=False):
    return kind == 'disabled' or (pytest and kind == 'pyskip')


def block_outcome(kind, variant, ident, opts):
    """(outcome 'P'|'F'|'S', trace list, persistent_skip) of one block run on its own with the
    directive defaults `opts` (name -> bool)"""
    T = lambda k: '%s/%s' % (ident, k)
    if kind == 'baddirective':
        # `runstate.update(directives)` raises before the skip test is even made
        return 'F', [], False
    if opts.get('SKIP'):
        return 'S', [], False
    iw = bool(opts.get('IGNORE_WANT'))
    if kind == 'pass':
        return 'P', [T('a')], False
    if kind == 'reqblock':
        return 'S', [], True
    if kind in ('reqleft', 'skipleft'):
        return 'P', [T('a')], True
    if kind == 'useglobal':
        return ('P' if opts.get('__genv__') else 'F'), [T('a')], False
    if kind == 'modval':
        return 'P', [T('a')], False
    if kind == 'longpass':
        return 'P', [T('a'), T('b')], False
    if kind == 'longfail':
        return ('P', [T('a'), T('b')], False) if iw else ('F', [T('a')], False)
    if kind == 'failout':
        return ('P', [T('a'), T('b')], False) if iw else ('F', [T('a')], False)
    if kind == 'failexc':
        return 'F', [T('a')], False
    if kind in ('skipcall', 'exitcall'):
        return 'P', ([] if variant % 3 == 0 else [T('a')]), False
    if kind == 'failcompile':
        late = (variant // len(COMPILE_STMTS)) % 3 == 2
        return 'F', ([T('a')] if late else []), False
    if kind == 'allskip':
        return 'S', [], True
    if kind == 'partskip':
        return 'P', [T('a')], False
    if kind == 'expexc':
        return 'P', [T('a'), T('b')], False
    if kind in ('disabled', 'pyskip', 'plaincmt'):
        ok = variant % 2 == 0 or iw
        return ('P' if ok else 'F'), [T('a')], False
    if kind == 'comment':
        return 'S', [], False
    if kind == 'neardis':
        return 'P', [T('a')], False
    if kind == 'ellipsis':
        ok = opts.get('ELLIPSIS', True) or iw
        return ('P' if ok else 'F'), [T('a')], False
    if kind == 'normws':
        ok = opts.get('NORMALIZE_WHITESPACE', True) or opts.get('IGNORE_WHITESPACE', False) or iw
        return ('P' if ok else 'F'), [T('a')], False
    if kind == 'ignws':
        ok = opts.get('IGNORE_WHITESPACE', False) or iw
        return ('P' if ok else 'F'), [T('a')], False
    raise KeyError(kind)


def callname_of(f):
    if f.get('cls'):
        return f['cls'] if f['name'] is None else '%s.%s' % (f['cls'], f['name'])
    return f['name']


def inventory(spec, style):
    """the doctests of the module as both front ends must collect them, in collection order:
    list of dict(callname, num, unique, blocks=[(kind, variant, ident)], first_kind)"""
    out = []
    for f in spec['funcs']:
        cn = callname_of(f)
        blocks = f['blocks']
        if not blocks:
            continue
        idents = ['%s:%d' % (cn, i) for i in range(len(blocks))]
        if f.get('fmt') == 'plain':
            # blocks written without a google `Example:` header: invisible to style=google, one merged doctest
            # under freeform, and under auto (no google block found in THIS docstring -> freeform)
            if style == 'google':
                continue
            out.append({'callname': cn, 'num': 0, 'unique': cn + ':0',
                        'blocks': [(k, v, i) for (k, v), i in zip(blocks, idents)]})
            continue
        if style == 'freeform' and len(blocks) > 1:
            out.append({'callname': cn, 'num': 0, 'unique': cn + ':0',
                        'blocks': [(k, v, i) for (k, v), i in zip(blocks, idents)]})
        else:
            for n, ((k, v), i) in enumerate(zip(blocks, idents)):
                out.append({'callname': cn, 'num': n, 'unique': '%s:%d' % (cn, n), 'blocks': [(k, v, i)]})
    return out


def doctest_outcome(dt, opts, import_error=False):
    """outcome and trace of one collected doctest when it is run; `import_error`: the module under
    test raises when it is imported (the implicit pre-import precedes the first part that would execute)"""
    trace = []
    anyran = False
    skipping = False
    for (k, v, i) in dt['blocks']:
        if skipping and k != 'baddirective':     # a malformed directive fails even a skipped part
            continue
        o, t, persist = block_outcome(k, v, i, opts)
        if import_error and k != 'baddirective' and o in 'PF':
            # the first part that is not skipped triggers the import, which fails: nothing executes
            return 'F', trace
        trace.extend(t)
        if persist:
            skipping = True
        if o == 'F':
            return 'F', trace
        if o == 'P':
            anyran = True
    return ('P' if anyran else 'S'), trace


def disabled(dt, pytest=False):
    return is_force_disabled(dt['blocks'][0][0], pytest)


def zero_arg_functions(spec):
    """top-level functions without required arguments (methods have `self`)"""
    return [f['name'] for f in spec['funcs'] if not f.get('cls') and f['sig'] in ('', 'a=1')]


def expected_run(spec, style, cmd, opts):
    """by-construction expectation for `doctest_module(command=cmd)`:
    dict(action, names | (ran, outcomes, trace, n_*, failed, exit))"""
    inv = inventory(spec, style)
    if cmd == 'list':
        return {'action': 'list', 'names': [d['unique'] for d in inv], 'exit': 0}
    if cmd == 'dump':
        return {'action': 'dump', 'names': [d['unique'] for d in inv if not disabled(d)], 'exit': 0}
    if cmd == 'all':
        enabled = [d for d in inv if not disabled(d)]
        zero = []
    else:
        enabled = [d for d in inv if cmd in (d['callname'], d['unique'])]
        zero = []
        if not enabled:
            zs = zero_arg_functions(spec)
            if cmd in ('zero-all', 'zero', 'zero_all', 'zero-args'):
                zero = list(zs)
            else:
                zero = [z for z in zs if cmd in (z, z + ':0')]
    ran, outs, trace, failed = [], [], [], []
    ie = bool(spec.get('import_error'))
    for d in enabled:
        o, t = doctest_outcome(d, opts, ie)
        ran.append(d['unique'])
        outs.append(o)
        trace.extend(t)
        if o == 'F':
            failed.append(d['unique'])
    for z in zero:
        ran.append(z + ':0')
        outs.append('S' if opts.get('SKIP') else ('F' if ie else 'P'))
        if outs[-1] == 'F':
            failed.append(z + ':0')
    return {'action': 'run', 'ran': ran, 'outcomes': outs, 'trace': trace,
            'n_total': len(ran), 'n_passed': outs.count('P'), 'n_failed': outs.count('F'),
            'n_skipped': outs.count('S'), 'failed': failed, 'exit': 1 if failed else 0}


def doc_text(spec, f, body_ind):
    """text of the docstring of callable `f` (between the triple quotes)"""
    cn = callname_of(f)
    out = ['\n', body_ind + 'Docstring of %s.\n\n' % cn]
    for j in range(f.get('prose', 0)):
        out.append(body_ind + 'Prose line %d of a very long docstring, with some words in it.\n' % j)
    if f.get('prose'):
        out.append('\n')
    for n, (k, v) in enumerate(f['blocks']):
        if f.get('fmt') == 'plain':
            out.append(body_ind + 'prose before block %d\n\n' % n)
            for l in block_lines(k, v, '%s:%d' % (cn, n), spec['name']):
                out.append(body_ind + l + '\n')
        else:
            out.append(body_ind + 'Example:\n')
            for l in block_lines(k, v, '%s:%d' % (cn, n), spec['name']):
                out.append(body_ind + '    ' + l + '\n')
        out.append('\n')
    out.append(body_ind)
    return ''.join(out)


def docs_module_name(spec):
    return spec['name'] + '_docs'


def render_docs(spec):
    """`attached` modules: the sibling module that holds the docstring templates (the ONLY file with prompts)"""
    out = ['"""docstring templates attached to the callables of %s at import time"""\n\nDOCS = {\n' % spec['name']]
    for f in spec['funcs']:
        if f['blocks']:
            ind = '    ' if f.get('cls') else ''
            out.append('    %r: %r,\n' % (callname_of(f), doc_text(spec, f, ind + '    ')))
    out.append('}\n\n\ndef documented(key):\n    def deco(func):\n        func.__doc__ = DOCS[key]\n        return func\n    return deco\n')
    return ''.join(out)


def render(spec):
    """python source of the module (google-style blocks; the same text is valid freeform).
    spec['attached']: the docstrings are NOT written in this file: they are attached at import time from the
    sibling module `<name>_docs` (decorator for functions, `__doc__` assignment for methods), so this file holds
    no prompt at all and only dynamic analysis sees the doctests."""
    attached = bool(spec.get('attached'))
    out = [HEADER]
    out.append('def _modval(x):\n    return %r\n\n\n' % mod_token(spec['name']))
    if attached:
        out.append('from %s import DOCS as _DOCS, documented as _documented\n\n\n' % docs_module_name(spec))
    if spec.get('import_error'):
        out.append('raise RuntimeError("this module cannot be imported")\n\n')
    cur_cls = None
    late = []
    for f in spec['funcs']:
        cn = callname_of(f)
        cls = f.get('cls')
        if cls != cur_cls:
            cur_cls = cls
            if cls and f['name'] is not None:
                out.append('class %s(object):\n    pass_marker = 1\n\n' % cls)
        ind = '    ' if cls and f['name'] is not None else ''
        if cls and f['name'] is None:
            head = 'class %s(object):' % cls
        elif cls:
            head = ind + 'def %s(self%s):' % (f['name'], (', ' + f['sig']) if f['sig'] else '')
        else:
            head = 'def %s(%s):' % (f['name'], f['sig'])
        if attached and f['blocks'] and not cls:
            out.append('@_documented(%r)\n' % cn)
        out.append(head + '\n')
        body_ind = ind + '    '
        if f['blocks'] and not attached:
            out.append(body_ind + '"""' + doc_text(spec, f, body_ind) + '"""\n')
        if attached and f['blocks'] and cls:
            late.append('%s.__doc__ = _DOCS[%r]\n' % (cn, cn))
        if cls and f['name'] is None:
            out.append(body_ind + 'attr = 1\n\n')
        else:
            out.append(body_ind + 'return None\n\n')
    if late:
        out.append('\n' + ''.join(late) + '\n')
    if spec.get('nested') and not attached:
        # classes nested in classes are not collected by xdoctest (neither front end): the failing doctest below
        # must never show up
        out.append('class Outer_verif(object):\n    class Inner(object):\n        def deep(self):\n'
                   '            \"\"\"\n            Example:\n                >>> _trace(\'NESTED\')\n'
                   '                >>> print(1)\n                2\n            \"\"\"\n\n'
                   '        class Innermost(object):\n            def deeper(self):\n'
                   '                \"\"\"\n                Example:\n                    >>> print(1)\n'
                   '                    2\n                \"\"\"\n\n')
    return ''.join(out)


def make_spec(name, kinds_with_variants, rng=None, shapes=True):
    """one callable per entry of `kinds_with_variants` ([(kind, variant)] or [[(k, v), (k, v)]] for a
    two-block callable); shapes: vary signatures / put some in a class"""
    funcs = []
    cls_open = None
    for i, kv in enumerate(kinds_with_variants):
        blocks = [list(b) for b in kv] if kv and isinstance(kv[0], (list, tuple)) else [list(kv)]
        if kinds_with_variants[i] == []:
            blocks = []
        sig = ''
        cls = None
        if shapes and rng is not None:
            r = rng.random()
            if r < 0.2:
                sig = 'a=1'
            elif r < 0.35:
                sig = 'x'
            if rng.random() < 0.25:
                cls = cls_open or ('K%d' % i)
                cls_open = cls
            else:
                cls_open = None
        funcs.append({'name': ('m%d' % i) if cls else ('f%d' % i), 'cls': cls, 'sig': sig, 'blocks': blocks})
    return {'name': name, 'funcs': funcs}


def random_spec(name, rng, maxlen=12, kinds=None, two_prob=0.15, nodoc_prob=0.1):
    kinds = kinds or (KINDS + EXTRA_KINDS + EARLY_KINDS + EXIT_KINDS + STATE_KINDS + LEFTON_KINDS)
    n = rng.randint(1, maxlen)
    items = []
    for _ in range(n):
        r = rng.random()
        if r < nodoc_prob:
            items.append([])
        elif r < nodoc_prob + two_prob:
            items.append([(rng.choice(TWO_KINDS), rng.randrange(15)), (rng.choice(TWO_KINDS), rng.randrange(15))])
        else:
            k = rng.choice(kinds)
            items.append((k, rng.randrange(n_disabled_variants())))
    spec = make_spec(name, items, rng=rng)
    if rng.random() < 0.07:
        spec['import_error'] = True
    for f in spec['funcs']:
        if f['blocks'] and rng.random() < 0.12 and all(b[0] in TWO_KINDS for b in f['blocks']):
            f['fmt'] = 'plain'       # google + freeform docstrings in one module (matters under --style=auto)
    if rng.random() < 0.15:
        spec['nested'] = True
    return spec


def scale_spec(name, n, nfail, rng, nskip=0):
    """a module with `n` one-block callables, exactly `nfail` of which fail (by output or by exception) and
    `nskip` are all skipped, in random positions"""
    kinds = ['failout' if i % 2 else 'failexc' for i in range(nfail)] + ['allskip'] * nskip
    kinds += [('pass', 'expexc', 'partskip')[i % 3] for i in range(n - len(kinds))]
    rng.shuffle(kinds)
    return make_spec(name, [(k, rng.randrange(4)) for k in kinds], rng=rng)


def manyblock_spec(name, nblocks, rng, prose=0):
    """one callable with `nblocks` Example blocks (google: f0:0 .. f0:<n-1>, so `f0:1` must not match `f0:10`),
    preceded by `prose` lines of text, plus a small second callable"""
    simple = ['pass', 'failout', 'comment', 'partskip', 'expexc', 'failexc']
    blocks = [[rng.choice(simple), rng.randrange(4)] for _ in range(nblocks)]
    return {'name': name, 'funcs': [
        {'name': 'f0', 'cls': None, 'sig': '', 'blocks': blocks, 'prose': prose},
        {'name': 'f1', 'cls': None, 'sig': '', 'blocks': [['pass', 0]]}]}


OPTION_SETS = [
    (None, {}),
    ('+SKIP', {'SKIP': True}),
    ('-ELLIPSIS', {'ELLIPSIS': False}),
    ('+IGNORE_WHITESPACE', {'IGNORE_WHITESPACE': True}),
    ('-NORMALIZE_WHITESPACE', {'NORMALIZE_WHITESPACE': False}),
    ('-ellipsis,+ignore_whitespace', {'ELLIPSIS': False, 'IGNORE_WHITESPACE': True}),
    ('+IGNORE_WANT', {'IGNORE_WANT': True}),
    ('-NORMALIZE_WHITESPACE, -Ellipsis', {'NORMALIZE_WHITESPACE': False, 'ELLIPSIS': False}),
]

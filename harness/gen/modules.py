"""
Generator of Python module sources whose doctest INVENTORY and LINE NUMBERS are known by construction
(C07 / C08 / C16). Nothing here imports xdoctest.

``gen_module(rng, opts)`` returns a ``GenModule``:
  source      the text of the file
  inventory   ordered list of (callname, has_docstring) the property sentence of C07 says must be
              collected: module docstring ('__doc__'), every (async) function, every class and its
              methods (plain / static / class / property getter, decorated or not) defined at module
              level or directly in a module-level class, through any nesting of if / try / with / for /
              while; NOT: functions and classes nested in functions or in classes, property setters and
              deleters, the block guarded by ``if __name__ == '__main__':`` (either spelling; its ``else:`` branch IS
              collected: an import executes it)
  docs        callname -> DocInfo (where the literal starts / ends, expected examples per style, the file
              line of every prompt)
  fragment    True when the module is inside the fragment of C16 (every branch that holds definitions is
              executed by an import)
  hidden      names that must NOT be collected (nested, setters, guarded)

Generated modules are importable (decorators are defined in the module with functools.wraps).
"""
import random

TAGS_EXAMPLE = ['Example:', 'Examples:', 'Doctest:', 'Example::', 'Example :']
TAGS_OTHER = ['Args:', 'Returns:', 'Note:', 'Raises:', 'Yields:']


HELPER_NAME = 'xdv_helper_mod'
HELPER_SOURCE = (
    'def ext_func(x=1):\n'
    '    """\n'
    '    A function of ANOTHER module, with a doctest of its own.\n'
    '\n'
    '    Example:\n'
    '        >>> print("imported doctest")\n'
    '        imported doctest\n'
    '    """\n'
    '    return x\n'
    '\n\n'
    'class ExtClass(object):\n'
    '    """\n'
    '    >>> print("imported class doctest")\n'
    '    imported class doctest\n'
    '    """\n'
    '    def meth(self):\n'
    '        """\n'
    '        >>> print("imported method doctest")\n'
    '        imported method doctest\n'
    '        """\n'
    '\n\n'
    'import functools\n'
    '\n\n'
    'def ext_deco(func):\n'
    '    """\n'
    '    A functools.wraps decorator that lives in ANOTHER module: the wrapper gets the decorated function\'s\n'
    '    __module__, __name__ and __doc__, but its __globals__ are this module\'s.\n'
    '\n'
    '    >>> print("doctest of the imported decorator")\n'
    '    doctest of the imported decorator\n'
    '    """\n'
    '    @functools.wraps(func)\n'
    '    def ext_wrapper(*args, **kwargs):\n'
    '        return func(*args, **kwargs)\n'
    '    return ext_wrapper\n'
    '\n\n'
    'def ext_deco_factory(n):\n'
    '    return ext_deco\n'
    '\n\n'
    'def ext_same(func):\n'
    '    """returns the very same function object"""\n'
    '    func.marked = True\n'
    '    return func\n'
    '\n\n'
    'def ext_class_deco(cls):\n'
    '    cls.marked = True\n'
    '    return cls\n')


class Block(object):
    """one google example block"""

    def __init__(self):
        self.tag_line = None        # file line (1-based) of the tag line
        self.body_first = None      # file line of the first body line
        self.first_prompt = None    # file line of the first prompt (None: no prompt in the block)
        self.prose_first = False    # the body starts with a prose / blank line (K-C08-a)
        self.stmts = []             # Stmt objects


class Stmt(object):
    def __init__(self, first_line, nlines, want_line, kind):
        self.first_line = first_line   # file line of the PS1 line
        self.nlines = nlines           # number of source lines
        self.want_line = want_line     # file line of the first want line, or None
        self.kind = kind
        self.fail = None               # (kind, expected failing file line)


class DocInfo(object):
    def __init__(self):
        self.start = None           # file line on which the literal starts
        self.end = None             # file line on which it ends
        self.layout = 'plain'       # plain | google | freeform
        self.blocks = []            # google example blocks, in order
        self.ff_stmts = []          # statements in freeform reading (all prompts of the docstring, in order)
        self.ignored = False        # contains a freeform-skip header (DisableDoctest: ...)
        self.exotic = False         # prose before the first google block holds \f, \v, \x1c-\x1e, \x85, U+2028/9
        self.prefix = ''
        self.quote = '"""'
        self.oneline = False


class GenModule(object):
    def __init__(self):
        self.lines = []
        self.inventory = []
        self.docs = {}
        self.hidden = []
        self.fragment = True
        self.features = set()
        self.fail = None     # injected failure: dict(callname, kind, line, stmt)
        self.variant = 'plain'
        self.cookie = None
        self.ignored_lines = []   # file lines of prompts under a freeform skip header: part of no doctest

    @property
    def source(self):
        return '\n'.join(self.lines) + '\n'

    def emit(self, text):
        self.lines.append(text)
        return len(self.lines)


class Opts(object):
    def __init__(self, **kw):
        self.max_top = 6
        self.inject_failure = False     # C08: exactly one failing statement in the module
        self.prose_first_p = 0.12       # google body starting with prose/blank (K-C08-a)
        self.unexecuted_defs_p = 0.10   # definitions in a branch that an import does not execute (outside C16)
        self.alias_names = True         # `Alias = name` second names for defs / classes (outside C16)
        self.tabs_p = 0.15              # the whole module (code and docstrings) indented with TAB characters
        self.__dict__.update(kw)


class _Gen(object):
    def __init__(self, rng, opts):
        self.rng = rng
        self.o = opts
        self.m = GenModule()
        self.counter = 0
        self.fail_budget = 1 if opts.inject_failure else 0
        self.all_stmts = []   # (callname, DocInfo, Block or None, Stmt)
        self.guard_done = False
        self.nested_top = set()   # module-level functions defined inside a compound statement or unexecuted

    def name(self, prefix):
        self.counter += 1
        return '%s%d' % (prefix, self.counter)

    # ------------------------------------------------------------------ doctest statements
    def stmt_lines(self, q):
        """returns (source lines without prompt, want lines, kind)"""
        r = self.rng
        k = r.randint(0, 99)
        kind = r.choice(['assign', 'multi', 'print', 'expr', 'def', 'multiprint', 'assign', 'oldstyle'])
        if kind == 'oldstyle':
            # an old-style compound statement closed by a BARE `...` line (rendered from the empty last line), then its output
            self.m.features.add('stmt:oldstyle-bare-dots')
            return ['for i%d in range(2):' % k, '    print(%d + i%d)' % (k, k), ''], ['%d' % k, '%d' % (k + 1)], kind
        if kind == 'assign':
            return ['x%d = %d' % (k, k)], [], kind
        if kind == 'multi':
            return ['y%d = [%d,' % (k, k), '      %d,' % (k + 1), '      0]'], [], kind
        if kind == 'print':
            return ['print(%sa%d%s)' % (q, k, q)], ['a%d' % k], kind
        if kind == 'expr':
            return ['%d + 1' % k], ['%d' % (k + 1)], kind
        if kind == 'multiprint':
            return ['print(%d,' % k, '      %sz%s)' % (q, q)], ['%d z' % k], kind
        return ['def h%d(v):' % k, '    return v'], [], 'def'

    def failing_stmt(self, q):
        """a statement that fails; returns (lines, want, kind, offset of the failing line in the statement
        or 'want')"""
        r = self.rng
        kind = r.choice(['exc-multi', 'exc-called', 'gotwant', 'exc-simple', 'exc-helper', 'gotwant-multi', 'gotwant-oldstyle',
                         'exc-finally', 'exc-reraise', 'exc-finally-loop', 'badrepr'])
        k = r.randint(0, 99)
        # the raising statement inside try/finally or try/except...raise: the frame goes on executing the cleanup
        # suite while the exception unwinds, so frame.f_lineno differs from the traceback entry's tb_lineno
        if kind == 'gotwant-oldstyle':
            # wrong output after an old-style block closed by a bare `...`: the failing line is the first want line
            return ['for i%d in range(2):' % k, '    print(%d + i%d)' % (k, k), ''], ['%d' % k, 'not %d' % (k + 1)], kind, 'want'
        if kind == 'badrepr':
            # the value of the last expression cannot be rendered: reported at the expression itself
            return ['class B%d(object):' % k, '    def __repr__(self):', '        raise RuntimeError(%d)' % k, 'B%d()' % k], ['something'], kind, 3
        if kind == 'exc-finally':
            return ['try:', '    v%d = %d // 0' % (k, k), 'finally:', '    w%d = 2' % k, '    u%d = 3' % k], [], kind, 1
        if kind == 'exc-reraise':
            return ['try:', '    v%d = %d // 0' % (k, k), 'except ZeroDivisionError:', '    w%d = 2' % k, '    raise'], [], kind, 1
        if kind == 'exc-finally-loop':
            return ['for i%d in range(2):' % k, '    try:', '        v%d = [%d,' % (k, k), '               %d // 0]' % k,
                    '    finally:', '        w%d = 2' % k], [], kind, 3
        if kind == 'exc-multi':
            # the raising sub-expression is on the 2nd or 3rd line of the statement
            pos = r.choice([1, 2])
            ls = ['z%d = [%d,' % (k, k), '      %d,' % k, '      %d]' % k]
            ls[pos] = ls[pos].replace('%d' % k, '%d // 0' % k, 1)
            return ls, [], kind, pos
        if kind == 'exc-called':
            return ['import json', 'json.loads(%s{%s)' % (q, q)], [], kind, 1
        if kind == 'exc-helper':
            return ['def boom%d(v):' % k, '    w = v', '    raise KeyError(v)', 'boom%d(%d)' % (k, k)], [], kind, 3
        if kind == 'gotwant':
            return ['print(%sgot%d%s)' % (q, k, q)], ['want%d' % k], kind, 'want'
        if kind == 'gotwant-multi':
            return ['print(%d,' % k, '      %sg%s)' % (q, q)], ['%d w' % k, 'second line'], kind, 'want'
        return ['raise ValueError(%d)' % k], [], kind, 0

    # ------------------------------------------------------------------ docstrings
    def emit_docstring(self, indent, callname, allow_examples=True):
        """emits the literal; returns DocInfo (or None when no docstring is written)"""
        r = self.rng
        m = self.m
        if r.random() < 0.15:
            return None
        d = DocInfo()
        d.quote = r.choice(['"""', "'''"])
        q = "'" if d.quote == '"""' else '"'
        d.prefix = r.choice(['', '', '', 'r', 'R', 'u', 'U'])
        pad = ' ' * indent
        roll = r.random()
        if roll < 0.12 or not allow_examples:
            # one-line docstring
            d.oneline = True
            style = r.choice(['t', 't', 's'])
            if style == 's':
                qq = r.choice(['"', "'"])
                ln = m.emit(pad + d.prefix + qq + 'summary of %s' % callname + qq)
            else:
                ln = m.emit(pad + d.prefix + d.quote + 'Summary of %s.' % callname + d.quote +
                            r.choice(['', '', '  # trailing comment', '   ', '\t']))
            d.start = d.end = ln
            m.features.add('doc:oneline')
            return d
        d.layout = 'google' if roll < 0.62 else ('freeform' if roll < 0.9 else 'plain')
        m.features.add('doc:' + d.layout)
        if d.prefix:
            m.features.add('doc:prefix')
        # opening
        if r.random() < 0.5:
            d.start = m.emit(pad + d.prefix + d.quote + 'Summary of %s.' % callname)
            m.features.add('doc:shared-open')
        else:
            d.start = m.emit(pad + d.prefix + d.quote)
            m.emit(pad + 'Summary of %s.' % callname)
        if r.random() < 0.6:
            m.emit('')
        if r.random() < 0.4:
            m.emit(pad + 'More prose about it,')
            m.emit(pad + 'on two lines.')
            m.emit('')
        if d.layout == 'google':
            nblocks = r.choice([0, 1, 1, 2, 2, 3])
            if r.random() < 0.04:
                # MANY sections in one docstring (ten and more groups: two-digit group numbers, names func:10 …)
                nblocks = r.randint(9, 13)
                m.features.add('google:ten-and-more-blocks')
            sections = ['E'] * nblocks + ['O'] * r.randint(0, 2)
            r.shuffle(sections)
            if nblocks and r.random() < 0.15:
                # characters at which str.splitlines() breaks a line but that are NOT line ends of the file, in the
                # prose BEFORE the first block (inside a block / in freeform reading they shift the numbers: K-C08-c)
                d.exotic = True
                m.features.add('google:exotic-linebreak-in-prose')
                ch = r.choice(['\x0c', '\x0b', '\x1c', '\x1d', '\x1e'] + ([] if m.cookie == 'latin-1' else ['\x85', '\u2028', '\u2029']))
                m.emit(pad + 'A form feed or the like%shere, and%sthere again.' % (ch, ch))
                if r.random() < 0.5:
                    m.emit('')
            for s in sections:
                if s == 'O':
                    m.emit(pad + r.choice(TAGS_OTHER))
                    m.emit(pad + '    value: something')
                    if r.random() < 0.5:
                        m.emit(pad + '        continued deeper')
                    m.emit('')
                else:
                    self.emit_block(d, pad, callname, q)
            if r.random() < 0.2:
                m.emit(pad + 'Trailing prose at the base indentation.')
        elif d.layout == 'freeform':
            ngroups = r.choice([1, 1, 2, 3])
            if r.random() < 0.15:
                self.emit_ignored_section(d, pad, q)
            for g in range(ngroups):
                if g > 0:
                    m.emit(pad + 'Some prose between the groups.')
                    if r.random() < 0.5:
                        m.emit('')
                extra = r.choice(['', '', '    '])
                for _ in range(r.randint(1, 3)):
                    self.emit_stmt(d, None, pad + extra, callname, q)
                m.emit('')      # a want must not run into the prose that follows
                if r.random() < 0.15:
                    self.emit_ignored_section(d, pad, q)
        else:
            m.emit(pad + 'No examples here, only text: a >> b, c > d.')
        # closing
        c = r.random()
        if c < 0.12:
            # trailing blanks / a tab after the closing quotes (legal, invisible)
            d.end = m.emit(pad + d.quote + r.choice(['   ', ' ', '\t', '  \t ']))
            m.features.add('doc:close-trailing-ws')
        elif c < 0.18:
            d.end = m.emit(pad + d.quote + r.choice(['  # end   ', '\t# end\t']))
            m.features.add('doc:close-comment-trailing-ws')
        elif c < 0.7:
            d.end = m.emit(pad + d.quote)
        elif c < 0.85:
            d.end = m.emit(pad + d.quote + '  # end of docstring')
            m.features.add('doc:close-comment')
        else:
            m.emit('')
            d.end = m.emit(pad + 'Last words.' + d.quote)
            m.features.add('doc:shared-close')
        return d

    def emit_ignored_section(self, d, pad, q):
        """a header that DISABLES the doctests under it in freeform reading (`DisableDoctest:`, `Script:` ...): its
        prompts (two parts at least: a want separates them) belong to no doctest; a blank line ends the section"""
        r = self.rng
        m = self.m
        m.features.add('freeform:ignored-section')
        d.ignored = True
        head = r.choice(['DisableDoctest:', 'DisableExample:', 'SkipDoctest:', 'Ignore:', 'Script:', 'Benchmark:', 'Sympy:',
                         'script:', 'IGNORE:', 'Some words, then Script:'])
        m.emit(pad + head)
        inner = pad + '    '
        k = r.randint(0, 99)
        m.ignored_lines.append(m.emit(inner + '>>> print(%sign%d%s)' % (q, k, q)))
        m.emit(inner + 'ign%d' % k)
        m.ignored_lines.append(m.emit(inner + '>>> ign%d = %d' % (k, k)))
        if r.random() < 0.5:
            m.features.add('ignored:oldstyle-bare-dots')
            m.ignored_lines.append(m.emit(inner + '>>> for ign in range(2):'))
            m.emit(inner + '...     print(ign)')
            m.emit(inner + '...')
            m.emit(inner + '0')
            m.emit(inner + '1')
        if r.random() < 0.5:
            m.ignored_lines.append(m.emit(inner + '>>> ign%d + 1' % k))
            m.emit(inner + '%d' % (k + 1))
        m.emit('')

    def emit_block(self, d, pad, callname, q):
        r = self.rng
        m = self.m
        b = Block()
        b.tag_line = m.emit(pad + r.choice(TAGS_EXAMPLE))
        inner = pad + r.choice(['    ', '    ', '  ', '        '])
        first = True
        if r.random() < self.o.prose_first_p:
            b.prose_first = True
            ln = m.emit(inner + 'An introduction before the code.') if r.random() < 0.6 else m.emit('')
            b.body_first = ln
            first = False
            m.features.add('google:prose-first')
        for i in range(r.randint(1, 4)):
            if i > 0 and r.random() < 0.25:
                m.emit('')      # a blank line inside the block: the block goes on
                m.features.add('google:blank-inside')
            s = self.emit_stmt(d, b, inner, callname, q)
            if first:
                b.body_first = s.first_line
                first = False
            if b.first_prompt is None:
                b.first_prompt = s.first_line
        m.emit('')
        d.blocks.append(b)

    def emit_stmt(self, d, block, inner, callname, q):
        r = self.rng
        m = self.m
        fail = None
        if self.fail_budget and r.random() < 0.25:
            lines, want, kind, pos = self.failing_stmt(q)
            self.fail_budget -= 1
            fail = (kind, pos)
        else:
            lines, want, kind = self.stmt_lines(q)
        first = None
        stmt_lines = []
        if r.random() < 0.12 and getattr(self.o, 'leading_empty_prompt', True):
            # legitimate spacing: a line consisting only of a prompt before the statement (kept by the parser as an empty
            # executable line; it is the first prompt line of the statement's group)
            first = m.emit(inner + r.choice(['>>>', '>>> ']))
            m.features.add('stmt:leading-empty-prompt')
        # a statement may consist of several top-level statements (exc-called, exc-helper): every
        # line that is not a continuation gets a PS1 prompt
        for i, l in enumerate(lines):
            cont = i > 0 and (l == '' or l.startswith((' ', ')', ']', 'finally:', 'except ', 'except:', 'else:')))
            ln = m.emit(inner + ('...' if l == '' else ('... ' if cont else '>>> ') + l))
            stmt_lines.append(ln)
            if first is None:
                first = ln
        want_line = None
        for w in want:
            ln = m.emit(inner + w)
            if want_line is None:
                want_line = ln
        s = Stmt(first, len(lines), want_line, kind)
        if fail:
            kind, pos = fail
            line = want_line if pos == 'want' else stmt_lines[pos]
            s.fail = (kind, line)
            m.fail = {'callname': callname, 'kind': kind, 'line': line, 'block': len(d.blocks) if block is not None else None}
        if block is not None:
            block.stmts.append(s)
        d.ff_stmts.append(s)
        self.all_stmts.append((callname, d, block, s))
        return s

    # ------------------------------------------------------------------ definitions
    def decorators(self, pad, scope):
        r = self.rng
        out = []
        if r.random() < 0.3:
            out.append(r.choice(['@deco', '@deco', '@deco_factory(3)']))
            if r.random() < 0.2:
                out.append('@deco')
            self.m.features.add('decorated')
        if r.random() < 0.3:
            # decorators imported from the helper module: wraps-style wrapper (foreign __globals__, own __module__),
            # a factory of it, the identity decorator, the same through the module object
            d = r.choice(['@ext_deco', '@ext_deco', '@ext_deco_factory(2)', '@ext_same', '@xh.ext_deco', '@edeco'])
            out.insert(r.randint(0, len(out)), d)
            self.m.features.add('decorated:imported')
            self.m.features.add('decorated:imported:' + d.lstrip('@').split('(')[0])
        return out

    def emit_body_filler(self, pad):
        r = self.rng
        c = r.random()
        if c < 0.5:
            self.m.emit(pad + 'pass')
        elif c < 0.8:
            self.m.emit(pad + 'value = [1,')
            self.m.emit(pad + '         2]')
            self.m.emit(pad + 'return None' if r.random() < 0.5 else pad + 'del value')
        else:
            self.m.emit(pad + 'return None')

    def emit_func(self, indent, scope, cname=None, collect=True, kind=None, reuse=None):
        """scope: 'module' | 'class' | 'hidden'; reuse: name of an earlier module-level function that
        this definition replaces (same key, first position, LAST docstring)"""
        r = self.rng
        m = self.m
        pad = ' ' * indent
        name = reuse or self.name('f' if scope != 'class' else 'm')
        is_async = r.random() < 0.2
        decos = self.decorators(pad, scope)
        first_arg = 'self'
        if scope == 'class':
            k = kind or r.choice(['plain', 'plain', 'static', 'classm', 'prop'])
            if k == 'static':
                decos = ['@staticmethod'] + decos
                first_arg = 'a'
                m.features.add('staticmethod')
            elif k == 'classm':
                decos = ['@classmethod'] + decos
                first_arg = 'cls'
                m.features.add('classmethod')
            elif k == 'prop':
                decos = ['@property'] + decos
                is_async = False
                m.features.add('property')
        else:
            k = 'func'
            first_arg = 'a'
        if is_async:
            m.features.add('async')
        if r.random() < 0.15:
            m.emit('')
        for dline in decos:
            m.emit(pad + dline)
        if r.random() < 0.15:
            m.emit(pad + ('async def ' if is_async else 'def ') + name + '(' + first_arg + ',')
            m.emit(pad + '        b=None):')
            m.features.add('multiline-signature')
        else:
            m.emit(pad + ('async def ' if is_async else 'def ') + name + '(' + first_arg + ', b=None):')
        callname = name if cname is None else cname + '.' + name
        d = self.emit_docstring(indent + 4, callname)
        if collect and reuse:
            idx = [i for i, (cn, _) in enumerate(m.inventory) if cn == callname][0]
            m.inventory[idx] = (callname, d is not None)
            self.forget(m.docs.pop(callname, None))
            if d is not None:
                m.docs[callname] = d
        elif collect:
            m.inventory.append((callname, d is not None))
            if d is not None:
                m.docs[callname] = d
        else:
            m.hidden.append(callname)
            self.forget(d)
        # nested definitions: never collected
        if r.random() < 0.25:
            m.features.add('nested-def')
            self.emit_hidden_def(indent + 4, callname)
        self.emit_body_filler(pad + '    ')
        if scope == 'class' and k == 'prop' and r.random() < 0.7:
            for which in r.sample(['setter', 'deleter'], r.randint(1, 2)):
                m.features.add('property-' + which)
                under = r.random() < 0.4
                m.emit(pad + '@%s.%s' % (name, which))
                if under:
                    # the usual order: `@prop.setter` on top of a wrapper, so the accessor decorator is NOT the one next to the def
                    m.emit(pad + r.choice(['@deco', '@deco_factory(2)']))
                    m.features.add('property-accessor:wrapper-below')
                m.emit(pad + 'def %s(self%s):' % (name, ', value' if which == 'setter' else ''))
                dd = self.emit_docstring(indent + 4, callname + '.' + which)
                self.forget(dd)
                m.hidden.append(callname + ':' + which)
                m.emit(pad + '    pass')
        return callname

    def forget(self, d):
        """a docstring that must not be collected: its statements are not expected anywhere"""
        if d is None:
            return
        self.all_stmts = [t for t in self.all_stmts if t[1] is not d]
        if self.m.fail is not None and any(s.fail for s in d.ff_stmts):
            # the injected failure went into a docstring that is never collected: give the budget back
            self.m.fail = None
            self.fail_budget = 1 if self.o.inject_failure else 0

    def emit_hidden_def(self, indent, owner, only_class=False):
        r = self.rng
        pad = ' ' * indent
        if not only_class and r.random() < 0.6:
            name = self.name('inner')
            self.m.emit(pad + 'def %s(x):' % name)
            d = self.emit_docstring(indent + 4, owner + '.' + name)
            self.forget(d)
            self.m.emit(pad + '    return x')
            self.m.hidden.append(name)
        else:
            name = self.name('Inner')
            self.m.emit(pad + 'class %s(object):' % name)
            d = self.emit_docstring(indent + 4, owner + '.' + name)
            self.forget(d)
            self.m.emit(pad + '    def meth(self):')
            dd = self.emit_docstring(indent + 8, owner + '.' + name + '.meth')
            self.forget(dd)
            self.m.emit(pad + '        pass')
            self.m.hidden.append(name)

    def emit_class(self, indent):
        r = self.rng
        m = self.m
        pad = ' ' * indent
        name = self.name('C')
        if r.random() < 0.3:
            m.emit(pad + r.choice(['@class_deco', '@ext_class_deco']))
            m.features.add('class-decorated')
        m.emit(pad + 'class %s(object):' % name)
        d = self.emit_docstring(indent + 4, name)
        m.inventory.append((name, d is not None))
        if d is not None:
            m.docs[name] = d
        n = r.randint(0, 4)
        if n == 0:
            m.emit(pad + '    attr = 1')
        for _ in range(n):
            c = r.random()
            if c < 0.65:
                self.emit_func(indent + 4, 'class', cname=name)
            elif c < 0.8:
                # methods inside a compound statement in the class body: still direct members
                m.features.add('class-compound')
                self.emit_wrapper(indent + 4, lambda ind: self.emit_func(ind, 'class', cname=name))
            elif c < 0.92:
                m.features.add('nested-class')
                self.emit_hidden_def(indent + 4, name, only_class=True)
            elif c < 0.96:
                m.emit(pad + '    attr%d = (1,' % r.randint(0, 9))
                m.emit(pad + '             2)')
            else:
                # a class attribute that is a function (with doctests) of ANOTHER module: not a method of this class
                m.features.add('borrowed-member')
                k = self.name('borrowed')
                m.emit(pad + '    %s = %s' % (k, r.choice(['xh.ext_func', 'staticmethod(xh.ext_func)', 'xh.ExtClass.meth'])))
                m.hidden.append(name + '.' + k)
        if r.random() < 0.25:
            # a module-level INSTANCE of the class: has the class docstring and __module__, but is no callable definition
            m.features.add('instance')
            k = self.name('INSTANCE')
            m.emit(pad + '%s = %s()' % (k, name))
            m.hidden.append(k)
        return name

    def emit_wrapper(self, indent, emit_inner, executed=True):
        """a non-definition compound statement around definitions of the same scope"""
        r = self.rng
        m = self.m
        pad = ' ' * indent
        kind = r.choice(['if', 'if-else', 'try', 'with', 'for', 'try-finally', 'while', 'match', 'except', 'match'])
        m.features.add('wrap:' + kind)
        if kind == 'if':
            m.emit(pad + r.choice(['if True:', 'if 1 + 1 == 2:', 'if not FLAG:']))
            emit_inner(indent + 4)
        elif kind == 'if-else':
            m.emit(pad + 'if FLAG:')
            m.emit(pad + '    pass')
            m.emit(pad + 'else:')
            emit_inner(indent + 4)
        elif kind == 'try':
            m.emit(pad + 'try:')
            emit_inner(indent + 4)
            m.emit(pad + 'except Exception:')
            m.emit(pad + '    pass')
            if r.random() < 0.5:
                m.emit(pad + 'else:')
                emit_inner(indent + 4)
        elif kind == 'try-finally':
            m.emit(pad + 'try:')
            m.emit(pad + '    pass')
            m.emit(pad + 'finally:')
            emit_inner(indent + 4)
        elif kind == 'with':
            m.emit(pad + 'with CTX:')
            emit_inner(indent + 4)
        elif kind == 'match':
            # definitions directly inside a `case` block (ast.match_case is neither a statement nor an expression)
            m.emit(pad + r.choice(['match 1:', 'match (1, 2):', 'match FLAG:']))
            m.emit(pad + '    case _:')
            emit_inner(indent + 8)
        elif kind == 'except':
            m.emit(pad + 'try:')
            m.emit(pad + '    raise KeyError(1)')
            m.emit(pad + 'except KeyError:')
            emit_inner(indent + 4)
        elif kind == 'for':
            m.emit(pad + 'for _i in range(1):')
            emit_inner(indent + 4)
        else:
            m.emit(pad + 'while True:')
            emit_inner(indent + 4)
            m.emit(pad + '    break')

    def emit_main_guard(self):
        """`if __name__ == '__main__':` in either spelling: the guarded definitions must not be collected; an
        `else:` branch is ordinary module-level code (it is what an import executes) and is collected"""
        r = self.rng
        m = self.m
        self.guard_done = True
        m.features.add('main-guard')
        m.emit('')
        spelling = r.choice(["if __name__ == '__main__':", 'if __name__ == "__main__":',
                             "if '__main__' == __name__:", 'if "__main__" == __name__:'])
        if spelling.startswith(('if \'__main__', 'if "__main__')):
            m.features.add('main-guard:reversed')
        m.emit(spelling)
        n0 = len(m.inventory)
        d0 = dict(m.docs)
        keep = list(self.all_stmts)
        if r.random() < 0.6:
            self.emit_func(4, 'module')
        else:
            self.emit_class(4)
        for cname, _ in m.inventory[n0:]:
            m.hidden.append(cname)
        del m.inventory[n0:]
        for kname in list(m.docs):
            if kname not in d0:
                self.forget(m.docs[kname])
                del m.docs[kname]
        self.all_stmts = [t for t in self.all_stmts if t in keep]
        m.emit('    print(1)')
        if r.random() < 0.4:
            m.features.add('main-guard:else')
            m.emit('else:')
            if r.random() < 0.7:
                self.nested_top.add(self.emit_func(4, 'module'))
            else:
                self.emit_class(4)
            if r.random() < 0.3:
                self.nested_top.add(self.emit_func(4, 'module'))

    def emit_rebinding(self, name, is_class):
        """module-level assignments after a def / class: the SAME name re-bound through a wrapper that keeps __module__,
        __name__ and __doc__ (functools.wraps, identity) or to itself: still the def's doctests for both collectors; or a
        SECOND name for it: the static collector keeps the def only, the dynamic one also reports the alias (outside C16)"""
        r = self.rng
        m = self.m
        if r.random() >= 0.2:
            return
        c = r.random()
        if c < 0.75 or not self.o.alias_names:
            m.features.add('rebinding:same-name')
            if is_class:
                m.emit(r.choice(['%s = class_deco(%s)', '%s = ext_class_deco(%s)', '%s = %s']) % (name, name))
            else:
                m.emit(r.choice(['%s = deco(%s)', '%s = ext_deco(%s)', '%s = ext_same(%s)', '%s = %s', '%s = deco_factory(1)(%s)'])
                       % (name, name))
        else:
            m.features.add('rebinding:alias')
            alias = self.name('Alias' if is_class else 'alias')
            m.emit('%s = %s' % (alias, name))
            m.hidden.append(alias)
            m.fragment = False
            self.nested_top.add(name)       # never redefined afterwards: the model's alias sees the final binding of the name

    def emit_top(self):
        r = self.rng
        m = self.m
        c = r.random()
        if c < 0.34:
            self.emit_rebinding(self.emit_func(0, 'module'), False)
        elif c < 0.58:
            self.emit_rebinding(self.emit_class(0), True)
        elif c < 0.72:
            def inner(ind):
                if r.random() < 0.6:
                    self.nested_top.add(self.emit_func(ind, 'module'))
                else:
                    self.emit_class(ind)
            self.emit_wrapper(0, inner)
        elif c < 0.80:
            m.features.add('multiline-statement')
            m.emit('TABLE%d = {' % r.randint(0, 99))
            m.emit("    'k': 1,")
            m.emit('}')
        elif c < 0.86:
            m.features.add('import')
            m.emit(r.choice(['from os.path import join', 'from collections import OrderedDict', 'import json',
                             'from textwrap import dedent as _dd'] + ['from %s import ext_func, ExtClass' % HELPER_NAME,
                                                                      'from %s import ext_func as renamed_func' % HELPER_NAME] * 2))
        elif c < 0.90 and [cn for cn, _ in m.inventory if cn.startswith('f') and '.' not in cn and cn not in self.nested_top]:
            # a second definition of an existing module-level function: one key, the last docstring
            m.features.add('redefinition')
            self.emit_func(0, 'module', reuse=r.choice([cn for cn, _ in m.inventory if cn.startswith('f') and '.' not in cn
                                                        and cn not in self.nested_top]))
        elif 0.90 <= c < 0.90 + self.o.unexecuted_defs_p:
            # a branch an import does not execute: collected statically (C07), outside the C16 fragment
            m.features.add('unexecuted-defs')
            m.fragment = False
            m.emit(r.choice(['if FLAG:', 'if False:']))
            self.nested_top.add(self.emit_func(4, 'module'))
        elif c < 0.97 and not self.guard_done:
            self.emit_main_guard()
        else:
            m.emit('')
            m.emit('# a comment line')

    def run(self):
        r = self.rng
        m = self.m
        # coding cookie (line 1), module docstring
        m.cookie = r.choice([None, None, None, 'utf-8', 'latin-1'])
        if m.cookie:
            m.emit('# -*- coding: %s -*-' % m.cookie)
            m.features.add('cookie:' + m.cookie)
        if r.random() < 0.4:
            m.emit('# non-ASCII text in a comment: caf\u00e9 na\u00efve' + ('' if m.cookie == 'latin-1' else ' \u2013 \u4e2d'))
            m.features.add('non-ascii')
        if r.random() < 0.6:
            d = self.emit_docstring(0, '__doc__')
            if d is not None:
                m.inventory.append(('__doc__', True))
                m.docs['__doc__'] = d
                m.features.add('module-doc')
        m.emit('import functools')
        m.emit('import contextlib')
        m.emit('from %s import ext_deco, ext_deco_factory, ext_same, ext_class_deco' % HELPER_NAME)
        m.emit('from %s import ext_deco as edeco' % HELPER_NAME)
        m.emit('import %s as xh' % HELPER_NAME)
        m.emit('')
        m.emit('FLAG = False')
        m.emit('CTX = contextlib.suppress(KeyError)')
        m.emit('')
        m.emit('')
        # helper decorators: ordinary module-level functions, hence part of the inventory
        m.emit('def deco(func):')
        m.emit('    @functools.wraps(func)')
        m.emit('    def wrapper(*args, **kwargs):')
        m.emit('        return func(*args, **kwargs)')
        m.emit('    return wrapper')
        m.inventory.append(('deco', False))
        m.hidden.append('wrapper')
        m.emit('')
        m.emit('')
        m.emit('def deco_factory(n):')
        m.emit('    """Returns a decorator; no examples."""')
        m.emit('    return deco')
        m.inventory.append(('deco_factory', True))
        di = DocInfo()
        di.oneline = True
        di.start = di.end = len(m.lines) - 1
        m.docs['deco_factory'] = di
        m.emit('')
        m.emit('')
        m.emit('def class_deco(cls):')
        m.emit('    return cls')
        m.inventory.append(('class_deco', False))
        m.emit('')
        for _ in range(r.randint(1, self.o.max_top)):
            self.emit_top()
            if r.random() < 0.5:
                m.emit('')
        if not self.guard_done and r.random() < 0.5:
            self.emit_main_guard()
        # how the FILE is written (harness/corr/collect.py: to_bytes): byte order mark, \r\n or \r line ends, latin-1 cookie
        if m.cookie == 'latin-1':
            variant = 'latin1'
        else:
            variant = r.choice(['plain', 'plain', 'plain', 'bom', 'crlf', 'bom+crlf', 'cr', 'bom'])
        m.variant = variant
        if variant != 'plain':
            m.features.add('file:' + variant)
            m.emit('# xdv-variant: ' + variant)
        return m


def gen_module(rng, opts=None):
    opts = opts or Opts()
    for _ in range(50):
        g = _Gen(rng, opts)
        m = g.run()
        if opts.inject_failure and m.fail is None:
            continue
        m.stmts = g.all_stmts
        _maybe_tabs(rng, opts, m)
        return m
    return m


def _maybe_tabs(rng, opts, m):
    """a tab-indented code base: every full group of four leading blanks becomes one TAB, in code and in docstrings alike
    (line numbers, names and the structure of every docstring stay what they were)"""
    import os
    p = float(os.environ.get('XDOCVERIF_TABS_P', getattr(opts, 'tabs_p', 0.0)))
    if rng.random() >= p or m.cookie is not None or m.variant != 'plain':
        return
    out = []
    for l in m.lines:
        n = len(l) - len(l.lstrip(' '))
        out.append('\t' * (n // 4) + ' ' * (n % 4) + l[n:])
    m.lines = out
    m.features.add('module:tab-indented')


# ---------------------------------------------------------------------- expectations per style
def expected_examples(m, style):
    """[(callname, num, first prompt line or None, body first line, DocInfo, Block|None)] the property
    says collection must yield, in order"""
    out = []
    for callname, has_doc in m.inventory:
        if not has_doc:
            continue
        d = m.docs[callname]
        use = style
        if style == 'auto':
            use = 'google' if d.blocks else 'freeform'
        if use == 'google':
            for i, b in enumerate(d.blocks):
                out.append((callname, i, b.first_prompt, b.body_first, d, b))
        else:
            if d.ff_stmts:
                out.append((callname, 0, d.ff_stmts[0].first_line, d.ff_stmts[0].first_line, d, None))
    return out


# ---------------------------------------------------------------------- package trees
def gen_package_plan(rng, depth=3):
    """a nested dict: name -> None (file) | dict (directory)"""
    def mk(level):
        d = {}
        if rng.random() < (0.8 if level else 0.85):
            d['__init__.py'] = None
        for i in range(rng.randint(0, 3)):
            d[rng.choice(['mod%d.py' % i, 'mod%d.py' % i, 'data%d.txt' % i, 'x%d.pyc' % i, '.hidden%d.py' % i,
                          'two.dots%d.py' % i, 'lib%d.so' % i, 'noext%d' % i, '.py'])] = None
        if level < depth:
            for i in range(rng.randint(0, 2)):
                d[rng.choice(['sub%d' % i, 'pkg%d' % i, 'dir.py', '__pycache__'])] = mk(level + 1)
            subs = [k for k, v in d.items() if isinstance(v, dict)]
            if subs and rng.random() < 0.2:
                d['linked%d' % level] = ('link', rng.choice(subs))     # a symlink to a sibling directory
        return d
    return mk(0)


def expected_package_files(plan, exts=('.py',)):
    """relative paths (tuples) the property says are modules of the package: `.py` files (not
    `__init__.py`) all of whose directories, from the root down, have an `__init__.py`"""
    import os
    out = []

    def walk(d, path):
        if '__init__.py' not in d:
            return
        for name, v in d.items():
            if v is None:
                if os.path.splitext(name)[1] in exts and name != '__init__.py':
                    out.append(path + (name,))
            elif isinstance(v, (tuple, list)):
                walk(d[v[1]], path + (name,))       # a symlinked directory is part of the tree like its target
            else:
                walk(v, path + (name,))
    walk(plan, ())
    return sorted(out)

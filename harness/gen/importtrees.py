"""Random package trees for C17 (module name <-> path), written to a scratch directory.

A tree is a plain dict ``{'files': {relpath: text}, 'dirs': [relpath, ...]}`` with '/'-joined
paths relative to the search path entry, so that it can be stored in a replay file and rebuilt.
"""
import os

POOL = ['a', 'b', 'c', 'pkg', 'mod', '_u', 'x_y', 'A1', 'zz9', 'util_', 'ns', '__main__',
        # ordinary names that merely end / start with the special ones
        'conf__init__', 'x__main__', '__init__x', '__main__2']
KINDS = ['mod', 'mod', 'pkg', 'pkg', 'pkg', 'bare', 'pkg+mod', 'bare+mod', 'plain', 'txt']


def gen_tree(rng, max_depth=4, width=3, root_init=False):
    files = {}
    dirs = []

    def add_file(rel, text=None):
        files[rel] = ('X = %r\n' % rel) if text is None else text

    def fill(prefix, depth):
        names = rng.sample(POOL, rng.randint(1, width))
        for nm in names:
            kind = rng.choice(KINDS)
            here = prefix + nm
            if nm == '__main__' and kind not in ('mod', 'pkg'):
                kind = 'mod'
            if kind in ('mod', 'pkg+mod', 'bare+mod'):
                add_file(here + '.py')
            if kind in ('pkg', 'pkg+mod', 'bare', 'bare+mod'):
                dirs.append(here)
                if kind.startswith('pkg'):
                    add_file(here + '/__init__.py')
                    if rng.random() < 0.35:
                        add_file(here + '/__main__.py')
                elif rng.random() < 0.35:
                    add_file(here + '/__main__.py')      # a script directory: __main__.py, no __init__.py
                if depth < max_depth and rng.random() < 0.8:
                    fill(here + '/', depth + 1)
            if kind == 'plain':
                add_file(here, 'not python\n')
            if kind == 'txt':
                add_file(here + '.txt', 'text\n')

    fill('', 1)
    if rng.random() < 0.5:
        # a deep chain with at most one directory that lacks its __init__.py
        depth = rng.randint(2, max_depth + 3)
        hole = rng.choice([None, None] + list(range(depth)))
        comps = [rng.choice(['d%d' % i, 'p_%d' % i, POOL[i % 6]]) for i in range(depth)]
        prefix = ''
        for i, c in enumerate(comps):
            here = prefix + c
            if here in files:           # a plain file of that name: take another name
                here = prefix + 'q%d' % i
            if here not in dirs:
                dirs.append(here)
            if i != hole:
                add_file(here + '/__init__.py')
            else:
                files.pop(here + '/__init__.py', None)
            prefix = here + '/'
        add_file(prefix + 'leaf.py')
        if rng.random() < 0.5:
            add_file(prefix + '__main__.py')
    if root_init:
        add_file('__init__.py')
    if rng.random() < 0.3:
        add_file('__main__.py')                          # directly in the search path entry
    return {'files': files, 'dirs': sorted(set(dirs))}


def all_dirs(tree):
    ds = set(tree['dirs'])
    for f in tree['files']:
        parts = f.split('/')[:-1]
        for i in range(1, len(parts) + 1):
            ds.add('/'.join(parts[:i]))
    return sorted(ds)


def write_tree(root, tree):
    os.makedirs(root, exist_ok=True)
    for d in all_dirs(tree):
        os.makedirs(os.path.join(root, d), exist_ok=True)
    for f, text in tree['files'].items():
        with open(os.path.join(root, f), 'w') as fh:
            fh.write(text)


def candidate_names(tree, rng, limit=40):
    """dotted names present in the tree (as package directory, bare directory or .py file, whether
    importable or not) plus absent ones derived from them"""
    present = set()
    for d in all_dirs(tree):
        present.add(d.replace('/', '.'))
    for f in tree['files']:
        if f.endswith('.py') and '.' not in f[:-3]:
            present.add(f[:-3].replace('/', '.'))
    present = sorted(present)
    absent = set()
    for p in present:
        parts = p.split('.')
        r = rng.random()
        if r < 0.35:
            q = list(parts)
            q[rng.randrange(len(q))] = rng.choice(POOL + ['nope'])
            absent.add('.'.join(q))
        elif r < 0.6:
            absent.add(p + '.' + rng.choice(POOL + ['nope', '__init__']))
        elif r < 0.7 and len(parts) > 1:
            absent.add('.'.join(parts[1:]))
    absent.add('nope')
    absent.add('nope.a')
    # names ending in __main__ / __init__ for every directory, package or not
    special = set(['__main__', '__init__'])
    for d in all_dirs(tree):
        special.add(d.replace('/', '.') + '.__main__')
        special.add(d.replace('/', '.') + '.__init__')
    names = present + sorted(absent - set(present))
    special = sorted(special)
    if len(special) > limit // 2:
        special = ['__main__', '__init__'] + rng.sample(special, limit // 2 - 2)
    names = [n for n in names if n not in special]
    if len(names) > limit - len(special):
        names = rng.sample(names, max(1, limit - len(special)))
    return sorted(set(names) | set(special))


def listing(top):
    """absolute files / directories below ``top`` (symlinks to directories are followed) plus every
    ancestor of ``top`` (with its ``__init__.py`` should one exist): what the model is given"""
    files, dirs = [], []
    for dirpath, dnames, fnames in os.walk(top, followlinks=True):
        dirs.append(dirpath)
        for fn in fnames:
            p = os.path.join(dirpath, fn)
            (files if os.path.isfile(p) else dirs).append(p)
    anc = os.path.dirname(top)
    while True:
        dirs.append(anc)
        ini = os.path.join(anc, '__init__.py')
        if os.path.isfile(ini):
            files.append(ini)
        elif os.path.isdir(ini):
            dirs.append(ini)
        if anc == os.path.dirname(anc):
            break
        anc = os.path.dirname(anc)
    return sorted(set(files)), sorted(set(dirs))

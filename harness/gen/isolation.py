"""
Generator of modules whose doctests interfere with each other as much as the property C11 allows:
clashing local names, reads of names only other doctests bind (must be NameError), rebinding of
names that exist as module globals, SKIP / REQUIRES / report-style directives left switched on at
the end of a doctest, replaced sys.stdout, changed warning filters.

Every source line of a doctest is one statement of the mini language of lean/XdocModel/World.lean
(`Stmt`); `code` is its protocol spelling for the driver op `history`. Statements the model treats
as having no effect on names/output (`nop`): directive comments, `warnings.simplefilter('error')`
(only ever the LAST statement of a doctest) and `warnings.warn('w')` (raises only if a filter leaked).
"""
from . import doctests as gd

LOCALS = ['a', 'b', 'c']
MODGLOBALS = [('G', 10), ('H', 20)]
TRACKED = LOCALS + [n for n, _ in MODGLOBALS]

HEADER = ('import sys, io, warnings\n'
          'from xdoctest.exceptions import ExitTestException\n'
          '%s\n'
          'def _exit():\n'
          '    raise ExitTestException()\n\n')

DIRECTIVES = ['# xdoctest: +SKIP', '# xdoctest: +REQUIRES(%s)' % gd.UNMET_A, '# xdoctest: -REPORT_NDIFF',
              '# xdoctest: -REPORT_CDIFF', '# xdoctest: -ELLIPSIS', '# xdoctest: +IGNORE_WANT',
              '# xdoctest: -REQUIRES(%s)' % gd.UNMET_B]


# REQUIRES(module:...) over a package generated next to the module under test ({PKG} = its name, unique per
# case): existing / missing submodules, a missing package. Whether each exists is known by construction; the
# answer must not depend on which doctest asked first (directive._MODNAME_EXISTS_CACHE is process-wide).
MODULE_REQS = [('{PKG}', True), ('{PKG}.real_sub', True), ('{PKG}.missing_sub', False), ('{PKG}.real_sub.nope', False),
               ('{PKG}_absent', False), ('{PKG}_absent.sub', False)]
MODULE_DIRECTIVES = ['# xdoctest: +REQUIRES(module:%s)' % m for m, _ in MODULE_REQS] + \
                    ['# xdoctest: +REQUIRES(module:{PKG})', '# xdoctest: +REQUIRES(module:{PKG}.real_sub)',
                     '# xdoctest: -REQUIRES(module:{PKG}.missing_sub)', '# xdoctest: +REQUIRES(module:{PKG}.real_sub, module:{PKG})']
DIRECTIVES_ALL = DIRECTIVES + MODULE_DIRECTIVES


def item(kind, *args, **kw):
    d = {'kind': kind, 'args': list(args), 'want': kw.get('want'), 'inline': kw.get('inline')}
    return d


def line_of(it):
    k, a = it['kind'], it['args']
    if k == 'bind':
        s = '%s = %d' % (a[0], a[1])
    elif k == 'show':
        s = 'print(%s)' % a[0]
    elif k == 'inc':
        s = '%s = %s + 1' % (a[0], a[0])
    elif k == 'probe':
        s = "print('%s' in globals())" % a[0]
    elif k == 'say':
        s = 'print(%d)' % a[0]
    elif k == 'mute':
        s = 'sys.stdout = io.StringIO()'
    elif k == 'mutec':
        # the doctest leaves a CLOSED stream of its own in sys.stdout (only ever the LAST statement of a doctest)
        s = 'sys.stdout = io.StringIO(); sys.stdout.close()'
    elif k == 'filt':
        s = "warnings.simplefilter('error')"
    elif k == 'warn':
        s = "warnings.warn('w')"
    elif k == 'fail':
        s = "raise ValueError('boom')"
    elif k == 'filtfail':
        # the doctest turns warnings into errors and then FAILS (only ever the LAST statement): under on_error='raise' the run
        # ends by propagating, and the filters must be put back all the same
        s = "warnings.simplefilter('error'); raise ValueError('boom')"
    elif k == 'exit':
        s = '_exit()'
    elif k == 'dir':
        return a[0]
    else:
        raise KeyError(k)
    if it.get('inline'):
        s += '  ' + it['inline']
    return s


def code_of(it):
    k, a = it['kind'], it['args']
    return {'bind': lambda: 'b.%s.%d' % (a[0], a[1]), 'show': lambda: 's.%s' % a[0], 'inc': lambda: 'i.%s' % a[0],
            'probe': lambda: 'q.%s' % a[0], 'say': lambda: 'p.%d' % a[0], 'mute': lambda: 'm', 'mutec': lambda: 'm', 'filt': lambda: 'z',
            'warn': lambda: 'z', 'fail': lambda: 'f', 'filtfail': lambda: 'f', 'exit': lambda: 'x', 'dir': lambda: 'n'}[k]()


def own_output(it, names):
    """what the statement prints when run with the bindings `names` (None = it raises / prints nothing)"""
    k, a = it['kind'], it['args']
    if k == 'show':
        return None if a[0] not in names else '%d\n' % names[a[0]]
    if k == 'probe':
        return 'True\n' if a[0] in names else 'False\n'
    if k == 'say':
        return '%d\n' % a[0]
    return None


def gen_doc(rng, k, rich=True):
    """one doctest: a list of items"""
    names = dict(MODGLOBALS)
    items = []
    unmatched = ''      # outputs since the last want (reference, fresh state)
    n = rng.randint(2, 7)
    muted = False
    if rng.random() < 0.3:
        items.append(item('dir', rng.choice(MODULE_DIRECTIVES)))
    for j in range(n):
        r = rng.random()
        if r < 0.22:
            it = item('bind', rng.choice(LOCALS), 10 * (k + 1) + rng.randint(0, 3))
        elif r < 0.30:
            it = item('bind', rng.choice(['G', 'H']), 100 * (k + 1) + rng.randint(0, 3))
        elif r < 0.40:
            it = item('inc', rng.choice(['G', 'H', 'G', rng.choice(LOCALS)]))
        elif r < 0.58:
            it = item('show', rng.choice(TRACKED))
        elif r < 0.72:
            it = item('probe', rng.choice(TRACKED))
        elif r < 0.80:
            it = item('say', rng.randint(0, 9))
        elif r < 0.84 and rich:
            it = item('mute')
        elif r < 0.88 and rich:
            it = item('warn')
        elif r < 0.90:
            it = item('fail')
        elif r < 0.92:
            it = item('exit')
        else:
            it = item('dir', rng.choice(DIRECTIVES_ALL))
        if it['kind'] in ('bind', 'say', 'show') and rng.random() < 0.06:
            it['inline'] = rng.choice(['# xdoctest: +SKIP', '# xdoctest: +REQUIRES(%s)' % gd.UNMET_A] + MODULE_DIRECTIVES[:6])
        out = own_output(it, names)
        if it['kind'] in ('show', 'probe', 'say') and out is not None and not it.get('inline'):
            w = rng.random()
            if w < 0.30:
                it['want'] = out
            elif w < 0.36:
                it['want'] = '999\n'
            elif w < 0.46 and unmatched and not muted:
                it['want'] = unmatched + unmatched + out      # matches only with a stale unmatched buffer
            elif w < 0.52 and unmatched and not muted:
                it['want'] = unmatched + out                  # matched through the trailing outputs
        items.append(it)
        # reference bindings (fresh state), only used to choose wants
        kk, a = it['kind'], it['args']
        if kk == 'bind':
            names[a[0]] = a[1]
        elif kk == 'inc' and a[0] in names:
            names[a[0]] += 1
        if kk == 'mute':
            muted = True
        if it['want'] is not None:
            unmatched = ''
        elif out is not None:
            unmatched += out
    # something left switched on at the very end
    r = rng.random()
    if r < 0.35:
        items.append(item('dir', rng.choice(DIRECTIVES[:4] + MODULE_DIRECTIVES[:6])))
    elif r < 0.45 and rich:
        items.append(item('filt'))
    elif r < 0.52 and rich:
        items.append(item('mute'))
    elif r < 0.60 and rich:
        items.append(item('mutec'))
    elif r < 0.68 and rich:
        items.append(item('filtfail'))
    return items


def render_doc(items, indent=8, pkg='xvpkg'):
    pad = ' ' * indent
    out = []
    for it in items:
        out.append(pad + '>>> ' + line_of(it).replace('{PKG}', pkg))
        if it['want'] is not None:
            for wl in it['want'].rstrip('\n').split('\n'):
                out.append(pad + wl)
    return '\n'.join(out) + '\n'


def render_module(docs, top='', pkg='xvpkg'):
    src = HEADER % '\n'.join('%s = %d' % (n, v) for n, v in MODGLOBALS)
    src += top
    for k, items in enumerate(docs):
        src += 'def f%d():\n    """\n    Example:\n%s    """\n\n' % (k, render_doc(items, pkg=pkg))
    return src


def gen_case(rng, ndocs=None, rich=True):
    ndocs = ndocs or rng.randint(2, 4)
    docs = [gen_doc(rng, k, rich=rich) for k in range(ndocs)]
    return docs


def gen_history(rng, ndocs, maxlen=8, raise_prob=0.0):
    n = rng.randint(1, maxlen)
    h = []
    for _ in range(n):
        h.append((rng.randrange(ndocs), 'e' if rng.random() < raise_prob else 'r'))
    return h


DEFAULTS = [{'bools': {'IGNORE_WHITESPACE': True}, 'req': None},
            {'bools': {'ELLIPSIS': False}, 'req': None},
            {'bools': {'NORMALIZE_WHITESPACE': False, 'IGNORE_WHITESPACE': True}, 'req': None},
            {'bools': {'IGNORE_WHITESPACE': True}, 'req': []},
            {'bools': {}, 'req': []},
            {'bools': {'NORMALIZE_REPR': False}, 'req': [gd.UNMET_B]},
            {'bools': {'SKIP': True}, 'req': None}]


def gen_defaults(rng, prob=0.4):
    """config['default_runtime_state'] of the whole history: None (empty) or user defaults — booleans and,
    through the API, a REQUIRES set"""
    if rng.random() >= prob:
        return None
    return rng.choice(DEFAULTS[:5] * 3 + DEFAULTS[5:])


# ------------------------------------------------------------------ doctests of TEXT files (pytest plugin)
def gen_text_doc(rng, k):
    """one Example block of a text file: no module, the namespace is seeded with __name__ = '__main__'"""
    items = []
    names = {}
    for j in range(rng.randint(2, 6)):
        r = rng.random()
        if r < 0.28:
            it = item('bind', rng.choice(LOCALS), 10 * (k + 1) + rng.randint(0, 3))
        elif r < 0.50:
            # mostly names this block has bound (passes alone), sometimes one only another block binds (NameError alone)
            it = item('show', rng.choice(sorted(names)) if names and rng.random() < 0.75 else rng.choice(LOCALS))
        elif r < 0.68:
            it = item('probe', rng.choice(LOCALS))
        elif r < 0.84:
            it = item('name')
        elif r < 0.92:
            it = item('say', rng.randint(0, 9))
        elif r < 0.95:
            it = item('fail')
        else:
            it = item('dir', rng.choice(DIRECTIVES[:2]))
        out = '__main__\n' if it['kind'] == 'name' else own_output(it, names)
        if out is not None and rng.random() < 0.5:
            it['want'] = out if rng.random() < 0.85 else '999\n'
        items.append(it)
        if it['kind'] == 'bind':
            names[it['args'][0]] = it['args'][1]
    return items


def render_text_block(items):
    lines = ['Example:']
    for it in items:
        lines.append('    >>> ' + ('print(__name__)' if it['kind'] == 'name' else line_of(it)))
        if it['want'] is not None:
            lines.extend('    ' + w for w in it['want'].rstrip('\n').split('\n'))
    return '\n'.join(lines) + '\n'


def render_text_file(docs, order):
    """the blocks of `docs` in the given order (indices, repetitions allowed), separated by prose"""
    out = ['A text file with doctests.\n']
    for n, i in enumerate(order):
        out.append('Section %d\n' % n)
        out.append(render_text_block(docs[i]))
    return '\n'.join(out)

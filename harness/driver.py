"""Runs the native Lean driver on a batch of protocol lines."""
import os
import subprocess
import tempfile
from concurrent.futures import ThreadPoolExecutor

from . import paths


class DriverError(Exception):
    pass


def _run_one(lines, exe):
    data = ('\n'.join(lines) + '\n').encode('ascii')
    proc = subprocess.run([exe], input=data, stdout=subprocess.PIPE, stderr=subprocess.PIPE)
    if proc.returncode != 0:
        raise DriverError('driver exit %r: %s' % (proc.returncode, proc.stderr[-2000:].decode('utf8', 'replace')))
    out = proc.stdout.decode('ascii').split('\n')
    if out and out[-1] == '':
        out.pop()
    if len(out) != len(lines):
        raise DriverError('driver answered %d lines for %d requests; stderr=%s' % (
            len(out), len(lines), proc.stderr[-2000:].decode('utf8', 'replace')))
    return out


def run_lines(lines, jobs=None, exe=None):
    """send protocol lines (already TAB-joined) to the driver, return one answer per line"""
    exe = exe or paths.DRIVER_EXE
    if not os.path.exists(exe):
        raise DriverError('driver executable missing: ' + exe)
    n = len(lines)
    if n == 0:
        return []
    jobs = jobs or min(16, max(1, n // 20000))
    if jobs <= 1:
        return _run_one(lines, exe)
    size = (n + jobs - 1) // jobs
    chunks = [lines[i:i + size] for i in range(0, n, size)]
    with ThreadPoolExecutor(max_workers=len(chunks)) as pool:
        outs = list(pool.map(lambda ch: _run_one(ch, exe), chunks))
    res = []
    for o in outs:
        res.extend(o)
    return res


def ask(*fields):
    return run_lines(['\t'.join(fields)])[0]

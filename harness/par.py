"""Sharded parallel execution (fork): every worker generates its own shard of the input space."""
import multiprocessing
import os


def jobs_default():
    if os.environ.get('XDOC_VERIF_JOBS'):
        return max(1, int(os.environ['XDOC_VERIF_JOBS']))
    try:
        return max(1, min(16, len(os.sched_getaffinity(0))))
    except Exception:
        return 8


def pmap(func, arglist, jobs=None):
    jobs = jobs or jobs_default()
    if jobs <= 1 or len(arglist) <= 1:
        return [func(a) for a in arglist]
    ctx = multiprocessing.get_context('fork')
    with ctx.Pool(processes=min(jobs, len(arglist))) as pool:
        return pool.map(func, arglist, chunksize=1)

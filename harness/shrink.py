"""Greedy shrinking of failing inputs."""


def shrink_strings(strs, still_fails, max_steps=4000):
    """strs: tuple of strings; removes characters / replaces by 'a' while the predicate holds"""
    cur = list(strs)
    steps = 0
    changed = True
    while changed and steps < max_steps:
        changed = False
        for k in range(len(cur)):
            s = cur[k]
            # remove chunks, large to small
            size = max(1, len(s) // 2)
            while size >= 1:
                i = 0
                while i + size <= len(s):
                    cand = s[:i] + s[i + size:]
                    trial = cur[:k] + [cand] + cur[k + 1:]
                    steps += 1
                    ok = False
                    try:
                        ok = still_fails(tuple(trial))
                    except Exception:
                        ok = False
                    if ok:
                        s = cand
                        cur[k] = s
                        changed = True
                    else:
                        i += 1
                    if steps >= max_steps:
                        break
                size //= 2
                if steps >= max_steps:
                    break
    return tuple(cur)


def shrink_list(items, still_fails, max_steps=2000):
    """remove elements of a list while the predicate holds"""
    cur = list(items)
    steps = 0
    size = max(1, len(cur) // 2)
    while size >= 1 and steps < max_steps:
        i = 0
        while i + size <= len(cur) and steps < max_steps:
            cand = cur[:i] + cur[i + size:]
            steps += 1
            ok = False
            try:
                ok = still_fails(cand)
            except Exception:
                ok = False
            if ok:
                cur = cand
            else:
                i += 1
        size //= 2
    return cur

"""
Stateful suite for the parser (C13, C14): parsing must be a FUNCTION of the docstring.

A sequence is a small pool of docstrings and a list of operations executed one after the other in ONE process:

    ('parse', i, how)        DoctestParser().parse(doc_i); how = 'new' (fresh parser object), 'shared' (one parser object
                             reused for the whole sequence) or 'repl' (a parser with simulate_repl=True, result not compared)
    ('mutate', i)            parse doc_i and then damage everything that was returned (the caller owns it): offsets, line
                             lists, want, compile mode, directives, the list itself
    ('label', i)             DoctestParser()._label_docsrc_lines on the prepared text
    ('collect', i, style)    list(core.parse_docstr_examples(doc_i, style=style))      (freeform re-bases line_offset in place)
    ('run', i, style)        collect and run every example with on_error='return'

Checked after every `parse`: the independent re-join oracle (oracle/partition.py) on the parts just returned, equality with
the FIRST parse of the same docstring in the sequence (lines, wants, offsets, modes, directives), and - when model answers are
supplied - equality with the Lean model. Checked after every `collect`/`run`: same examples / warning as the first time.
State that could persist between calls and is exercised here: module-level caches of parse results, a parser object reused
between calls, parts shared between callers and re-based by collection, the lazily cached `part.directives`,
`directive._MODNAME_EXISTS_CACHE` (through runs of examples with +REQUIRES(module:...)), compiled module-level regexes.
"""
import contextlib
import io
import multiprocessing
import signal
import warnings

from . import parsercorr
from ..gen import docstrings as G
from ..oracle import partition as O

STYLES = ('auto', 'google', 'freeform')


class Timeout(BaseException):
    pass


def _alarm(signum, frame):
    raise Timeout()


@contextlib.contextmanager
def _limit(seconds=5.0):
    signal.signal(signal.SIGALRM, _alarm)
    signal.setitimer(signal.ITIMER_REAL, seconds)
    try:
        yield
    finally:
        signal.setitimer(signal.ITIMER_REAL, 0)


REQ_DOC = ("Intro line.\n\n    text before the example\n\n    >>> x = 1  # xdoctest: +REQUIRES(module:os)\n"
           "    >>> print(x)\n    1\n    >>> y = 2  # xdoctest: +REQUIRES(module:xdocverif_no_such_module)\n    >>> print(y)\n    2\n")


def gen_sequence(rng, n_ops=None, docs=None):
    """returns (docs, ops); most docstrings have narrative or blank lines before their first prompt"""
    given = docs is not None
    docs = list(docs) if given else []
    for _ in range(0 if given else rng.randint(1, 3)):
        t, _e, _m = G.gen_docstring(rng, max_blocks=5)
        r = rng.random()
        if r < 0.5:
            t = rng.choice(['Summary.\n\n', '\n\n\n', 'A title\nmore\n', 'Example:\n']) + t
        elif r < 0.6:
            t = G.mutate(rng, t)
        docs.append(t)
    if not given and rng.random() < 0.2:
        docs.append(REQ_DOC)
    if not given and rng.random() < 0.3:
        # a docstring that the labeller accepts and the PACKAGING step rejects (it tokenizes but is not Python), not in its first
        # chunk: what a failed parse leaves behind on a shared parser object must not reach the next parse
        docs.append('Some text.\n\n>>> a = 1\n>>> print(a)\n1\n\nMore text.\n\n>>> x = = 2\n')
    ops = []
    for _ in range(n_ops or rng.randint(6, 14)):
        i = rng.randrange(len(docs))
        r = rng.random()
        if r < 0.4:
            ops.append(('parse', i, rng.choice(['new', 'shared', 'shared', 'repl'])))
        elif r < 0.52:
            ops.append(('mutate', i))
        elif r < 0.6:
            ops.append(('label', i))
        elif r < 0.9:
            ops.append(('collect', i, rng.choice(STYLES)))
        else:
            ops.append(('run', i, rng.choice(STYLES)))
    # every docstring is parsed at the start and at the end, so that the history in between shows
    ops = [('parse', i, 'new') for i in range(len(docs))] + ops + [('parse', i, 'new') for i in range(len(docs))]
    return docs, ops


def _damage(parts):
    for p in parts:
        if isinstance(p, str):
            continue
        p.line_offset += 7
        p.exec_lines.append('junk = 1')
        if p.orig_lines is not None:
            del p.orig_lines[:]
        if p.want_lines is not None:
            p.want_lines.append('junk')
        p.compile_mode = 'single'
        p._directives = []
    del parts[:]


def _collect(doc, style, run):
    from xdoctest import core
    exs = []
    with warnings.catch_warnings(record=True) as w, contextlib.redirect_stdout(io.StringIO()), contextlib.redirect_stderr(io.StringIO()):
        warnings.simplefilter('always')
        try:
            for e in core.parse_docstr_examples(doc, callname='f', style=style):
                exs.append(len(e._parts))
                if run:
                    e.mode = 'native'
                    e.run(on_error='return', verbose=0)
        except Exception as ex:
            return 'escaped:' + type(ex).__name__
        nwarn = len([x for x in w if str(x.message).startswith('Cannot scrape callname=')])
    return 'ex=%s warned=%d' % (','.join(map(str, exs)) or '~', 1 if nwarn else 0)


def run_sequence(docs, ops, model=None, model_labels=None):
    """executes the sequence in THIS process; returns the list of problems found (each a dict with `step`)"""
    from xdoctest import parser
    problems = []
    first_parse = {}
    first_collect = {}
    shared = parser.DoctestParser()
    prepared = [O.prepared(d) for d in docs]
    for step, op in enumerate(ops):
        kind, i = op[0], op[1]
        doc = docs[i]
        try:
            with _limit(5.0):
                if kind == 'parse' and op[2] == 'repl':
                    try:
                        with warnings.catch_warnings():
                            warnings.simplefilter('ignore')
                            parser.DoctestParser(simulate_repl=True).parse(doc)
                    except Exception:
                        pass
                    continue
                if kind == 'mutate':
                    _r, parts = parsercorr.real_parse(doc)
                    if parts is not None:
                        _damage(parts)
                    continue
                if kind == 'label':
                    try:
                        with warnings.catch_warnings():
                            warnings.simplefilter('ignore')
                            ll = parser.DoctestParser()._label_docsrc_lines(prepared[i][0])
                        r = 'ok\t' + '|'.join('%s:%s' % (lab, parsercorr.enc(line)) for lab, line in ll)
                    except Exception as ex:
                        r = 'error:' + type(ex).__name__
                    r = parsercorr.normalize_error(r)
                    if model_labels is not None and r != parsercorr.normalize_error(model_labels[i]):
                        problems.append({'step': step, 'what': 'labels differ from the model', 'model': model_labels[i][:200], 'impl': r[:200]})
                    continue
                if kind in ('collect', 'run'):
                    r = _collect(doc, op[2], kind == 'run')
                    key = (i, op[2])
                    if r.startswith('escaped'):
                        problems.append({'step': step, 'what': 'an exception left parse_docstr_examples / run', 'impl': r})
                    elif key in first_collect and first_collect[key] != r:
                        problems.append({'step': step, 'what': 'collection of the same docstring differs from the first time',
                                         'first': first_collect[key], 'impl': r})
                    first_collect.setdefault(key, r)
                    continue
                # ---- parse
                if op[2] == 'shared':
                    try:
                        with warnings.catch_warnings():
                            warnings.simplefilter('ignore')
                            parts = shared.parse(doc)
                        r = _canon(parts)
                    except Exception as ex:
                        r, parts = 'error:' + type(ex).__name__, None
                        if type(ex).__name__ == 'DoctestParseError':
                            r, parts = parsercorr.real_parse(doc)
                else:
                    r, parts = parsercorr.real_parse(doc)
        except Timeout:
            problems.append({'step': step, 'what': 'hang (> 5 s)'})
            break
        r = parsercorr.normalize_error(r)
        if parts is not None:
            prob = O.deindent_problem(doc)
            if prob is None:
                prob, _kinds = O.check_tiling(prepared[i][1], parts)
                if prob:
                    problems.append({'step': step, 'what': 're-join oracle: ' + prob})
        if i in first_parse and first_parse[i] != r:
            problems.append({'step': step, 'what': 'parse of the same docstring differs from the first parse',
                             'first': first_parse[i][:300], 'impl': r[:300]})
        first_parse.setdefault(i, r)
        if model is not None and r != parsercorr.normalize_error(model[i]):
            problems.append({'step': step, 'what': 'parse differs from the model', 'model': model[i][:300], 'impl': r[:300]})
    return problems


def _canon(parts):
    out = []
    for p in parts:
        if isinstance(p, str):
            out.append('T:' + parsercorr.enc(p))
        else:
            ds = p._directives
            out.append('P:' + ':'.join([
                parsercorr.enc_list(list(p.exec_lines)),
                'N' if p.want_lines is None else parsercorr.enc_list(list(p.want_lines)),
                'N' if p.orig_lines is None else parsercorr.enc_list(list(p.orig_lines)),
                str(p.line_offset), p.compile_mode,
                'N' if ds is None else ('|'.join(parsercorr.enc_directive(d) for d in ds) or '~')]))
    return 'ok\t' + '\t'.join(out)


def _child(args):
    docs, ops = args
    warnings.simplefilter('ignore')
    ps = run_sequence(docs, [tuple(o) for o in ops])
    # only what the independent oracle and self-consistency say (no model in the search)
    return ps[:3]


def fails_sequence(docs, ops):
    """independent oracle, in a forked child so that the state of this process is not changed; returns problems or []"""
    ctx = multiprocessing.get_context('fork')
    with ctx.Pool(1) as pool:
        return pool.apply(_child, ((list(docs), [tuple(o) for o in ops]),))

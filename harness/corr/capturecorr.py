"""
Correspondence of lean/XdocModel/Capture.lean (op `capture`) with utils.CaptureStdout, and the
independent specification used by the failing-input search.

An event list is a list of 'S' (start), 'X' (__exit__: log_part + stop) and ('W', text).
"""
import io
import itertools
import sys

from ..codec import enc, enc_list, dec_list, dec


def enc_events(evs):
    out = []
    for e in evs:
        out.append(e if isinstance(e, str) else 'W' + enc(e[1]))
    return out


def real_capture(evs):
    """drive a real CaptureStdout object; returns (parts, outside, text, capturing)"""
    from xdoctest import utils
    old = sys.stdout
    outer = io.StringIO()
    sys.stdout = outer
    try:
        cap = utils.CaptureStdout(suppress=True)
        for e in evs:
            if e == 'S':
                cap.start()
            elif e == 'X':
                cap.__exit__(None, None, None)
            else:
                sys.stdout.write(e[1])
        res = (list(cap.parts), outer.getvalue(), cap.text, sys.stdout is cap.cap_stdout)
    finally:
        sys.stdout = old
    return res


def spec_capture(evs):
    """written from the property sentence: at every exit, log exactly what was written while
    capturing since the previous exit; everything else goes outside"""
    parts = []
    outside = []
    pending = []
    capturing = False
    for e in evs:
        if e == 'S':
            capturing = True
        elif e == 'X':
            parts.append(''.join(pending))
            pending = []
            capturing = False
        elif capturing:
            pending.append(e[1])
        else:
            outside.append(e[1])
    return parts, ''.join(outside)


def canon(parts, outside, text, capturing):
    return '%s | %s | %s | %d' % (enc_list(parts), enc(outside), 'N' if text is None else enc(text), 1 if capturing else 0)


ALPHABET = ['S', 'X', ('W', 'a'), ('W', 'b\n')]


def all_sequences(maxlen):
    for n in range(maxlen + 1):
        for seq in itertools.product(ALPHABET, repeat=n):
            yield list(seq)


def random_sequence(rng):
    n = rng.randint(0, 14)
    texts = ['a', 'b\n', '', 'é\n', 'xy\nz', '\x1b[0m', ' ', 'p 10%\rp 50%\r', 'rec1,rec2\r\n', '\r']
    out = []
    for _ in range(n):
        r = rng.random()
        if r < 0.25:
            out.append('S')
        elif r < 0.5:
            out.append('X')
        else:
            out.append(('W', rng.choice(texts)))
    return out


def cycles_sequence(rng):
    """well-bracketed: (outside writes, start, writes, exit)*"""
    out = []
    for _ in range(rng.randint(1, 6)):
        for _ in range(rng.randint(0, 2)):
            out.append(('W', rng.choice(['o\n', 'p'])))
        out.append('S')
        for _ in range(rng.randint(0, 3)):
            out.append(('W', rng.choice(['a', 'b\n', ''])))
        out.append('X')
    return out

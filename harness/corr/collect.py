"""
Correspondence helpers of the collection cluster (C07 / C08 / C16).

* ``module_tokens(source, modname)``: the mini-AST of Static.lean as protocol tokens, built with CPython's
  own ``ast`` (never with xdoctest code);
* ``graph_tokens(module)``: the object graph of Dynamic.lean, dumped with plain ``vars()`` / ``getattr``;
* wrappers that render the answers of the real functions in the format of the driver ops.
"""
import ast
import re
import os
import types
import warnings

from ..codec import enc, dec, enc_list, dec_list

# ---------------------------------------------------------------------------- how a generated source is stored on disk
# A generated module may end with the comment `# xdv-variant: <name>` : the way its FILE is written (the text itself is
# kept with \n line ends everywhere in the harness). plain | bom | crlf | bom+crlf | cr | latin1 (ASCII-only text under a
# latin-1 coding cookie). Keeping the choice inside the text makes every recorded input replay the same bytes.
VARIANTS = ('plain', 'bom', 'crlf', 'bom+crlf', 'cr', 'latin1')
_VARIANT_RE = re.compile(r'^# xdv-variant: (\S+)\s*$', re.M)


def variant_of(source):
    m = None
    for m in _VARIANT_RE.finditer(source[-200:]):
        pass
    return m.group(1) if m and m.group(1) in VARIANTS else 'plain'


def to_bytes(source):
    """the bytes of the module file"""
    v = variant_of(source)
    text = source
    if 'crlf' in v:
        text = text.replace('\n', '\r\n')
    elif v == 'cr':
        text = text.replace('\n', '\r')
    data = text.encode('latin-1' if v == 'latin1' else 'utf-8')
    if 'bom' in v:
        data = b'\xef\xbb\xbf' + data
    return data


def as_seen(source):
    """the text xdoctest works on after reading the file (`read().decode('utf-8')`: a BOM stays as U+FEFF)"""
    try:
        return to_bytes(source).decode('utf-8')
    except UnicodeDecodeError:
        return source


# ---------------------------------------------------------------------------- mini-AST


def _tok(s):
    return enc(s)


def _doc_tokens(node):
    doc = ast.get_docstring(node, clean=False)
    if doc is None:
        return ['0']
    return ['1', doc, str(node.body[0].end_lineno), str(node.body[0].lineno)]


_IMPORTED = [frozenset()]


def imported_names(tree):
    """names bound by import statements anywhere in the module"""
    out = set()
    for node in ast.walk(tree):
        if isinstance(node, ast.Import):
            out.update(a.asname or a.name.split('.')[0] for a in node.names)
        elif isinstance(node, ast.ImportFrom):
            out.update(a.asname or a.name for a in node.names if a.name != '*')
    return frozenset(out)


def _deco_tokens(decos):
    out = [str(len(decos))]
    for d in decos:
        callee = d.func if isinstance(d, ast.Call) else d
        if isinstance(callee, ast.Name) and callee.id in _IMPORTED[0] and callee.id not in ('property', 'staticmethod', 'classmethod'):
            out += ['E', callee.id]     # a decorator that lives in another module
        elif isinstance(d, ast.Name):
            out += ['N', d.id]
        elif isinstance(d, ast.Attribute):
            out += ['A', d.attr]
        else:
            out += ['X', '']
    return out


def _opt(s):
    return ['0'] if s is None else ['1', s]


def _eval_test(test, env):
    try:
        return bool(eval(compile(ast.Expression(test), '<test>', 'eval'), dict(env)))
    except Exception:
        return True


def _stmts(body, env, top=True):
    """tokens of a statement list (without the closing E)"""
    out = []
    for st in body:
        if isinstance(st, (ast.FunctionDef, ast.AsyncFunctionDef)):
            out += ['F', '1' if isinstance(st, ast.AsyncFunctionDef) else '0', st.name]
            out += _deco_tokens(st.decorator_list) + _doc_tokens(st)
            out += _stmts(st.body, env, False) + ['E']
        elif isinstance(st, ast.ClassDef):
            out += ['C', st.name] + _deco_tokens(st.decorator_list) + _doc_tokens(st)
            out += _stmts(st.body, env, False) + ['E']
        elif isinstance(st, ast.If):
            t = st.test
            is_cmp = isinstance(t, ast.Compare)
            op0 = is_cmp and isinstance(t.ops[0], ast.Eq)
            left = getattr(t.left, 'id', None) if is_cmp else None
            comp0 = getattr(t.comparators[0], 'value', None) if is_cmp else None
            left_str = getattr(t.left, 'value', None) if is_cmp else None
            comp0_id = getattr(t.comparators[0], 'id', None) if is_cmp else None
            if not isinstance(left, str):
                left = None
            if not isinstance(comp0, str):
                comp0 = None
            if not isinstance(left_str, str):
                left_str = None
            if not isinstance(comp0_id, str):
                comp0_id = None
            val = _eval_test(t, env)
            out += ['I', '1' if is_cmp else '0', '1' if op0 else '0'] + _opt(left) + _opt(comp0) + _opt(left_str) + _opt(comp0_id)
            out += ['1' if val else '0', '0' if val else '1']
            out += _stmts(st.body, env, top) + ['E'] + _stmts(st.orelse, env, top) + ['E']
        elif isinstance(st, (ast.For, ast.AsyncFor)):
            try:
                n = len(list(eval(compile(ast.Expression(st.iter), '<iter>', 'eval'), dict(env))))
            except Exception:
                n = 1
            out += ['B', '1' if n else '0'] + _stmts(st.body, env, top) + ['E']
            out += ['B', '1'] + _stmts(st.orelse, env, top) + ['E']
        elif isinstance(st, ast.While):
            val = _eval_test(st.test, env)
            out += ['B', '1' if val else '0'] + _stmts(st.body, env, top) + ['E']
            # `while True: ...; break` : the else clause does not run; `while False` : it does
            out += ['B', '0' if val else '1'] + _stmts(st.orelse, env, top) + ['E']
        elif isinstance(st, (ast.With, ast.AsyncWith)):
            out += ['B', '1'] + _stmts(st.body, env, top) + ['E']
        elif isinstance(st, (ast.Try, getattr(ast, 'TryStar', ast.Try))):
            # the generated bodies never raise: handlers do not run, else and finally do — except the one shape
            # `try: raise KeyError(1)` / `except KeyError:`, whose (first) handler runs and whose else clause does not
            raises = bool(st.body) and isinstance(st.body[0], ast.Raise)
            out += ['B', '1'] + _stmts(st.body, env, top) + ['E']
            for hi, h in enumerate(st.handlers):
                out += ['B', '1' if (raises and hi == 0) else '0'] + _stmts(h.body, env, top) + ['E']
            out += ['B', '0' if raises else '1'] + _stmts(st.orelse, env, top) + ['E']
            out += ['B', '1'] + _stmts(st.finalbody, env, top) + ['E']
        elif hasattr(ast, 'Match') and isinstance(st, ast.Match):
            for i, c in enumerate(st.cases):
                out += ['B', '1' if i == 0 else '0'] + _stmts(c.body, env, top) + ['E']
        elif isinstance(st, ast.Import):
            for a in st.names:
                out += ['M', a.asname or a.name.split('.')[0]]
        elif isinstance(st, ast.ImportFrom):
            if any(a.name == '*' for a in st.names):
                out += ['O']
            else:
                for a in st.names:
                    out += ['M', a.asname or a.name]
        elif (isinstance(st, ast.Assign) and len(st.targets) == 1 and isinstance(st.targets[0], ast.Name)
              and isinstance(st.value, ast.Name) and st.value.id != st.targets[0].id and top):
            out += ['L', st.targets[0].id, st.value.id]       # a second name for whatever `value` is bound to
        else:
            out += ['O']
    return out


def module_tokens(source, modname='mod'):
    """protocol field: `;`-joined tokens `doc tree`"""
    tree = ast.parse(to_bytes(source) if isinstance(source, str) else source)     # bytes: BOM, cookie, \r\n as CPython reads them
    _IMPORTED[0] = imported_names(tree)
    env = {'__name__': modname, 'FLAG': False, 'range': range}
    toks = _doc_tokens(tree) + _stmts(tree.body, env) + ['E']
    return ';'.join(_tok(t) for t in toks)


# ---------------------------------------------------------------------------- file system

def fs_tokens(path):
    """directory listing in os.scandir order (the order os.walk uses)"""
    out = []
    with os.scandir(path) as it:
        entries = list(it)
    for e in entries:
        if e.is_dir():
            out += ['d', e.name] + fs_tokens_list(e.path) + ['E']
        else:
            out += ['f', e.name]
    return out


def fs_tokens_list(path):
    return fs_tokens(path)


def fs_field(path):
    return ';'.join(_tok(t) for t in fs_tokens(path) + ['E'])


# ---------------------------------------------------------------------------- object graph

VALID_FUNC_TYPES = (types.FunctionType, types.BuiltinFunctionType, types.MethodType, classmethod, staticmethod, property)


def _s(v):
    return v if isinstance(v, str) else None


def _facts(obj):
    out = _opt(_s(getattr(obj, '__module__', None)))
    if hasattr(obj, '__objclass__'):
        pm = _s(getattr(obj.__objclass__, '__module__', None))
        out += ['1'] if pm is None else ['2', pm]
    else:
        out += ['0']
    try:
        g = _s(obj.__globals__['__name__'])
    except Exception:
        g = None
    out += _opt(g)
    out += ['1' if hasattr(obj, '__name__') else '0']
    out += _opt(_s(getattr(obj, '__doc__', None)))
    return out


def _item(val):
    valid = isinstance(val, VALID_FUNC_TYPES)
    if isinstance(val, property):
        wrap, inner = 'P', val.fget
    elif isinstance(val, staticmethod):
        wrap, inner = 'S', val.__func__
    elif isinstance(val, classmethod):
        wrap, inner = 'K', val.__func__
    else:
        wrap, inner = '-', None
    return ['1' if valid else '0', wrap] + _facts(val) + _facts(inner)


def graph_tokens(module):
    out = []
    for key, val in list(vars(module).items()):
        if isinstance(val, type):
            members = list(vars(val).items())
            out += ['C', key] + _facts(val) + [str(len(members))]
            for k, v in members:
                out += [k] + _item(v)
        else:
            out += ['I', key] + _item(val)
    out += ['E']
    return ';'.join(_tok(t) for t in out)


# ---------------------------------------------------------------------------- real functions, rendered

def enc_opt(s):
    return 'none' if s is None else 'some ' + enc(s)


def real_calldefs(source):
    """parse_static_calldefs(source=...) in the format of the `calldefs` op"""
    from xdoctest import static_analysis
    import io
    import contextlib
    try:
        with contextlib.redirect_stdout(io.StringIO()):
            if variant_of(source) == 'latin1':
                # a text under a latin-1 cookie cannot be handed over as `str` (it would be re-encoded as UTF-8): go through a file
                import tempfile
                with tempfile.TemporaryDirectory(prefix='xdocverif-') as td:
                    fp = os.path.join(td, 'latin1_module.py')
                    with open(fp, 'wb') as f:
                        f.write(to_bytes(source))
                    cds = static_analysis.parse_static_calldefs(fpath=fp)
            else:
                cds = static_analysis.parse_static_calldefs(source=as_seen(source))
    except IndexError:
        return 'error:IndexError', None
    except Exception as ex:
        return 'raise:' + type(ex).__name__, None
    out = []
    for k, c in cds.items():
        lines = 'none' if c.doclineno is None else '%d,%d' % (c.doclineno, c.doclineno_end)
        out.append('%s/%s/%s' % (enc(k), enc_opt(c.docstr), lines))
    return 'ok\t' + '|'.join(out), cds


def real_google_split(docstr):
    from xdoctest.docstr import docscrape_google
    try:
        blocks = docscrape_google.split_google_docblocks(docstr)
    except Exception as ex:
        return 'raise:' + type(ex).__name__
    return '|'.join('%s/%s/%d' % (enc(k), enc(b[0]), b[1]) for k, b in blocks)


def real_pieces(docstr):
    """the output of the real parser as the `pieces` field of the `examples` op"""
    from xdoctest import parser, exceptions
    try:
        with warnings.catch_warnings():
            warnings.simplefilter('ignore')
            parts = parser.DoctestParser().parse(docstr)
    except exceptions.DoctestParseError:
        return 'ERR'
    except Exception:
        return 'ERR'
    out = []
    for p in parts:
        if isinstance(p, str):
            out.append('T/' + enc(p))
        else:
            out.append('P/%d/%s/%s/%s' % (
                p.line_offset, enc_list(list(p.exec_lines)),
                'N' if p.want_lines is None else enc_list(list(p.want_lines)),
                'N' if p.orig_lines is None else enc_list(list(p.orig_lines))))
    return '|'.join(out) or '~'


def google_ok_bits(model_blocks_answer):
    """per example block of the MODEL's split: does the eager `_parse()` of a DocTest made from its text
    succeed (the oracle input `gOk` of Core.parseDocstrExamples)"""
    from xdoctest import doctest_example
    bits = []
    if not model_blocks_answer:
        return ''
    for blk in model_blocks_answer.split('|'):
        key, text, _off = blk.split('/')
        key = dec(key)
        if not key.startswith(('Example', 'Doctest', 'Script', 'Benchmark')):
            continue
        try:
            with warnings.catch_warnings():
                warnings.simplefilter('ignore')
                doctest_example.DocTest(dec(text))._parse()
            bits.append('1')
        except Exception:
            bits.append('0')
    return ''.join(bits)


def render_example(e):
    parts = getattr(e, '_parts', None)
    if e.block_type is None and parts is not None:
        offs = ','.join(str(p.line_offset) for p in parts) or '~'
    else:
        offs = 'N'
    return '%d/%d/%s/%s/%s/%s' % (e.num, e.lineno, enc(e.docsrc),
                                   'N' if e.block_type is None else 'B' + enc(e.block_type), offs,
                                   enc(e.unique_callname))


def real_examples(style, docstr, callname, lineno):
    from xdoctest import core
    import io
    import contextlib
    try:
        with warnings.catch_warnings(), contextlib.redirect_stdout(io.StringIO()):
            warnings.simplefilter('ignore')
            exs = list(core.parse_docstr_examples(docstr, callname=callname, lineno=lineno, style=style))
    except Exception as ex:
        return 'raise:' + type(ex).__name__, []
    return '|'.join(render_example(e) for e in exs), exs


def model_examples_lines(cases, run_lines):
    """cases: list of (style, docstr, callname, lineno); returns the model answers (two round trips)"""
    splits = run_lines(['google_split\t' + enc(d) for (_, d, _, _) in cases])
    lines = []
    for (style, d, callname, lineno), sp in zip(cases, splits):
        gok = google_ok_bits(sp)
        lines.append('\t'.join(['examples', style, enc(d), enc(callname), str(lineno), gok, real_pieces(d)]))
    return run_lines(lines)


def real_dynamic(module):
    from xdoctest import dynamic_analysis
    cds = dynamic_analysis.parse_dynamic_calldefs(module)
    return '|'.join('%s/%s' % (enc(k), enc_opt(c.docstr if isinstance(c.docstr, str) else None)) for k, c in cds.items())

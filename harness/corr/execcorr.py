"""
Shared machinery of the exec cluster (C01, C18, C19): run a generated program (harness/gen/programs.py)
through the REAL parser and runner, through the Lean model (parser ops), and compare both with the
by-construction expectation / the plain reference execution.
"""
import random
import warnings

from ..codec import enc, enc_list
from ..gen import doctests as gd
from ..gen import programs as P
from . import parsercorr
from .runloop import NS


def quiet_unawaited():
    """the generated programs create coroutine objects they never await, on purpose; CPython reports that when the
    object is collected, which can be long after the run"""
    warnings.filterwarnings('ignore', message='coroutine .* was never awaited', category=RuntimeWarning)


quiet_unawaited()


def parse_example(text, lineno=1):
    from xdoctest import core
    with warnings.catch_warnings():
        warnings.simplefilter('ignore')
        exs = list(core.parse_docstr_examples(text, callname='t', style='freeform', fpath='<verif>', lineno=lineno))
    if len(exs) != 1:
        return None
    ex = exs[0]
    ex.mode = 'native'
    ex._parse()
    return ex


def run_example(ex, verbose=0, preset=None):
    """runs a DocTest; returns dict(T, logged, ns, summary, error); `preset`: the doctest belongs to a module with these globals"""
    ns = NS()
    ns, T = gd.make_namespace(ns)
    ns['__file__'] = '<ref>'
    injected = set(ns)
    ex.global_namespace = ns
    if preset:
        import types
        m = types.ModuleType('xdv_ctx_mod')
        m.__dict__.update(preset)
        ex.module = m
    err = None
    summary = None
    with warnings.catch_warnings():
        warnings.simplefilter('ignore')
        try:
            summary = ex.run(on_error='return', verbose=verbose)
        except BaseException as e:   # noqa
            err = '%s: %s' % (type(e).__name__, e)
    saved = ns.saved if ns.saved is not None else dict(ns)
    return {'T': list(T), 'logged': dict(ex.logged_stdout), 'ns': P.canon_bindings(saved, injected),
            'summary': summary, 'error': err,
            'exc': (type(ex.exc_info[1]).__name__ + ': ' + str(ex.exc_info[1])[:200]) if ex.exc_info else None}


def expectations(prog, text, line_of, stmt_first, ex, run, ref=None):
    """list of reasons why the real doctest does not behave as the plain program"""
    why = []
    parts = list(ex._parts)
    lines = prog.program_lines
    got = [l for p in parts for l in p.exec_lines]
    if got != lines:
        why.append('exec_lines of the parts, concatenated, are %r; the de-prompted program is %r' % (got, lines))
        return why
    # offsets: docstring line of the first line of every part
    j = 0
    part_of_line = []
    for pi, p in enumerate(parts):
        # the freeform collector rebases the offsets on the first part and moves the rest into DocTest.lineno
        if (ex.lineno - 1) + p.line_offset != line_of[j]:
            why.append('part %d: lineno-1+line_offset = %d, but its first line is docstring line %d' % (
                pi, (ex.lineno - 1) + p.line_offset, line_of[j]))
        part_of_line.extend([pi] * len(p.exec_lines))
        j += len(p.exec_lines)
    # a cut never falls inside a statement
    firsts = set(stmt_first)
    j = 0
    for pi, p in enumerate(parts):
        if j not in firsts:
            why.append('part %d starts at program line %d (%r), which is inside a statement' % (pi, j, lines[j]))
        j += len(p.exec_lines)
    wants_real = [list(p.want_lines) for p in parts if p.want_lines]
    wants_exp = [list(s.want) for s in prog.stmts if s.want is not None]
    if wants_real != wants_exp:
        why.append('wants %r, expected %r' % (wants_real, wants_exp))
    if run is None:
        return why
    if ref is None:
        ref = P.reference_prog(prog)
    rT, rout, rbind, rerr = ref
    if rerr is not None:
        return why   # the generator produced a program that does not run: not a case
    if run['error']:
        why.append('DocTest.run raised %s' % run['error'])
    if run['T'] != rT:
        why.append('TRACE %r, the plain program gives %r' % (run['T'], rT))
    out = ''.join(v or '' for v in run['logged'].values())
    if out != rout:
        why.append('logged_stdout concatenated %r, the plain program wrote %r' % (out, rout))
    if run['ns'] != rbind:
        diff = {k: (run['ns'].get(k), rbind.get(k)) for k in set(run['ns']) | set(rbind) if run['ns'].get(k) != rbind.get(k)}
        why.append('final bindings differ from the plain program: %r' % (diff,))
    s = run['summary']
    if prog.unexpected_raise() is not None:
        if s is None or not s.get('failed'):
            why.append('summary %r, expected failed: statement %d raises and no traceback is wanted' % (s, prog.unexpected_raise()))
    elif s is None or not s.get('passed'):
        why.append('summary %r (failure: %s), expected passed' % (s, run['exc']))
    # per part output
    outs = P.per_statement_stdout(prog)
    exp_part = {}
    for si, first in enumerate(stmt_first):
        pi = part_of_line[first]
        exp_part[pi] = exp_part.get(pi, '') + (outs[si] or '')
    for pi in range(len(parts)):
        g = run['logged'].get(pi) or ''
        if g != exp_part.get(pi, ''):
            why.append('logged_stdout[%d] = %r, the statements of that part wrote %r' % (pi, g, exp_part.get(pi, '')))
    return why


def run_schedule(i, prog):
    """which runs a generated doctest gets: list of (verbosity, on a FRESH DocTest object?). Every verbosity of the
    front ends occurs (0 silent, 1 names, 2 = plugin default, 3 = CLI default: from 2 on the output is shown while it
    is captured); a doctest without any want is run at all four; every third doctest is run again on the SAME object"""
    if not any(s.want is not None for s in prog.stmts):
        return [(v, (i % 2 == 0) or k == 0) for k, v in enumerate([3, 0, 2, 1])]
    sched = [(i % 4, True)]
    if i % 3 == 0:
        sched.append(((i + 2) % 4, False))
        sched.append(((i + 1) % 4, False))
    return sched


def check_runs(prog, text, line_of, stmt_first, schedule):
    """the expectations at every run of the schedule; returns (reasons, last run, DocTest)"""
    why = []
    ex = None
    run = None
    for n, (verbose, fresh) in enumerate(schedule):
        if fresh or ex is None:
            ex = parse_example(text)
            if ex is None:
                return ['parse_docstr_examples did not give exactly one example'], None, None
        run = run_example(ex, verbose, getattr(prog, 'preset', None))
        w = expectations(prog, text, line_of, stmt_first, ex, run)
        if w:
            why.append('run %d (verbose=%d, %s DocTest object): %s' % (n + 1, verbose, 'fresh' if fresh or n == 0 else 'the SAME', '; '.join(w)))
            break
    return why, run, ex


def run_programs(progs, do_run=True):
    """worker: model parse vs real parse, expectations; returns the usual shard result"""
    from .. import driver
    out = {'n': 0, 'nontrivial': set(), 'tags': {}, 'dis': [], 'exp': [], 'samples': [], 'unknown': 0}
    rendered = [p.render() for p in progs]
    texts = [r[0] for r in rendered]
    model = parsercorr.model_parse(texts, lambda ls: driver.run_lines(ls, jobs=1))
    for pi, (prog, (text, line_of, stmt_first), m) in enumerate(zip(progs, rendered, model)):
        out['n'] += 1
        schedule = run_schedule(pi, prog)
        inp = {'text': text, 'program': prog.describe(), 'runs': schedule}
        real, _parts = parsercorr.real_parse(text)
        m = parsercorr.normalize_error(m)
        real = parsercorr.normalize_error(real)
        tag = 'parsed' if real.startswith('ok') else real.split('\t')[0]
        if 'unknown' in m.split('\t')[0]:
            out['unknown'] += 1
        elif m != real:
            out['dis'].append((inp, m[:600], real[:600]))
        if real.startswith('ok'):
            ex = parse_example(text)
            if ex is None:
                out['exp'].append((inp, 'one doctest', 'parse_docstr_examples did not give exactly one example', 'collection'))
                continue
            nparts = len(ex._parts)
            tag = 'parts:%d' % min(nparts, 6)
            if nparts > 1:
                out['nontrivial'].add(hash(text))
            if do_run:
                why, run, _ex = check_runs(prog, text, line_of, stmt_first, schedule)
            else:
                run = None
                why = expectations(prog, text, line_of, stmt_first, ex, None)
            if why:
                out['exp'].append((inp, 'behaves as the plain program', {'T': run and run['T'], 'exc': run and run['exc']}, '; '.join(why)[:1500]))
        else:
            out['exp'].append((inp, 'well-formed docstring parses', real[:300], 'the real parser rejects a well-formed docstring'))
        out['tags'][tag] = out['tags'].get(tag, 0) + 1
        if len(out['samples']) < 1:
            out['samples'].append({'text': text, 'parts': tag})
    out['dis'] = out['dis'][:10]
    out['exp'] = out['exp'][:10]
    return out


def merge(corr, suite, res):
    corr.count(suite, res['n'])
    corr.nontrivial |= res['nontrivial']
    corr.unknown += res['unknown']
    for k, v in res['tags'].items():
        corr.tag(suite + ':' + k, v)
    for inp, m, i in res['dis']:
        corr.disagree(suite, inp, m, i)
    for inp, e, i, why in res['exp']:
        corr.expect_fail(suite, inp, e, i, why)
    for s in res['samples'][:1]:
        corr.sample(dict(s, suite=suite))


# ------------------------------------------------------------------------------- families
def family_random(seed, shard, count, **kw):
    rng = random.Random('prog:%d:%d' % (seed, shard))
    return [P.gen_program(rng, **kw) for _ in range(count)]


FIRSTS = [('assign', None, None), ('assign', '+ELLIPSIS', None), ('print', None, None), ('print', None, 'want'),
          ('directive', None, None), ('expr', None, 'want'), ('comment', None, None), ('kwcomment', None, None),
          ('printraise', None, 'tb'), ('compoundraise', None, 'tb'), ('callraise', None, 'tb')]


def family_pairs(shard, nshards, lasts=('none', 'expr-want', 'self-want')):
    """EVERY kind in every prompt style after every kind of predecessor (plain, with an inline
    directive, with a want, a block directive, a comment), optionally followed by a final expression
    with a want: the places where a chunk can be cut"""
    out = []
    i = 0
    for fk, inline, fw in FIRSTS:
        for kind in P.KINDS:
            for style in ('new', 'old', 'bare'):
                if style == 'bare' and kind not in ('tripstr', 'tripbare'):
                    continue
                for term in (False, True):
                    if term and not (kind in P.COMPOUND and style == 'old'):
                        continue
                    for last in lasts:
                        if last == 'self-want' and not (P.value_want(P.Stmt(kind, 0, ref=0)) and not term
                                                        and not (kind == 'multiexpr' and style != 'new')):
                            continue
                        # a new example directly after a want may start at ANY column
                        layouts = [(0, 0), (4, 0), (0, 4), (2, 3)] if fw in ('want', 'tb') else [(0, 0)]
                        for indent, (sh1, sh2) in [(a, b) for a in ('', '    ') for b in layouts]:
                            i += 1
                            if i % nshards != shard:
                                continue
                            stmts = []
                            if fk in ('directive', 'comment', 'kwcomment'):
                                stmts.append(P.Stmt('assign', 0, 'new'))
                            ref = None
                            if kind in P.DEF_FOR:
                                stmts.append(P.Stmt(P.DEF_FOR[kind], len(stmts), 'old'))
                                ref = stmts[-1].k
                            s1 = P.Stmt(fk, len(stmts), 'new', inline=inline)
                            stmts.append(s1)
                            # every third case of a kind that may carry one: an inline directive on the statement itself
                            inl2 = '+ELLIPSIS' if (kind in P.INLINE_OK and i % 3 == 0) else None
                            s2 = P.Stmt(kind, len(stmts), style, term, inline=inl2, ref=ref)
                            stmts.append(s2)
                            if last == 'expr-want':
                                stmts.append(P.Stmt('expr', len(stmts), 'new'))
                            for st in stmts:
                                st.shift = sh1
                                if st is s1:
                                    sh1 = sh2      # everything after the first want sits in the second column
                            if fw == 'tb':
                                s1.want = P.traceback_want(s1)     # expected exception: the doctest goes on
                            prog = P.Program(stmts, indent)
                            outs = P.per_statement_stdout(prog)
                            if any(o is None for o in outs):
                                continue
                            acc = ''
                            for s, o in zip(stmts, outs):
                                if s.kind in P.RAISE_KINDS:
                                    acc = ''       # what its part wrote is logged but never compared with a want
                                    continue
                                acc += o
                                if s is s1 and fw == 'want':
                                    s.want = acc.rstrip('\n').split('\n') if acc.strip() else ['%d' % s.k]
                                    acc = ''
                                if last == 'expr-want' and s is stmts[-1]:
                                    s.want = acc.rstrip('\n').split('\n') if acc.strip() else ['%d' % s.k]
                                if last == 'self-want' and s is s2:
                                    s.want = acc.rstrip('\n').split('\n') if acc.strip() else [P.value_want(s)]
                                    acc = ''
                            out.append(prog)
    return out


def _worker(args):
    name, params, shard, nshards, seed = args
    import io
    import contextlib
    if name == 'random':
        progs = family_random(seed, shard, params['count'], **params.get('kw', {}))
    elif name == 'pairs':
        progs = family_pairs(shard, nshards, params.get('lasts', ('none', 'expr-want', 'self-want')))
    else:
        raise KeyError(name)
    buf = io.StringIO()
    with contextlib.redirect_stdout(buf):
        return run_programs(progs)


def run_family(ctx, corr, name, params, nshards=16):
    from .. import par
    res = par.pmap(_worker, [(name, params, s, nshards, ctx.seed) for s in range(nshards)])
    for r in res:
        merge(corr, name, r)

"""
Observation of the native runner and of the pytest plugin on generated modules, and the protocol
lines that feed the same modules to the Lean model (ops `runner`, `front_ends`, ... of
lean/Driver/OpsRunner.lean).  Used by harness/props/C10.py and C15.py.
"""
import contextlib
import io
import os
import re
import subprocess
import sys
import warnings
import xml.etree.ElementTree as ET

from ..codec import enc, enc_list, dec_list
from ..gen import runner_modules as G

BITS = {'P': '100', 'F': '010', 'S': '001'}
ENV_DROP = ('XDOCTEST_OPTIONS', 'XDOCTEST_VERBOSE', 'XDOCTEST_STYLE', 'XDOCTEST_ANALYSIS', 'XDOCTEST_REPORT',
            'XDOCTEST_GLOBAL_EXEC', 'PYTEST_ADDOPTS', 'XDOCTEST_INSERT_SKIP_DIRECTIVE_ABOVE_FAILURES', 'NO_COLOR',
            'XDOCTEST_DEBUG', 'XDOCTEST_DEBUG_RUNNER', 'XDOCTEST_DEBUG_CORE', 'XDOCTEST_DEBUG_PARSER', 'XDOCTEST_DEBUG_DOCTEST')


def write_module(d, spec):
    path = os.path.join(d, spec['name'] + '.py')
    with open(path, 'w') as f:
        f.write(G.render(spec))
    if spec.get('attached'):
        # the sibling module with the docstring templates; the module itself holds no prompt
        with open(os.path.join(d, G.docs_module_name(spec) + '.py'), 'w') as f:
            f.write(G.render_docs(spec))
    return path


def is_attached(path):
    return os.path.exists(path[:-3] + '_docs.py')


def clean_env(trace=None):
    env = dict(os.environ)
    for k in ENV_DROP:
        env.pop(k, None)
    if trace:
        env['XDOCVERIF_TRACE'] = trace
    else:
        env.pop('XDOCVERIF_TRACE', None)
    return env


def read_trace(p):
    try:
        with open(p) as f:
            out = [l.strip() for l in f if l.strip()]
    except FileNotFoundError:
        out = []
    try:
        os.remove(p)
    except OSError:
        pass
    return out


def real_inventory(path, style):
    """[(unique_callname, docsrc)] as `core.parse_doctestables` collects them (modules with attached docstrings:
    dynamic analysis, the only one that sees them)"""
    from xdoctest import core
    with warnings.catch_warnings():
        warnings.simplefilter('ignore')
        buf = io.StringIO()
        with contextlib.redirect_stdout(buf):
            exs = list(core.parse_doctestables(path, style=style, analysis='dynamic' if is_attached(path) else 'auto'))
    return [(e.callname, e.num, e.unique_callname, e.docsrc) for e in exs]


def real_zero_args(path):
    from xdoctest import runner
    with warnings.catch_warnings():
        warnings.simplefilter('ignore')
        return [e.callname for e in runner._gather_zero_arg_examples(path)]


def make_config(optstr, verbose, global_exec=None):
    from xdoctest.doctest_example import DoctestConfig
    ns = {'options': (optstr.lower() if optstr is not None else ''), 'offset_linenos': False, 'colored': False,
          'reportchoice': 'udiff', 'global_exec': global_exec, 'supress_import_errors': False, 'verbose': verbose}
    return DoctestConfig()._populate_from_cli(ns)


def observe_native(path, cmd, style, verbose, optstr, tracefile, noconfig=False, ident='path', global_exec=None,
                   analysis='auto', durations=None):
    """in-process `runner.doctest_module`; returns dict(kind='run'|'list'|'dump'|'raised', ...)"""
    from xdoctest import runner
    os.environ['XDOCVERIF_TRACE'] = tracefile
    read_trace(tracefile)
    buf = io.StringIO()
    try:
        # noconfig: the plain programmatic call `xdoctest.doctest_module(path, command=...)` (config=None)
        config = None if (noconfig and optstr is None and global_exec is None) else make_config(optstr, verbose, global_exec)
        with contextlib.redirect_stdout(buf), warnings.catch_warnings():
            warnings.simplefilter('ignore')
            # the module can be identified by its path, by `path::command`, or by the live module object
            target, command = path, cmd
            if ident == 'colon' and cmd is not None:
                target, command = path + '::' + cmd, None
            elif ident == 'module':
                from xdoctest import utils
                target = utils.import_module_from_path(path)
            rs = runner.doctest_module(target, command=command, argv=[], style=style, verbose=verbose, config=config,
                                       analysis=analysis, durations=durations)
    except BaseException as e:  # noqa
        return {'kind': 'raised', 'exc': '%s: %s' % (type(e).__name__, str(e)[:200]), 'trace': read_trace(tracefile),
                'stdout': buf.getvalue()}
    finally:
        os.environ.pop('XDOCVERIF_TRACE', None)
    out = buf.getvalue()
    trace = read_trace(tracefile)
    act = rs.get('action')
    if act == 'list':
        names = [l.strip().split(' ')[-1] for l in out.splitlines() if l.strip().startswith('python -m xdoctest ')]
        return {'kind': 'list', 'names': names, 'stdout': out, 'trace': trace, 'keys': sorted(rs.keys())}
    if act == 'dump':
        return {'kind': 'dump', 'stdout': out, 'trace': trace}
    res = {'kind': 'run', 'trace': trace, 'stdout': out}
    for k in ('n_total', 'n_passed', 'n_failed', 'n_skipped'):
        res[k] = rs.get(k)
    res['failed'] = [e.unique_callname for e in rs.get('failed', [])]
    res['ran'] = [e.unique_callname for e in rs.get('times', {})]
    res['verdict_lines'] = verdict_lines(out)
    res['summary_line'] = summary_line(out)
    res['finished_line'] = finished_line(out)
    return res


VERDICT_RE = re.compile(r'^\* (SUCCESS|FAILURE|SKIPPED): (.*)$', re.M)
SUMMARY_RE = re.compile(r'^=== (.*?) ?in [0-9.]+ seconds ===\s*$', re.M)
ANSI_RE = re.compile(r'\x1b\[[0-9;]*m')


def verdict_lines(out):
    out = ANSI_RE.sub('', out)
    return [({'SUCCESS': 'P', 'FAILURE': 'F', 'SKIPPED': 'S'}[m.group(1)], m.group(2).strip().split('::')[-1])
            for m in VERDICT_RE.finditer(out)]


FINISHED_RE = re.compile(r'^(\d+) / (\d+) passed\s*$', re.M)


def finished_line(out):
    """(n_passed, n_total) of the `n / N passed` line `_run_examples` prints for more than one doctest, or None"""
    ms = list(FINISHED_RE.finditer(ANSI_RE.sub('', out)))
    return (int(ms[-1].group(1)), int(ms[-1].group(2))) if ms else None


def summary_line(out):
    """dict failed/passed/skipped/warnings of the final `=== ... ===` line, or None"""
    out = ANSI_RE.sub('', out)
    ms = list(SUMMARY_RE.finditer(out))
    if not ms:
        return None
    d = {'failed': 0, 'passed': 0, 'skipped': 0, 'warnings': 0}
    body = ms[-1].group(1).strip()
    if body:
        for piece in body.split(', '):
            n, t = piece.split(' ')
            d[t] = int(n)
    return d


def main_inprocess(path, cmd, style, flags, optstr, tracefile):
    """`xdoctest.__main__.main(argv)` in this process: exit status + what it printed"""
    from xdoctest import __main__ as xmain
    argv = ['xdoctest', path] + ([cmd] if cmd is not None else []) + ['--style', style] + list(flags)
    if optstr is not None:
        argv.append('--options=' + optstr)
    os.environ['XDOCVERIF_TRACE'] = tracefile
    read_trace(tracefile)
    buf = io.StringIO()
    cwd = os.getcwd()
    try:
        os.chdir(os.path.dirname(path))
        with contextlib.redirect_stdout(buf), warnings.catch_warnings():
            warnings.simplefilter('ignore')
            try:
                rc = xmain.main(argv)
            except SystemExit as e:
                rc = 'SystemExit(%r)' % (e.code,)
            except BaseException as e:  # noqa
                rc = 'raised %s' % type(e).__name__
    finally:
        os.chdir(cwd)
        os.environ.pop('XDOCVERIF_TRACE', None)
    out = buf.getvalue()
    return {'rc': rc, 'stdout': out, 'summary_line': summary_line(out), 'verdict_lines': verdict_lines(out),
            'finished_line': finished_line(out),
            'trace': read_trace(tracefile),
            'names': [l.strip().split(' ')[-1] for l in out.splitlines() if l.strip().startswith('python -m xdoctest ')]}


def cli_subprocess(path, cmd, style, flags, optstr, tracefile, timeout=120):
    """`python -m xdoctest <path> <cmd> ...` as a real subprocess (cwd = the module's directory)"""
    argv = [sys.executable, '-m', 'xdoctest', path] + ([cmd] if cmd is not None else []) + ['--style', style] + list(flags)
    if optstr is not None:
        argv.append('--options=' + optstr)
    read_trace(tracefile)
    p = subprocess.run(argv, cwd=os.path.dirname(path), env=clean_env(tracefile), stdout=subprocess.PIPE,
                       stderr=subprocess.STDOUT, timeout=timeout)
    out = p.stdout.decode('utf8', 'replace')
    return {'rc': p.returncode, 'stdout': out, 'summary_line': summary_line(out), 'verdict_lines': verdict_lines(out),
            'finished_line': finished_line(out), 'trace': read_trace(tracefile),
            'names': [l.strip().split(' ')[-1] for l in out.splitlines() if l.strip().startswith('python -m xdoctest ')]}


PYTEST_LINE_RE = re.compile(r'^(?:\S*/)?([^/\s]+\.py)::(\S+) (PASSED|FAILED|SKIPPED|ERROR|XFAIL|XPASS)\b', re.M)


def pytest_subprocess(d, paths, style, optflag, optstr, tracefile, junit, timeout=300, treat=None, extra_args=(),
                      targets=None):
    """one `pytest --xdoctest-modules -rA -v <directory>` process over a batch of module files, which must be
    ALL the .py files of their directory: pytest discovers them (in file-name order).  Naming the files on the
    command line instead would make pytest's own python plugin import each of them as a test module (explicit
    arguments bypass the test_*.py name filter), so a module that raises on import would be a collection error
    of pytest itself and abort the whole session.
    `treat` (corr/runnerenv.py): style / options / other settings arrive as pytest arguments, as `addopts` of
    the ini file, or through the environment, instead of the two plain flags.
    returns dict(rc, items=[(file, name, outcome)] from the junit xml, lines=[...] from -v, stdout)"""
    argv = [sys.executable, '-m', 'pytest', '--xdoctest-modules', '-rA', '-v', '-p', 'no:cacheprovider',
            '--junitxml=' + junit, '-o', 'junit_family=xunit1',
            '--rootdir=' + d, '-c', os.path.join(d, 'pytest.ini')]
    ini = ['[pytest]']
    env_extra = {}
    if treat is None:
        argv.append('--xdoctest-style=' + style)
        if optstr is not None:
            argv.append('%s=%s' % (optflag, optstr))
    else:
        argv += list(treat['pyt'])
        ini += list(treat['ini'])
        env_extra = dict(treat['env'])
    argv += list(extra_args)
    with open(os.path.join(d, 'pytest.ini'), 'w') as f:
        f.write('\n'.join(ini) + '\n')
    argv += list(targets) if targets else [os.path.dirname(paths[0])]
    read_trace(tracefile)
    try:
        os.remove(junit)
    except OSError:
        pass
    env = clean_env(tracefile)
    env.update(env_extra)
    p = subprocess.run(argv, cwd=d, env=env, stdout=subprocess.PIPE, stderr=subprocess.STDOUT,
                       timeout=timeout)
    out = p.stdout.decode('utf8', 'replace')
    items = []
    try:
        tree = ET.parse(junit)
        for tc in tree.iter('testcase'):
            tags = [c.tag for c in tc]
            oc = 'F' if ('failure' in tags or 'error' in tags) else ('S' if 'skipped' in tags else 'P')
            items.append((tc.attrib.get('classname', ''), tc.attrib.get('name', ''), oc))
    except Exception as e:  # noqa
        items = None
    lines = [(m.group(1), m.group(2), {'PASSED': 'P', 'FAILED': 'F', 'SKIPPED': 'S'}.get(m.group(3), m.group(3)))
             for m in PYTEST_LINE_RE.finditer(out)]
    short = [(m.group(2), m.group(1)[0]) for m in re.finditer(r'^(PASSED|FAILED) \S+\.py::(\S+)', out, re.M)]
    return {'rc': p.returncode, 'items': items, 'lines': lines, 'short': short, 'stdout': out,
            'trace': read_trace(tracefile)}


# ------------------------------------------------------------------ model side
def entry_field(kind, callname, num, docsrc, result):
    return '%s/%s/%d/%s/%s' % (kind, enc(callname), num, enc(docsrc), result)


def runner_line(cmd, entries):
    """entries: list of (kind 'E'|'Z', callname, num, docsrc, result bits|'X'|'I')"""
    return '\t'.join(['runner', enc(cmd)] + [entry_field(*e) for e in entries])


def parse_runner_answer(ans):
    f = ans.split(' ')
    if f[0] in ('listed', 'dumped'):
        return {'kind': 'list' if f[0] == 'listed' else 'dump', 'names': dec_list(f[1])}
    if f[0] == 'aborted':
        return {'kind': 'raised', 'exit': 1}
    d = {'kind': 'run'}
    for piece in f[1:]:
        k, v = piece.split('=', 1)
        if k == 'failedlist':
            d['failed'] = dec_list(v)
        elif k == 'ran':
            d['ran'] = dec_list(v)
        else:
            d[{'total': 'n_total', 'passed': 'n_passed', 'failed': 'n_failed', 'skipped': 'n_skipped',
               'exit': 'exit'}[k]] = int(v)
    return d


# ------------------------------------------------------------------ one case, three ways
def effective_verbose(flags):
    if '--verbose' in flags:
        return int(flags[flags.index('--verbose') + 1])
    if '--quiet' in flags:
        return 1
    if '--silent' in flags:
        return 0
    return 3


def model_entries(spec, style, opts, real_inv):
    """entries for the `runner` op: the REAL inventory (callname, num, docsrc) with the
    by-construction result of each doctest; None when the inventories differ"""
    inv = G.inventory(spec, style)
    if [x['unique'] for x in inv] != [r[2] for r in real_inv]:
        return None
    entries = []
    ie = bool(spec.get('import_error'))
    for x, r in zip(inv, real_inv):
        o, _ = G.doctest_outcome(x, opts, ie)
        entries.append(('E', r[0], r[1], r[3], BITS[o]))
    for z in G.zero_arg_functions(spec):
        entries.append(('Z', z, 0, '>>> %s()' % z, BITS['S' if opts.get('SKIP') else ('F' if ie else 'P')]))
    return entries


def observe_case(path, case, tracefile):
    ch = case['channel']
    if ch == 'api':
        o = observe_native(path, case['cmd'], case['style'], case['verbose'], case['optstr'], tracefile,
                           noconfig=bool(case.get('noconfig')), ident=case.get('ident', 'path'),
                           global_exec=case.get('global_exec'), analysis=case.get('analysis', 'auto'),
                           durations=case.get('durations'))
        o['verbose'] = case['verbose']
        return o
    f = main_inprocess if ch == 'main' else cli_subprocess
    r = f(path, case['cmd'], case['style'], case['flags'], case['optstr'], tracefile)
    r['verbose'] = effective_verbose(case['flags'])
    r['kind'] = 'cli'
    return r


def compare_case(exp, model, o):
    """returns (model_vs_impl problems, expectation_vs_impl problems); `model` is the parsed answer
    of the `runner` op (or None), `exp` the by-construction expectation, `o` the observation"""
    dis, bad = [], []

    def both(what, e, m, i):
        if e is not None and e != i:
            bad.append('%s: expected %r, observed %r' % (what, e, i))
        if m is not None and m != i:
            dis.append('%s: model %r, observed %r' % (what, m, i))

    v = o.get('verbose', 0)
    is_list = exp['action'] == 'list'
    mk = model.get('kind') if model else None
    if o['kind'] == 'raised':
        bad.append('doctest_module raised %s' % o['exc'])
        if mk != 'raised':
            dis.append('model %s, doctest_module raised' % mk)
        return dis, bad
    if exp['action'] == 'dump':
        # `dump` gathers like `all` (force-disabled left out), converts, executes nothing, exits 0
        if o['kind'] == 'cli':
            both('exit status', 0, (model.get('exit', 0) if model else None), o['rc'])
        else:
            both('action', 'dump', mk, o['kind'])
        both('trace of a dump command', [], None, o['trace'])
        if v >= 0:       # the dumped text is logged at level 0: nothing is printed at verbosity -1
            ndef = len(re.findall(r'^def test_', o.get('stdout', ''), re.M))
            both('number of dumped doctests', len(exp['names']), len(model['names']) if model and 'names' in model else None, ndef)
        if model and 'names' in model and model['names'] != exp['names']:
            dis.append('dumped doctests: model %r, expected %r' % (model['names'], exp['names']))
        return dis, bad
    if o['kind'] in ('run', 'list'):
        both('action', 'list' if is_list else 'run', mk, o['kind'])
        if is_list:
            if v >= 1:
                both('listed names', exp['names'], model.get('names') if model else None, o['names'])
            both('trace of a list command', [], None, o['trace'])
            return dis, bad
        for k in ('n_total', 'n_passed', 'n_failed', 'n_skipped', 'failed', 'ran'):
            both(k, exp[k], model.get(k) if model else None, o[k])
        both('trace', exp['trace'], None, o['trace'])
        if v >= 1:
            both('verdict lines', list(zip(exp['outcomes'], exp['ran'])), None, o['verdict_lines'])
        if o.get('finished_line') is not None:
            both('"n / N passed" line', (exp['n_passed'], exp['n_total']),
                 (model.get('n_passed'), model.get('n_total')) if model else None, o['finished_line'])
    else:   # cli / main
        both('exit status', exp['exit'], (model.get('exit', 0) if model else None), o['rc'])
        both('trace', [] if is_list else exp['trace'], None, o['trace'])
        if is_list:
            if v >= 1:
                both('listed names', exp['names'], model.get('names') if model else None, o['names'])
            return dis, bad
        if v >= 1:
            sl = o['summary_line']
            if sl is None:
                bad.append('no "=== ... ===" summary line at verbosity %d' % v)
            else:
                for key, k in (('n_failed', 'failed'), ('n_passed', 'passed'), ('n_skipped', 'skipped')):
                    both('summary line: %s' % k, exp[key], model.get(key) if model else None, sl[k])
            both('verdict lines', list(zip(exp['outcomes'], exp['ran'])), None, o['verdict_lines'])
        if o.get('finished_line') is not None:
            both('"n / N passed" line', (exp['n_passed'], exp['n_total']),
                 (model.get('n_passed'), model.get('n_total')) if model else None, o['finished_line'])
    return dis, bad


def run_cases(d, spec, cases, tracefile, use_model=True):
    """all cases of one module: writes it, observes, asks the model; returns list of result dicts"""
    from .. import driver
    path = write_module(d, spec)
    invs = {}
    lines, idx = [], []
    results = []
    for ci, case in enumerate(cases):
        style = case['style']
        if style not in invs:
            invs[style] = real_inventory(path, style)
        opts = case['opts']
        exp = G.expected_run(spec, style, case['cmd'] if case['cmd'] is not None else 'all', opts)
        res = {'case': case, 'exp': exp, 'model': None, 'inventory_ok': True}
        entries = model_entries(spec, style, opts, invs[style])
        if entries is None:
            res['inventory_ok'] = False
            res['real_inventory'] = [r[2] for r in invs[style]]
        elif use_model:
            lines.append(runner_line(case['cmd'] if case['cmd'] is not None else 'all', entries))
            idx.append(ci)
        res['obs'] = observe_case(path, case, tracefile)
        results.append(res)
    if lines:
        for ci, ans in zip(idx, driver.run_lines(lines, jobs=1)):
            results[ci]['model_raw'] = ans
            results[ci]['model'] = parse_runner_answer(ans) if ans != 'bad-op' else None
    for res in results:
        if not res['inventory_ok']:
            res['dis'], res['bad'] = [], ['collected doctests %r, expected %r' % (
                res['real_inventory'], [x['unique'] for x in G.inventory(spec, res['case']['style'])])]
            continue
        res['dis'], res['bad'] = compare_case(res['exp'], res['model'], res['obs'])
        if use_model and res['model'] is None:
            res['dis'].append('model gave no answer: %r' % res.get('model_raw'))
    return results


# ------------------------------------------------------------------ C15: both front ends
def expected_front_ends(spec, style, opts):
    """by-construction expectation per collected doctest:
    list of dict(unique, pytest 'P'|'F'|'S', native 'P'|'F'|'S'|None (omitted), trace_pytest, trace_native)"""
    out = []
    for dt in G.inventory(spec, style):
        oc, tr = G.doctest_outcome(dt, opts, bool(spec.get('import_error')))
        pd, nd = G.disabled(dt, pytest=True), G.disabled(dt)
        out.append({'unique': dt['unique'], 'pytest': 'S' if pd else oc, 'native': None if nd else oc,
                    'trace_pytest': [] if pd else tr, 'trace_native': [] if nd else tr,
                    'first_kind': dt['blocks'][0][0]})
    return out


def front_end_lines(real_inv, opts, import_error=False, modtoken='?'):
    """protocol lines of op `front_ends`, one per collected doctest: the doctest is run ONCE in-process
    (run(on_error='return'), primitive part results recorded by corr/runloop.observe) and the model
    predicts both verdicts from that same record.  For a module that raises on import the recording run
    (which has no module to import) is the same, and the model is told `importOk = 0`."""
    from . import runloop
    lines = []
    for (cn, num, uq, src) in real_inv:
        text = src.replace('_trace(', 't(')
        dflt = {k: v for k, v in (opts or {}).items() if not k.startswith('__')}
        if (opts or {}).get('__genv__'):
            text = text.replace('G_VERIF', '41')     # what --global-exec makes available
        text = text.replace('_modval(0)', repr(modtoken))
        buf = io.StringIO()
        with contextlib.redirect_stdout(buf):
            o = runloop.observe(text, on_error='return', defaults=dflt or None)
        if o.get('parse') != 'ok':
            lines.append(None)
            continue
        f = o['line'].split('\t')
        cfg = f[1].split(';')
        # a doctest that ends itself (calls pytest.skip() / raises ExitTestException): the recording helper only
        # knows the exit marker of its own generator, so the primitive result of that part (the last one that
        # was executed, run ended without a failure) is turned into the model's `exit` result here
        logged = sorted(o.get('logged_stdout', {}))
        if o.get('ending') == 'returned' and o.get('kind') is None and logged:
            last = logged[-1]
            psrc = o['parts'][last].source
            if 'pytest.skip(' in psrc or 'ExitTestException' in psrc:
                ri = 3 + 4 * last + 3
                r = f[ri].split(':')
                if r[0] == 'ok':
                    f[ri] = 'exit:%s:%s' % (r[1], enc('Skipped: resource missing\n'))
                elif r[0] == 'raised':
                    f[ri] = 'exit:%s:%s' % (r[1], r[2])
        lines.append('\t'.join(['front_ends', enc(src), cfg[3], '0' if import_error else cfg[1], f[2]] + f[3:]))
    return lines


def parse_front_ends(ans):
    if ans in ('no-oracle', 'bad-op') or ans is None:
        return None
    d = dict(p.split('=', 1) for p in ans.split(' '))
    return {'pytest': d['pytest'].upper(), 'native': None if d['ndis'] == '1' else d['native'].upper(),
            'native_if_run': d['native'].upper(), 'pdis': d['pdis'] == '1', 'ndis': d['ndis'] == '1'}


def model_front_ends(path, style, opts, import_error=False, modtoken='?'):
    """model verdicts of every collected doctest + model exit codes; None entries = not covered"""
    from .. import driver
    inv = real_inventory(path, style)
    lines = front_end_lines(inv, opts, import_error, modtoken)
    idx = [i for i, l in enumerate(lines) if l is not None]
    ans = driver.run_lines([lines[i] for i in idx], jobs=1) if idx else []
    per = [None] * len(inv)
    for i, a in zip(idx, ans):
        per[i] = parse_front_ends(a)
    res = {'names': [r[2] for r in inv], 'per': per, 'pytest_exit': None, 'native_exit': None, 'raw': ans}
    if all(p is not None for p in per):
        vs = ''.join(p['pytest'].lower() for p in per)
        entries = []
        for r, p in zip(inv, per):
            v = p['native_if_run']
            entries.append(('E', r[0], r[1], r[3], 'X' if v == 'ABORT' else BITS[v]))
        a = driver.run_lines(['pytest_exit\t' + (vs or '-'), runner_line('all', entries)], jobs=1)
        res['pytest_exit'] = int(a[0])
        m = parse_runner_answer(a[1])
        res['native_exit'] = m.get('exit')
        res['native_model'] = m
    return res


def _fold_twice(r):
    """a session in which every directory was given twice: both halves must be identical; returns the result
    of one half (exit status unchanged) or marks the difference"""
    r = dict(r)
    for k in ('items', 'lines', 'trace'):
        v = r.get(k)
        if v is None:
            continue
        h = len(v) // 2
        if len(v) % 2 or v[:h] != v[h:]:
            r['twice_problem'] = 'second pass differs from the first: %s %r' % (k, v)
        r[k] = v[:h]
    r['short'] = list(dict.fromkeys(r.get('short') or []))
    return r


def split_pytest_items(r, modnames):
    """items of a pytest batch grouped by module: name -> [(doctest name, outcome)]"""
    by = {m: [] for m in modnames}
    if r['items'] is None:
        return None
    for cls, name, oc in r['items']:
        m = cls.split('.')[-1]
        by.setdefault(m, []).append((name, oc))
    return by


def check_front_ends(d, specs, style, optstr, opts, optflag, tracefile, use_model=True, native_cli=False,
                     per_module_pytest=False, treat=None, twice=False):
    """the modules `specs` through ONE pytest process (or one each) and through the native runner;
    returns list of per-module dicts(spec, problems(bad), disagreements(dis), ...)"""
    junit = os.path.join(d, 'junit.xml')
    out = []
    if treat is not None:
        from . import runnerenv as E
        style, opts = treat['style'], E.oracle_opts(treat)
    exp_all = [expected_front_ends(s, style, opts) for s in specs]
    groups = [[i] for i in range(len(specs))] if per_module_pytest else [list(range(len(specs)))]
    # one directory per pytest process; pytest collects a directory in file-name order
    groups = [sorted(g, key=lambda i: specs[i]['name'] + '.py') for g in groups]
    paths = [None] * len(specs)
    for g in groups:
        sub = os.path.join(d, 'batch%03d' % len([x for x in os.listdir(d) if x.startswith('batch')]))
        os.mkdir(sub)
        for i in g:
            paths[i] = write_module(sub, specs[i])
    pyres = {}
    for g in groups:
        sub = os.path.dirname(paths[g[0]])
        # twice: the same directory named twice in ONE pytest session (--keep-duplicates): every doctest must
        # be collected, run and judged the same way the second time
        r = pytest_subprocess(d, [paths[i] for i in g], style, optflag, optstr, tracefile, junit, treat=treat,
                              extra_args=['--keep-duplicates'] if twice else (), targets=[sub, sub] if twice else None)
        if twice:
            r = _fold_twice(r)
        by = split_pytest_items(r, [specs[i]['name'] for i in g])
        anyf = any(e['pytest'] == 'F' for i in g for e in exp_all[i])
        nitems = sum(len(exp_all[i]) for i in g)
        exp_rc = 5 if nitems == 0 else (1 if anyf else 0)
        exp_trace = [t for i in g for e in exp_all[i] for t in e['trace_pytest']]
        for i in g:
            pyres[i] = (r, by, exp_rc, exp_trace, g)
    for i, spec in enumerate(specs):
        r, by, exp_rc, exp_trace, g = pyres[i]
        exp = exp_all[i]
        dis, bad = [], []
        model = model_front_ends(paths[i], style, opts, bool(spec.get('import_error')), G.mod_token(spec['name'])) if use_model else None
        # ---- pytest side
        if by is None:
            bad.append('pytest wrote no junit xml (rc=%r): %s' % (r['rc'], r['stdout'][-300:]))
            items = None
        else:
            items = by.get(spec['name'], [])
            e_ids = [e['unique'] for e in exp]
            if [n for n, _ in items] != e_ids:
                bad.append('pytest node ids %r, expected %r' % ([n for n, _ in items], e_ids))
            else:
                got = [oc for _, oc in items]
                if got != [e['pytest'] for e in exp]:
                    bad.append('pytest outcomes %r, expected %r (ids %r)' % (got, [e['pytest'] for e in exp], e_ids))
                if model is not None and all(p is not None for p in model['per']) and got != [p['pytest'] for p in model['per']]:
                    dis.append('pytest outcomes %r, model %r' % (got, [p['pytest'] for p in model['per']]))
            # the -v lines and the -rA short summary must tell the same story as the junit xml
            vl = [(n, oc) for f, n, oc in r['lines'] if f == spec['name'] + '.py']
            if vl != items:
                bad.append('pytest -v lines %r differ from junit %r' % (vl, items))
            sh = dict((n, oc) for n, oc in r['short'])
            for n, oc in items:
                if oc in 'PF' and len(g) == 1 and sh.get(n) != oc:
                    bad.append('pytest -rA summary says %r for %s, junit %s' % (sh.get(n), n, oc))
        if i == g[0]:
            if r.get('twice_problem'):
                bad.append('same directory twice in one pytest session: ' + r['twice_problem'][:600])
            if r['rc'] != exp_rc:
                bad.append('pytest exit status %r, expected %r (batch of %d modules)' % (r['rc'], exp_rc, len(g)))
            if r['trace'] != exp_trace:
                bad.append('pytest executed %r, expected %r' % (r['trace'], exp_trace))
            if len(g) == 1 and model is not None and model['pytest_exit'] is not None and r['rc'] != model['pytest_exit']:
                dis.append('pytest exit status %r, model %r' % (r['rc'], model['pytest_exit']))
        # ---- native side
        if treat is None:
            nat = observe_native(paths[i], 'all', style, 1, optstr, tracefile)
        else:
            # the treatment's native arguments / environment; verbosity 1 so that the verdict lines are printed
            nf = E.cli if (native_cli or treat['subprocess_only']) else E.main_inprocess
            nm = nf(paths[i], 'all', list(treat['nat']) + ['--verbose', '1'], treat['env'], os.path.dirname(paths[i]), tracefile)
            nat = {'kind': 'run' if nm['rc'] in (0, 1) else 'raised', 'exc': 'exit status %r: %s' % (nm['rc'], nm['stdout'][-300:]),
                   'verdict_lines': nm['verdict_lines'], 'trace': nm['trace']}
        exp_nat = [(e['native'], e['unique']) for e in exp if e['native'] is not None]
        exp_ntrace = [t for e in exp for t in e['trace_native']]
        if nat['kind'] != 'run':
            bad.append('native run: %s' % (nat.get('exc') or nat['kind']))
        else:
            if nat['verdict_lines'] != exp_nat:
                bad.append('native verdict lines %r, expected %r' % (nat['verdict_lines'], exp_nat))
            if nat['trace'] != exp_ntrace:
                bad.append('native executed %r, expected %r' % (nat['trace'], exp_ntrace))
            if model is not None and all(p is not None for p in model['per']):
                mnat = [(p['native'], n) for p, n in zip(model['per'], model['names']) if p['native'] is not None]
                if nat['verdict_lines'] != mnat:
                    dis.append('native verdict lines %r, model %r' % (nat['verdict_lines'], mnat))
        lst = observe_native(paths[i], 'list', style, 1, optstr, tracefile,
                             analysis='dynamic' if is_attached(paths[i]) else 'auto')
        if lst['kind'] == 'list' and items is not None and lst['names'] != [n for n, _ in items]:
            bad.append('native `list` names %r, pytest node ids %r' % (lst['names'], [n for n, _ in items]))
        if treat is None:
            f = cli_subprocess if native_cli else main_inprocess
            m = f(paths[i], 'all', style, ['--verbose', '1'], optstr, tracefile)
        else:
            m = nm
        exp_nrc = 1 if any(e['native'] == 'F' for e in exp) else 0
        if m['rc'] != exp_nrc:
            bad.append('native exit status %r, expected %r' % (m['rc'], exp_nrc))
        if m['verdict_lines'] != exp_nat:
            bad.append('native CLI verdict lines %r, expected %r' % (m['verdict_lines'], exp_nat))
        if model is not None and model['native_exit'] is not None and m['rc'] != model['native_exit']:
            dis.append('native exit status %r, model %r' % (m['rc'], model['native_exit']))
        # ---- the property itself: same verdict for every doctest that is not force-disabled
        if items is not None and nat['kind'] == 'run':
            nd = dict((n, oc) for oc, n in nat['verdict_lines'])
            for n, oc in items:
                if n in nd and nd[n] != oc:
                    bad.append('VERDICTS DIFFER for %s: pytest %s, native %s' % (n, oc, nd[n]))
                if n not in nd and oc != 'S':
                    bad.append('%s omitted natively but %s under pytest' % (n, oc))
        if use_model and model is not None and any(p is None for p in model['per']):
            unknown = sum(1 for p in model['per'] if p is None)
        else:
            unknown = 0
        out.append({'spec': spec, 'bad': bad, 'dis': dis, 'unknown': unknown, 'n_doctests': len(exp),
                    'pytest_items': items, 'pytest_rc': r['rc'], 'batch': len(g),
                    'native': nat.get('verdict_lines'), 'native_rc': m['rc'], 'expected': [
                        {k: e[k] for k in ('unique', 'pytest', 'native')} for e in exp],
                    'model': (model or {}).get('raw')})
    return out

"""
Real-code side of the C12 correspondence: process-state snapshots around DocTest.run,
utils.import_module_from_path and PythonPathContext, rendered in the vocabulary of the bracket model
(lean/XdocModel/Bracket.lean, driver ops `runbracket` and `ppc`).

Object ids: 1 = sys.stdout before, 2 = sys.stderr before, 3 = the warnings.filters list before (its
contents are rendered as `7,8` while they equal the copy taken before), 4 = warnings.showwarning,
5 = warnings._showwarnmsg_impl, 10..19 = the objects `OBJ[n]` a generated doctest can install,
999 = anything else.
"""
import asyncio
import contextlib
import io
import os
import sys
import warnings

from ..codec import enc, enc_list

HEADER = ('import sys, io, warnings, asyncio\n'
          'from xdoctest.exceptions import ExitTestException\n'
          'OBJ = {n: io.StringIO() for n in range(10, 20)}\n'
          'sys.xv12_OBJ = OBJ\n'
          'def _exit():\n'
          '    raise ExitTestException()\n'
          'def _show(*a, **k):\n'
          '    pass\n')

OBJ_REGISTRY = {}     # id(object) -> small id, filled from the imported module


class Snapshot(object):
    def __init__(self):
        self.stdout = sys.stdout
        self.stderr = sys.stderr
        self.filters = warnings.filters
        self.filters_copy = list(warnings.filters)
        self.show = warnings.showwarning
        self.impl = getattr(warnings, '_showwarnmsg_impl', None)
        self.path = list(sys.path)
        # further process-global state a run can reach through module lookups
        self.environ = dict(os.environ)
        self.cwd = os.getcwd()
        self.argv = list(sys.argv)
        self.modules = set(sys.modules)

    def extras_diff(self, lookup_only=()):
        """differences in os.environ, cwd, sys.argv; names that were only LOOKED UP (REQUIRES(module:…), name
        resolution) must not have been imported"""
        out = []
        if dict(os.environ) != self.environ:
            ch = sorted(k for k in set(os.environ) | set(self.environ) if os.environ.get(k) != self.environ.get(k))
            out.append('os.environ changed: %r' % ch[:5])
        try:
            cwd = os.getcwd()
        except OSError as e:
            cwd = repr(e)
        if cwd != self.cwd:
            out.append('cwd changed: %r -> %r' % (self.cwd, cwd))
        if list(sys.argv) != self.argv:
            out.append('sys.argv changed: %r -> %r' % (self.argv, list(sys.argv)))
        imported = [n for n in lookup_only if n in sys.modules and n not in self.modules]
        if imported:
            out.append('modules that were only looked up got imported: %r' % imported)
        return out

    def restore_extras(self):
        os.environ.clear()
        os.environ.update(self.environ)
        try:
            os.chdir(self.cwd)
        except OSError:
            pass
        sys.argv[:] = self.argv

    def _oid(self, o, orig, oid, objs):
        if o is orig:
            return oid
        for n, x in objs.items():
            if o is x:
                return n
        return 999

    def render_now(self, objs):
        """the CURRENT process state in the model's vocabulary, relative to this snapshot"""
        same_list = warnings.filters is self.filters
        same_items = list(warnings.filters) == self.filters_copy
        filt = '%s:%s' % ('3' if same_list else '999', '7,8' if same_items else 'changed')
        return 'out=%d err=%d filt=%s show=%d impl=%d path=%s' % (
            self._oid(sys.stdout, self.stdout, 1, objs), self._oid(sys.stderr, self.stderr, 2, objs), filt,
            4 if warnings.showwarning is self.show else 999,
            5 if getattr(warnings, '_showwarnmsg_impl', None) is self.impl else 999,
            enc_list(list(sys.path)))

    def render_before(self):
        return 'out=1 err=2 filt=3:7,8 show=4 impl=5 path=%s' % enc_list(self.path)

    def loop_running(self):
        return asyncio._get_running_loop() is not None

    def restore(self):
        sys.stdout, sys.stderr = self.stdout, self.stderr
        warnings.filters = self.filters
        warnings.filters[:] = self.filters_copy
        warnings.showwarning = self.show
        if self.impl is not None:
            warnings._showwarnmsg_impl = self.impl
        if hasattr(warnings, '_filters_mutated'):
            warnings._filters_mutated()
        sys.path[:] = self.path


PATH_VARIANTS = [None, 'empty-front', 'empty-middle', 'empty-end', 'dot-front', 'dup', 'empty-dup', 'empty-and-dot',
                 'moddir-front', 'moddir-middle']


class PathVariant(object):
    """give sys.path one of the shapes a real process has — '' for the current directory (python -c, stdin, REPL),
    '.', duplicated entries — and make the scratch directory the current directory, so that '' resolves the
    generated modules; everything is put back on exit"""

    def __init__(self, variant, tmpdir):
        self.variant = variant
        self.tmpdir = tmpdir

    def __enter__(self):
        self.saved = list(sys.path)
        self.cwd = os.getcwd()
        v = self.variant
        if v is None:
            return self
        os.chdir(self.tmpdir)
        p = [x for x in sys.path if x not in ('', '.')]
        mid = max(1, len(p) // 2)
        if v == 'empty-front':
            p.insert(0, '')
        elif v == 'empty-middle':
            p.insert(mid, '')
        elif v == 'empty-end':
            p.append('')
        elif v == 'dot-front':
            p.insert(0, '.')
        elif v == 'dup':
            p.insert(mid, p[-1])
            p.append(p[0])
        elif v == 'empty-dup':
            p.insert(0, '')
            p.insert(mid, '')
        elif v == 'empty-and-dot':
            p.insert(1, '')
            p.append('.')
        elif v == 'moddir-front':
            # the directory of the module under test is ALREADY a search path entry (project root of `python -m`, a PYTHONPATH
            # entry, pytest's rootdir), before the entries it must keep precedence over
            p.insert(0, self.tmpdir)
        elif v == 'moddir-middle':
            p.insert(mid, self.tmpdir)
        sys.path[:] = p
        return self

    def __exit__(self, *a):
        sys.path[:] = self.saved
        try:
            os.chdir(self.cwd)
        except OSError:
            pass


_FRESH = [0]


def fresh_name(tag='q'):
    """a module name this process never looked up (directive._MODNAME_EXISTS_CACHE would hide a second lookup)"""
    _FRESH[0] += 1
    return 'xv12%s_%d_%d' % (tag, os.getpid(), _FRESH[0])


def make_existing(tmpdir, tag='e'):
    """a never-seen module that EXISTS in the scratch directory"""
    n = fresh_name(tag)
    with open(os.path.join(tmpdir, n + '.py'), 'w') as f:
        f.write('X = 1\n')
    return n


# ------------------------------------------------------------------ statements of generated bodies
def op_stmt(op):
    """protocol op -> python statement"""
    f = op.split('.')
    if f[0] == 'so':
        return 'sys.stdout = OBJ[%s]' % f[1]
    if f[0] == 'af':
        return "warnings.simplefilter('error')"
    if f[0] == 'rf':
        return 'warnings.filters = []'
    if f[0] == 'sw':
        return 'warnings.showwarning = _show'
    if f[0] == 'pa':
        return 'sys.path.append(%r)' % dec_name(f[1])
    if f[0] == 'pi':
        return 'sys.path.insert(%s, %r)' % (f[1], dec_name(f[2]))
    if f[0] == 'pr':
        return 'sys.path.remove(%r) if %r in sys.path else None' % (dec_name(f[1]), dec_name(f[1]))
    if f[0] == 'pp':
        return 'sys.path.pop() if sys.path else None'
    raise KeyError(op)


def dec_name(e):
    return ''.join(chr(int(t)) for t in e.split(','))


TRACEBACK_WANT = ['Traceback (most recent call last):', '    ...', 'ValueError: v']


def part_lines(part, k):
    """a logical part of a generated doctest -> list of (source line, want lines or None, line info)
    line info = dict(ops=[...], end=n|e|s|k, stop=bool, cont=bool, lr=bool)"""
    out = []
    for e in part['effects']:
        if e == 'print':
            out.append(("print('p%d')" % k, None, {'ops': []}))
        elif e == 'await':
            out.append(('await asyncio.sleep(0)', None, {'ops': []}))
        elif e.startswith('rq:'):
            # a by-name module lookup with a never-seen name; `-REQUIRES` evaluates the requirement and never skips
            out.append(('# xdoctest: -REQUIRES(module:%s)' % e[3:], None, {'ops': []}))
        elif e.startswith('rqi:'):
            out.append(("print('p%d')  # xdoctest: -REQUIRES(module:%s)" % (k, e[4:]), None, {'ops': []}))
        else:
            out.append((op_stmt(e), None, {'ops': [e]}))
    kind = part['kind']
    if kind == 'pass':
        out.append(('print(%d)' % k, [str(k)], {'ops': []}))
    elif kind == 'mismatch':
        out.append(('print(%d)' % k, ['no'], {'ops': [], 'stop': True}))
    elif kind == 'exception':
        out.append(("raise ValueError('v')", None, {'ops': [], 'end': 'e'}))
    elif kind == 'expected':
        out.append(("raise ValueError('v')", TRACEBACK_WANT, {'ops': [], 'end': 'e', 'cont': True}))
    elif kind == 'exit':
        out.append(('_exit()', None, {'ops': [], 'end': 'e'}))
    elif kind == 'sysexit':
        out.append(('raise SystemExit(3)', None, {'ops': [], 'end': 's'}))
    elif kind == 'kbd':
        out.append(('raise KeyboardInterrupt', None, {'ops': [], 'end': 'k'}))
    elif kind == 'close':
        out.append(('sys.stdout.close()', None, {'ops': [], 'lr': True}))
    else:
        raise KeyError(kind)
    return out


def render_module(spec):
    """spec: top=[ops], import_end=n|e|s|k, allskip=bool, parts=[{effects, kind}]"""
    src = HEADER
    for op in spec.get('top', []):
        src += op_stmt(op) + '\n'
    ie = spec.get('import_end', 'n')
    if ie == 'e':
        src += "raise RuntimeError('import fails')\n"
    elif ie == 's':
        src += 'raise SystemExit(4)\n'
    elif ie == 'k':
        src += 'raise KeyboardInterrupt\n'
    lines = []
    infos = []
    if spec.get('allskip'):
        lines.append('>>> # xdoctest: +SKIP')
        infos.append(None)
    for k, part in enumerate(spec['parts']):
        for text, want, info in part_lines(part, k):
            lines.append('>>> ' + text)
            infos.append(info)
            for w in (want or []):
                lines.append(w)
    body = ''.join('        ' + l + '\n' for l in lines)
    src += '\ndef f():\n    """\n    Example:\n' + body + '    """\n'
    return src, [i for i in infos if i is not None]


def model_parts(ex, infos, allskip):
    """the executed REAL parts as `runbracket` part fields"""
    if allskip:
        return []
    fields = []
    pos = 0
    for p in ex._parts:
        n = len(p.exec_lines)
        mine = infos[pos:pos + n]
        pos += n
        ops, end, stop, cont, lr = [], 'n', False, False, False
        replaced = False     # sys.stdout replaced earlier in this part: `sys.stdout.close()` closes that object
        for info in mine:
            ops.extend(info.get('ops', []))
            replaced = replaced or any(o.startswith('so.') for o in info.get('ops', []))
            stop = stop or info.get('stop', False)
            lr = lr or (info.get('lr', False) and not replaced)
            if info.get('end', 'n') != 'n':
                end = info['end']
                cont = info.get('cont', False)
                break
        fields.append('%s:%s:%d:%d' % ('/'.join(ops) or '~', end, 1 if cont else 0, 1 if lr else 0))
        if stop or lr or (end != 'n' and not cont):
            break
    return fields


def ending_class(exc):
    if exc is None:
        return 'normal'
    if isinstance(exc, SystemExit):
        return 'SystemExit'
    if isinstance(exc, KeyboardInterrupt):
        return 'KeyboardInterrupt'
    if isinstance(exc, Exception):
        return 'exception'
    return 'exception'   # pytest's Skipped / other BaseException subclasses


def coarse(ending):
    """the model distinguishes a part that ended with an Exception from a normal end; `run` turns
    both into 'returned' or 'raised' depending on on_error: compared modulo that"""
    return 'ok' if ending in ('normal', 'exception') else ending


def run_doctest_case(spec, tmpdir, name):
    """returns dict(model_line, observed, before, after, loop, module_imported)"""
    from xdoctest import core
    if getattr(sys.stdout, 'closed', False):
        sys.stdout = sys.__stdout__      # a stream an earlier case left closed must not take the harness down
    src, infos = render_module(spec)
    modpath = os.path.join(tmpdir, name + '.py')
    with open(modpath, 'w') as f:
        f.write(src)
    with warnings.catch_warnings():
        warnings.simplefilter('ignore')
        exs = [e for e in core.parse_doctestables(modpath, style='auto', analysis='static') if e.callname == 'f']
    ex = exs[0]
    ex.mode = spec.get('mode', 'native')
    ex._parse()
    werr = bool(spec.get('warn_error'))
    outer = warnings.catch_warnings()
    outer.__enter__()
    if werr:
        warnings.simplefilter('error')      # the process runs with warnings turned into errors
    pv = PathVariant(spec.get('path_variant'), tmpdir)
    pv.__enter__()
    snap = Snapshot()
    exc = None
    extras = []
    rerun_fails = []
    try:
        try:
            ex.run(on_error=spec.get('on_error', 'return'), verbose=0)
        except BaseException as e:   # noqa
            exc = e
        objs = dict(getattr(sys, 'xv12_OBJ', {}))     # registered by the generated module, even if its import fails later
        after = snap.render_now(objs)
        loop = snap.loop_running()
        extras = snap.extras_diff(spec.get('lookup_only', ()))
        # the SAME DocTest object run again while ANOTHER stream is sys.stdout (a redirection that was not there during the
        # first run: capsys, redirect_stdout, a retry wrapper): after each run sys.stdout must be the object it was before THAT run
        for i in range(int(spec.get('reruns', 0))):
            if sys.stdout is not snap.stdout:
                break       # the FIRST run already left another stream behind (reported by the state comparison): nothing to add
            mine = io.StringIO()
            held, sys.stdout = sys.stdout, mine
            path_before = list(sys.path)
            try:
                try:
                    ex.run(on_error=spec.get('on_error', 'return'), verbose=0)
                except BaseException:   # noqa
                    pass
                if sys.stdout is not mine:
                    rerun_fails.append('run %d of the same DocTest object, started with a fresh stream as sys.stdout: afterwards sys.stdout is %s' % (
                        i + 2, 'the stream of an EARLIER run' if sys.stdout is held or sys.stdout is snap.stdout else 'another object (%s)' % type(sys.stdout).__name__))
                if not spec.get('edits_path') and list(sys.path) != path_before:
                    rerun_fails.append('run %d of the same DocTest object: sys.path %r before, %r after' % (i + 2, path_before, list(sys.path)))
            finally:
                sys.stdout = held
    finally:
        snap.restore()
        snap.restore_extras()
        pv.__exit__()
        outer.__exit__(None, None, None)
        sys.modules.pop(name, None)
        if hasattr(sys, 'xv12_OBJ'):
            del sys.xv12_OBJ
    failed = ex.exc_info is not None
    real_end = ending_class(exc)
    parts = model_parts(ex, infos, spec.get('allskip'))
    pre = '%s:-1:%s:%s:%d' % (enc(tmpdir), '/'.join(t for t in spec.get('top', [])) or '~', spec.get('import_end', 'n'),
                              1 if werr else 0)
    line = '\t'.join(['runbracket', '1,2,3,4,5', '7,8', enc_list(snap.path), pre] + parts)
    return {'model_line': line, 'observed': '%s %s' % (coarse(real_end), after), 'before': snap.render_before(),
            'after': after, 'loop': loop, 'source': src, 'real_end': real_end, 'failed': failed, 'extras': extras,
            'path_before': snap.path, 'exc': repr(exc)[:200] if exc is not None else None, 'rerun_fails': rerun_fails}


def normalize_model(ans):
    e, rest = ans.split(' ', 1)
    return '%s %s' % (coarse(e), rest)


# ------------------------------------------------------------------ import_module_from_path
def run_import_case(spec, tmpdir, name):
    """spec: exists, top=[ops], import_end, index"""
    from xdoctest.utils import util_import
    modpath = os.path.join(tmpdir, name + '.py')
    if spec.get('exists', True):
        src = 'import sys\n'
        for op in spec.get('top', []):
            src += op_stmt(op) + '\n'
        ie = spec.get('import_end', 'n')
        src += {'n': 'X = 1\n', 'e': "raise ValueError('import fails')\n", 's': 'raise SystemExit(4)\n',
                'k': 'raise KeyboardInterrupt\n'}[ie]
        with open(modpath, 'w') as f:
            f.write(src)
    else:
        src = None
    snap = Snapshot()
    exc = None
    warned = 0
    werr = bool(spec.get('warn_error'))
    try:
        with warnings.catch_warnings(record=not werr) as wl:
            # warn_error: the process runs with warnings turned into errors (-W error)
            warnings.simplefilter('error' if werr else 'always')
            try:
                util_import.import_module_from_path(modpath, index=spec.get('index', -1))
            except BaseException as e:   # noqa
                exc = e
            warned = len([w for w in (wl or []) if 'PythonPathContext' in str(w.message)])
        after_path = list(sys.path)
        after = snap.render_now({})
    finally:
        snap.restore()
        sys.modules.pop(name, None)
    if exc is None:
        result = 'ok'
    elif isinstance(exc, (SystemExit, KeyboardInterrupt)):
        result = type(exc).__name__
    elif isinstance(exc, RuntimeError):
        result = 'RuntimeError'
    elif isinstance(exc, IOError):
        result = 'IOError'
    else:
        result = 'other:' + type(exc).__name__
    events = ['new:%s:%d' % (enc(tmpdir), spec.get('index', -1)), 'enter:0']
    for op in spec.get('top', []):
        f = op.split('.')
        events.append({'pa': lambda: 'app:' + f[1], 'pi': lambda: 'ins:%s:%s' % (f[1], f[2]), 'pr': lambda: 'rem:' + f[1],
                       'pp': lambda: 'pop'}[f[0]]())
    events.append('exitw:0' if werr else 'exit:0')
    line = '\t'.join(['ppc', enc_list(snap.path), '|'.join(events)])
    return {'model_line': line, 'result': result, 'before_path': snap.path, 'after_path': after_path, 'warned': warned,
            'source': src, 'after': after, 'before': snap.render_before(), 'exc': repr(exc)[:300] if exc else None}


def expected_import_result(spec, model_answer):
    """glue: what import_module_from_path does, given the model's PythonPathContext answer"""
    if not spec.get('exists', True):
        return 'IOError', None
    last = model_answer.split('\t')[-1]
    res, path = last.split('/', 1)
    ie = spec.get('import_end', 'n')
    if res in ('RuntimeError', 'IndexError', 'warnRaised'):
        result = 'RuntimeError'          # raised by __exit__, wrapped by _custom_import_modpath (an Exception)
        if ie in ('s', 'k'):
            result = 'RuntimeError'      # the exception of __exit__ replaces the propagating BaseException
    elif ie == 'e':
        result = 'RuntimeError'
    elif ie == 's':
        result = 'SystemExit'
    elif ie == 'k':
        result = 'KeyboardInterrupt'
    else:
        result = 'ok'
    return result, (res, path)


# ------------------------------------------------------------------ PythonPathContext histories
def run_ppc_history(path0, events):
    """events as for the driver op `ppc`; runs them on the REAL sys.path (temporarily replaced by the
    synthetic list `path0`); returns the per-event answers in the driver's format"""
    from xdoctest.utils.util_import import PythonPathContext
    saved = list(sys.path)
    objs = []
    out = []
    try:
        with warnings.catch_warnings(record=True) as wl:
            warnings.simplefilter('always')
            sys.path[:] = list(path0)
            for ev in events:
                f = ev.split(':')
                res = '-'
                if f[0] == 'new':
                    objs.append(PythonPathContext(dec_name(f[1]), int(f[2])))
                elif f[0] == 'enter':
                    o = objs[int(f[1])]
                    o.__enter__()
                    res = 'idx=%d' % o.index
                elif f[0] == 'exit':
                    o = objs[int(f[1])]
                    n0 = len(wl)
                    try:
                        o.__exit__(None, None, None)
                        res = 'recovered' if len(wl) > n0 else 'clean'
                    except RuntimeError:
                        res = 'RuntimeError'
                    except IndexError:
                        res = 'IndexError'
                elif f[0] == 'exitw':
                    o = objs[int(f[1])]
                    with warnings.catch_warnings():
                        warnings.simplefilter('error')
                        try:
                            o.__exit__(None, None, None)
                            res = 'clean'
                        except RuntimeError:
                            res = 'RuntimeError'
                        except IndexError:
                            res = 'IndexError'
                        except UserWarning:
                            res = 'warnRaised'
                elif f[0] == 'ins':
                    sys.path.insert(int(f[1]), dec_name(f[2]))
                elif f[0] == 'app':
                    sys.path.append(dec_name(f[1]))
                elif f[0] == 'rem':
                    if dec_name(f[1]) in sys.path:
                        sys.path.remove(dec_name(f[1]))
                elif f[0] == 'pop':
                    if sys.path:
                        sys.path.pop()
                out.append('%s/%s' % (res, enc_list(list(sys.path))))
    finally:
        sys.path[:] = saved
    return '\t'.join(out)


# ------------------------------------------------------------------ by-name lookups
LOOKUP_ACTIONS = ['module_exists', 'modname_to_modpath', 'static_modname_to_modpath', 'is_modname_importable', 'rectify',
                  'requires_directive', 'doctest_module_by_name', 'doctest_module_by_name_list']


def run_lookup_case(spec, tmpdir):
    """spec: action, path_variant, exists(bool). One by-name lookup of a never-seen module name; the process state
    (exact sys.path list, environ, cwd, argv, sys.modules, stdout/filters) before and after"""
    from xdoctest import directive, static_analysis, core, runner
    from xdoctest.utils import util_import
    action = spec['action']
    by_name_run = action.startswith('doctest_module')
    if spec.get('exists') or by_name_run:
        name = fresh_name('m')
        with open(os.path.join(tmpdir, name + '.py'), 'w') as f:
            f.write('def f():\n    """\n    Example:\n        >>> # xdoctest: -REQUIRES(module:%s)\n        >>> print(1)\n        1\n    """\n'
                    % fresh_name('z'))
    else:
        name = fresh_name('n')
    pv = PathVariant(spec.get('path_variant'), tmpdir)
    pv.__enter__()
    if spec.get('path_variant') in (None, 'dot-front', 'dup') and (spec.get('exists') or by_name_run):
        sys.path.append(tmpdir)           # reachable through an explicit entry instead of '' / '.'
    snap = Snapshot()
    exc = None
    result = None
    try:
        try:
            buf = io.StringIO()
            with contextlib.redirect_stdout(buf):
                if action == 'module_exists':
                    result = directive._module_exists(name)
                elif action == 'modname_to_modpath':
                    result = util_import.modname_to_modpath(name) is not None
                elif action == 'static_modname_to_modpath':
                    result = static_analysis.modname_to_modpath(name) is not None
                elif action == 'is_modname_importable':
                    result = static_analysis.is_modname_importable(name)
                elif action == 'rectify':
                    try:
                        result = core._rectify_to_modpath(name) is not None
                    except ValueError:
                        result = False
                elif action == 'requires_directive':
                    result = directive._is_requires_satisfied('module:' + name)
                elif action == 'doctest_module_by_name':
                    r = runner.doctest_module(name, command='all', argv=[''], verbose=0)
                    result = (r.get('n_passed'), r.get('n_failed'))
                elif action == 'doctest_module_by_name_list':
                    r = runner.doctest_module(name, command='list', argv=[''], verbose=0)
                    result = r.get('action')
        except BaseException as e:   # noqa
            exc = e
        # redirect_stdout is closed here: sys.stdout is what it was
        after = snap.render_now({})
        extras = snap.extras_diff(() if by_name_run else (name,))
        after_path = list(sys.path)
    finally:
        snap.restore()
        snap.restore_extras()
        pv.__exit__()
        sys.modules.pop(name, None)
    return {'name': name, 'result': result, 'exc': repr(exc)[:200] if exc is not None else None, 'before': snap.render_before(),
            'after': after, 'extras': extras, 'path_before': snap.path, 'path_after': after_path}

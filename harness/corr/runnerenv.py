"""
Treatments: everything OUTSIDE the module text that can change which doctests run or how they are judged —
CLI options of `python -m xdoctest`, the corresponding pytest options, pytest ini files, XDOCTEST_* environment
variables, NO_COLOR, the working directory, the way the module is named, a terminal as stdout — each with
its by-construction EFFECT on the oracle (most have none).  Used by harness/props/C10.py and C15.py.

A treatment is a dict:
    nat   : extra arguments of the native CLI                pyt : extra arguments of pytest
    env   : environment variables (both front ends)          ini : lines for the [pytest] section of pytest.ini
    style : style the doctests are collected with (overrides the base style; `nat_style_only`: the native CLI
            alone honours it)                                 opts: directive defaults it sets (name -> bool)
    genv  : True when G_VERIF = 41 is made available          verbose: effective native verbosity (None = unchanged)
    subprocess_only: read at import time / needs a fresh process
"""
import os
import pty
import subprocess
import sys

from . import runnercorr as R

GEXEC = 'G_VERIF = 41'
GEXEC2 = 'G_VERIF = 40\\nG_VERIF += 1'       # the CLI turns a literal backslash-n into a newline


def T(name, **kw):
    d = {'name': name, 'nat': [], 'pyt': [], 'env': {}, 'ini': [], 'style': None, 'opts': None, 'genv': False,
         'verbose': None, 'subprocess_only': False, 'nat_only': False}
    d.update(kw)
    return d


COSMETIC = [
    T('offset', nat=['--offset'], pyt=['--xdoctest-offset']),
    T('nocolor', nat=['--nocolor'], pyt=['--xdoctest-nocolor']),
    T('colored', nat=['--colored', '1'], pyt=['--xdoctest-colored=1']),
    T('report-ndiff', nat=['--report', 'ndiff'], pyt=['--xdoctest-report=ndiff']),
    T('report-cdiff', nat=['--report', 'cdiff'], pyt=['--xdoctest-report=cdiff']),
    T('report-none', nat=['--report', 'none'], pyt=['--xdoctest-report=none']),
    T('report-first', nat=['--report', 'only_first_failure'], pyt=['--xdoctest-report=only_first_failure']),
    T('durations', nat=['--durations', '3'], pyt=['--durations=3']),
    T('durations0', nat=['--durations', '0'], pyt=['--durations=0']),
    T('time', nat=['--time']),
    T('supress-import-errors', nat=['--supress-import-errors'], pyt=['--xdoctest-supress-import-errors']),
    T('env-NO_COLOR', env={'NO_COLOR': '1'}, subprocess_only=True),
    T('env-REPORT', env={'XDOCTEST_REPORT': 'cdiff'}),
    T('env-DEBUG', env={'XDOCTEST_DEBUG': '1'}, subprocess_only=True),
    T('env-DEBUG_RUNNER', env={'XDOCTEST_DEBUG_RUNNER': 'yes'}, subprocess_only=True),
    T('env-DEBUG_CORE', env={'XDOCTEST_DEBUG_CORE': 'on'}, subprocess_only=True),
]
ANALYSIS = [
    T('analysis-static', nat=['--analysis', 'static'], pyt=['--xdoctest-analysis=static']),
    T('analysis-dynamic', nat=['--analysis', 'dynamic'], pyt=['--xdoctest-analysis=dynamic'], needs_import=True),
    T('analysis-auto', nat=['--analysis', 'auto'], pyt=['--xdoc-analysis=auto']),
    T('env-ANALYSIS', env={'XDOCTEST_ANALYSIS': 'dynamic'}, needs_import=True),
]
GLOBAL_EXEC = [
    T('global-exec', nat=['--global-exec', GEXEC], pyt=['--xdoctest-global-exec=' + GEXEC], genv=True),
    T('global-exec-2lines', nat=['--global-exec=' + GEXEC2], pyt=['--xdoc-global-exec=' + GEXEC2], genv=True),
    T('env-GLOBAL_EXEC', env={'XDOCTEST_GLOBAL_EXEC': GEXEC}, genv=True),
    T('ini-global-exec', nat=['--global-exec', GEXEC], ini=['addopts = --xdoctest-global-exec="%s"' % GEXEC], genv=True),
]
VERBOSITY = [
    T('verbose0', nat=['--verbose', '0'], pyt=['--xdoctest-verbose=0'], verbose=0),
    T('verbose1', nat=['--verbose', '1'], pyt=['--xdoctest-verbose=1'], verbose=1),
    T('verbose2', nat=['--verbose', '2'], pyt=['--xdoctest-verbose=2'], verbose=2),
    T('verbose3', nat=['--verbose', '3'], pyt=['--xdoctest-verbose=3'], verbose=3),
    T('quiet', nat=['--quiet'], pyt=['--xdoctest-quiet'], verbose=1),
    T('silent', nat=['--silent'], pyt=['--xdoctest-silent'], verbose=0),
    T('env-VERBOSE1', env={'XDOCTEST_VERBOSE': '1'}, verbose=1),
    T('env-VERBOSE0', env={'XDOCTEST_VERBOSE': '0'}, verbose=0),
]


def option_treatments(optstr, opts):
    """ways of passing the directive defaults `optstr` (None = none): flag, environment, flag over environment,
    pytest ini `addopts`"""
    if optstr is None:
        return [T('no-options'), T('env-OPTIONS-empty', env={'XDOCTEST_OPTIONS': ''})]
    return [
        T('options-flag', nat=['--options=' + optstr], pyt=['--xdoctest-options=' + optstr], opts=opts),
        T('options-flag-xdoc', nat=['--options', optstr] if not optstr.startswith('-') else ['--options=' + optstr],
          pyt=['--xdoc-options=' + optstr], opts=opts),
        T('env-OPTIONS', env={'XDOCTEST_OPTIONS': optstr}, opts=opts),
        T('flag-over-env', nat=['--options=' + optstr], pyt=['--xdoctest-options=' + optstr],
          env={'XDOCTEST_OPTIONS': '+SKIP' if optstr != '+SKIP' else '-ELLIPSIS'}, opts=opts),
        T('ini-addopts-options', nat=['--options=' + optstr], ini=['addopts = --xdoctest-options=%s' % optstr.replace(' ', '')],
          opts=opts),
    ]


def style_treatments(style):
    other = {'google': 'freeform', 'freeform': 'google', 'auto': 'google'}[style]
    return [
        T('style-flag', nat=['--style', style], pyt=['--xdoctest-style=' + style], style=style),
        T('style-flag-xdoc', nat=['--style=' + style], pyt=['--xdoc-style=' + style], style=style),
        T('style-flag-over-env', nat=['--style', style], pyt=['--xdoctest-style=' + style],
          env={'XDOCTEST_STYLE': other}, style=style),
        T('style-ini', nat=['--style', style], ini=['addopts = --xdoctest-style=%s' % style], style=style),
        # the native CLI alone reads XDOCTEST_STYLE (pytest's --xdoctest-style default is a constant)
        T('env-STYLE', env={'XDOCTEST_STYLE': style}, style=style, nat_only=True),
    ]


def combine(ts):
    """merge treatments (later ones win on conflicts of the same kind; callers avoid those)"""
    out = T('+'.join(t['name'] for t in ts))
    inis = []
    for t in ts:
        out['nat'] = out['nat'] + t['nat']
        out['pyt'] = out['pyt'] + t['pyt']
        out['env'] = dict(out['env'], **t['env'])
        inis += t['ini']
        for k in ('style', 'opts', 'verbose'):
            if t[k] is not None:
                out[k] = t[k]
        out['genv'] = out['genv'] or t['genv']
        out['subprocess_only'] = out['subprocess_only'] or t['subprocess_only']
        out['nat_only'] = out['nat_only'] or t['nat_only']
        out['needs_import'] = out.get('needs_import') or t.get('needs_import')
    # several `addopts` lines must become one
    add = [l.split('=', 1)[1].strip() for l in inis if l.startswith('addopts')]
    out['ini'] = [l for l in inis if not l.startswith('addopts')] + (['addopts = ' + ' '.join(add)] if add else [])
    return out


def draw(rng, style, optstr, opts, for_pytest=False, quick=True):
    """a random combination: always a way of passing the style and the options, plus up to three others"""
    sts = [t for t in style_treatments(style) if not (for_pytest and t['nat_only'])]
    ts = [rng.choice(sts), rng.choice(option_treatments(optstr, opts))]
    if rng.random() < 0.6:
        ts.append(rng.choice(COSMETIC))
    if rng.random() < 0.4:
        ts.append(rng.choice(ANALYSIS))
    if rng.random() < 0.45:
        ts.append(rng.choice(GLOBAL_EXEC))
    if rng.random() < 0.5:
        ts.append(rng.choice(VERBOSITY))
    if for_pytest:
        # one addopts source at a time keeps the ini file readable; drop duplicates of ini-carried flags
        seen_ini = False
        keep = []
        for t in ts:
            if t['ini']:
                if seen_ini:
                    continue
                seen_ini = True
            keep.append(t)
        ts = keep
    else:
        ts = [dict(t, ini=[]) for t in ts]
    return combine(ts)


def oracle_opts(t):
    """the `opts` dict handed to the by-construction oracle"""
    o = dict(t['opts'] or {})
    if t['genv']:
        o['__genv__'] = True
    return o


# ------------------------------------------------------------------ running the native CLI
def _parse(out, rc, tracefile):
    return {'rc': rc, 'stdout': out, 'summary_line': R.summary_line(out), 'verdict_lines': R.verdict_lines(out),
            'finished_line': R.finished_line(out), 'trace': R.read_trace(tracefile), 'kind': 'cli',
            'names': [l.strip().split(' ')[-1] for l in out.replace('\r', '').splitlines()
                      if l.strip().startswith('python -m xdoctest ')]}


def cli(target, cmd, args, env_extra, cwd, tracefile, use_pty=False, pythonpath=None, timeout=300):
    """`python -m xdoctest <target> [cmd] <args>` in a fresh process; `use_pty`: stdout is a terminal"""
    argv = [sys.executable, '-m', 'xdoctest', target] + ([cmd] if cmd is not None else []) + list(args)
    env = R.clean_env(tracefile)
    env.update(env_extra or {})
    if pythonpath:
        env['PYTHONPATH'] = env.get('PYTHONPATH', '') + os.pathsep + pythonpath
    R.read_trace(tracefile)
    if not use_pty:
        p = subprocess.run(argv, cwd=cwd, env=env, stdout=subprocess.PIPE, stderr=subprocess.STDOUT, timeout=timeout)
        return _parse(p.stdout.decode('utf8', 'replace'), p.returncode, tracefile)
    m, s = pty.openpty()
    p = subprocess.Popen(argv, cwd=cwd, env=env, stdin=s, stdout=s, stderr=s, close_fds=True)
    os.close(s)
    chunks = []
    while True:
        try:
            b = os.read(m, 65536)
        except OSError:
            break
        if not b:
            break
        chunks.append(b)
    p.wait(timeout=timeout)
    os.close(m)
    return _parse(b''.join(chunks).decode('utf8', 'replace').replace('\r\n', '\n'), p.returncode, tracefile)


def main_inprocess(target, cmd, args, env_extra, cwd, tracefile):
    """`xdoctest.__main__.main(argv)` in this process with the environment / cwd of the treatment"""
    import contextlib
    import io
    import warnings
    from xdoctest import __main__ as xmain
    argv = ['xdoctest', target] + ([cmd] if cmd is not None else []) + list(args)
    saved = {k: os.environ.get(k) for k in list(env_extra or {}) + ['XDOCVERIF_TRACE']}
    os.environ.update(env_extra or {})
    os.environ['XDOCVERIF_TRACE'] = tracefile
    R.read_trace(tracefile)
    buf = io.StringIO()
    old = os.getcwd()
    try:
        os.chdir(cwd)
        with contextlib.redirect_stdout(buf), warnings.catch_warnings():
            warnings.simplefilter('ignore')
            try:
                rc = xmain.main(argv)
            except SystemExit as e:
                rc = 'SystemExit(%r)' % (e.code,)
            except BaseException as e:  # noqa
                rc = 'raised %s: %s' % (type(e).__name__, str(e)[:120])
    finally:
        os.chdir(old)
        for k, v in saved.items():
            if v is None:
                os.environ.pop(k, None)
            else:
                os.environ[k] = v
    return _parse(buf.getvalue(), rc, tracefile)

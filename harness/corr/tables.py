"""Character-class tables of the Lean model vs the running interpreter, on every scalar value."""
import re
import sys

from .. import driver


def _ranges(pred):
    out = []
    start = None
    prev = None
    for cp in range(0x110000):
        ok = False if 0xD800 <= cp <= 0xDFFF else pred(chr(cp))
        if ok:
            if start is None:
                start = cp
            prev = cp
        elif start is not None:
            out.append('%d-%d' % (start, prev))
            start = None
    if start is not None:
        out.append('%d-%d' % (start, prev))
    return ','.join(out)


def py_tables(which):
    t = {}
    if 'isspace' in which:
        t['isspace'] = _ranges(str.isspace)
        ws = re.compile(r'\s')
        t['isspace_re'] = _ranges(lambda c: ws.match(c) is not None)
    if 'linebreak' in which:
        t['linebreak'] = _ranges(lambda c: len(('a' + c + 'b').splitlines()) == 2)
    if 'word' in which:
        w = re.compile(r'\w')
        t['word'] = _ranges(lambda c: w.match(c) is not None)
    if 'csi' in which:
        f = re.compile(r'[@-~]', re.IGNORECASE)
        p = re.compile(r'[0-?]', re.IGNORECASE)
        i = re.compile(r'[ -/]', re.IGNORECASE)
        t['csi_final'] = _ranges(lambda c: f.match(c) is not None)
        t['csi_param'] = _ranges(lambda c: p.match(c) is not None)
        t['csi_inter'] = _ranges(lambda c: i.match(c) is not None)
    return t


def check(corr, which):
    """compare; every table counts as 1 112 064 evaluations"""
    py = py_tables(which)
    names = sorted(set(k.replace('_re', '') for k in py))
    lean = dict(zip(names, driver.run_lines(['table\t' + n for n in names], jobs=len(names))))
    for k, v in py.items():
        n = k.replace('_re', '')
        corr.count('table:' + k, 0x110000 - 0x800)
        if lean[n] != v:
            corr.disagree('table:' + k, {'table': k}, lean[n][:300], v[:300])
    corr.tag('tables_checked', len(py))

"""
Correspondence of the run-loop model (lean/XdocModel/Example.lean, op `run`) with DocTest.run.

`observe(text, ...)` parses `text` with the REAL parser, runs the doctest with the REAL runner while
recording the primitive results of executing each part (stdout, value repr, exception line), and
returns the observables plus the protocol line that feeds exactly those parts and primitive results
to the model. What is compared is therefore xdoctest's decision logic (directive state, skipping,
got/want checks over trailing outputs, the exception ladder, break-on-failure, the summary).
"""
import os
import traceback
import warnings
import zlib

from ..codec import enc, enc_list, enc_nats
from ..gen import doctests as gd

os.environ.setdefault('XDOCVERIF_MET', '1')


class NS(dict):
    saved = None

    def clear(self):
        self.saved = dict(self)
        super().clear()


def enc_directive(d):
    return '%s:%s:%s:%s' % (d.name, '+' if d.positive else '-', 'i' if d.inline else 'b', enc_list(list(d.args)))


def _kind_of(ex, exc_value, failidx, logged_keys):
    from xdoctest import checker, exceptions
    if ex.failed_part == '<IMPORT>':
        return 'import'
    if isinstance(exc_value, checker.GotWantException):
        return 'gotwant'
    if isinstance(exc_value, checker.ExtractGotReprException):
        return 'repr'
    if isinstance(exc_value, exceptions.ExistingEventLoopError):
        return 'loop'
    if failidx is not None and failidx not in logged_keys:
        if str(exc_value).startswith('Failed to parse directive'):
            return 'directive'
        return 'compile'
    return 'exception'


def observe(text, on_error='return', defaults=None, pytest_mode=False, verbose=0, want_ns=False, parse_kw=None):
    """returns dict (see keys below) or {'parse': <error class>}"""
    from xdoctest import core, checker, constants, directive as directive_mod
    kw = dict(callname='t', style='freeform', fpath='<verif>', lineno=1)
    kw.update(parse_kw or {})
    with warnings.catch_warnings(record=True) as wlist:
        warnings.simplefilter('always')
        try:
            exs = list(core.parse_docstr_examples(text, **kw))
        except Exception as e:
            return {'parse': 'error:' + type(e).__name__}
    if not exs:
        return {'parse': 'noexample', 'warnings': [str(w.message)[:200] for w in wlist]}
    ex = exs[0]
    ex.mode = 'pytest' if pytest_mode else 'native'
    if defaults:
        ex.config['default_runtime_state'] = dict(defaults)
    ns = NS()
    ns, T = gd.make_namespace(ns)
    ex.global_namespace = ns
    try:
        ex._parse()
    except Exception as e:
        return {'parse': 'error:' + type(e).__name__}
    parts = list(ex._parts)

    # record the primitive result of expected-exception checks
    exc_records = {}
    orig_check_exception = checker.check_exception

    def recording_check_exception(exc_got, want, runstate=None):
        try:
            idx = parts.index(ex.failed_part)
        except ValueError:
            idx = None
        exc_records[idx] = exc_got
        return orig_check_exception(exc_got, want, runstate)

    checker.check_exception = recording_check_exception
    ending = None
    raised_exc = None
    try:
        with warnings.catch_warnings(record=True):
            warnings.simplefilter('always')
            try:
                summary = ex.run(on_error=on_error, verbose=verbose)
                ending = 'returned'
            except BaseException as e:   # noqa
                raised_exc = e
                summary = None
    finally:
        checker.check_exception = orig_check_exception
    logged = dict(ex.logged_stdout)
    evals = dict(ex.logged_evals)
    logged_keys = sorted(logged.keys())
    exc_info = ex.exc_info
    failidx = None
    kind = None
    if exc_info is not None:
        if ex.failed_part == '<IMPORT>':
            failidx = None
        else:
            try:
                failidx = parts.index(ex.failed_part)
            except ValueError:
                failidx = None
        kind = _kind_of(ex, exc_info[1], failidx, logged_keys)
    if raised_exc is not None:
        tn = type(raised_exc).__name__
        if tn == 'Skipped' and exc_info is None:
            ending = 'pytestskip'
        elif isinstance(raised_exc, ValueError) and str(raised_exc).startswith('Could not clean traceback'):
            ending = 'escaped'
        elif exc_info is not None:
            ending = 'raised:' + kind
        else:
            ending = 'unexpected-raise:' + tn
    tb = getattr(ex, 'failed_tb_lineno', None)
    # ---- primitive results per part
    results = []
    sat = {}
    for idx, p in enumerate(parts):
        try:
            dirs = list(p.directives)
        except Exception as e:
            return {'parse': 'directive-extract-error:' + type(e).__name__}
        for d in dirs:
            if d.name == 'REQUIRES':
                for a in d.args:
                    if a not in sat:
                        try:
                            sat[a] = '1' if directive_mod._is_requires_satisfied(a) else '0'
                        except Exception:
                            sat[a] = 'E'
        if idx in logged:
            out = logged[idx] or ''
            ev = evals.get(idx, constants.NOT_EVALED)
            if exc_info is None and ending == 'returned' and idx == logged_keys[-1] and 'ext(t(' in p.source:
                line = exc_records.get(idx, 'xdoctest.exceptions.ExitTestException\n')
                results.append('exit:%s:%s' % (enc(out), enc(line)))
            elif idx in exc_records:
                t = tb if (idx == failidx and kind == 'exception' and tb is not None) else 1
                results.append('raised:%s:%s:%s' % (enc(out), enc(exc_records[idx]), t))
            elif idx == failidx and kind == 'exception':
                line = traceback.format_exception_only(exc_info[0], exc_info[1])[-1]
                results.append('raised:%s:%s:%s' % (enc(out), enc(line), tb if tb is not None else 'N'))
            elif idx == failidx and kind == 'loop':
                results.append('loop')
            elif ending == 'escaped' and idx == logged_keys[-1]:
                # exception without a doctest frame in its traceback
                results.append('raised:%s:%s:N' % (enc(out), enc('?')))
            else:
                if ev is constants.NOT_EVALED:
                    evs = 'N'
                else:
                    try:
                        evs = 'V' + enc(repr(ev))
                    except Exception:
                        evs = 'R'
                results.append('ok:%s:%s' % (enc(out), evs))
        elif idx == failidx and kind == 'compile':
            ln = getattr(exc_info[1], 'lineno', None)
            results.append('compile:%s' % (ln if ln else 'N'))
        else:
            results.append('none')
    cfg = '%s;%d;%d;%s' % ('raise' if on_error == 'raise' else 'ret', 0 if kind == 'import' else 1,
                           1 if pytest_mode else 0,
                           ','.join('%s=%d' % (k, 1 if v else 0) for k, v in (defaults or {}).items()) or '~')
    fields = ['run', cfg, '|'.join('%s=%s' % (enc(a), v) for a, v in sorted(sat.items())) or '~']
    for p, r in zip(parts, results):
        fields.append(enc_list(list(p.exec_lines)))
        fields.append('N' if p.want_lines is None else enc_list(list(p.want_lines)))
        fields.append('|'.join(enc_directive(d) for d in p.directives) or '~')
        fields.append(r)
    skipped = [parts.index(p) for p in ex._skipped_parts]
    if summary is not None:
        pfs = '%d%d%d' % (summary['passed'], summary['failed'], summary['skipped'])
    else:
        n = len(parts)
        sk = len(skipped) == n
        fl = exc_info is not None
        pfs = '%d%d%d' % ((not fl and not sk), fl, sk)
    show_tb = kind in ('exception', 'compile')
    obs = ' '.join([ending, pfs, kind or '-', str(failidx) if failidx is not None else '-',
                    str(tb) if (show_tb and tb is not None) else '-',
                    'skipped=' + enc_nats(skipped), 'executed=' + enc_nats(logged_keys),
                    'unmatched=' + enc_list([u or '' for u in ex._unmatched_stdout])])
    res = {'parse': 'ok', 'line': '\t'.join(fields), 'obs': obs, 'T': list(T), 'summary': summary, 'kind': kind,
           'failidx': failidx, 'ending': ending, 'nparts': len(parts), 'ex': ex, 'parts': parts,
           'logged_stdout': logged, 'exc_type': type(exc_info[1]).__name__ if exc_info else None,
           'skipped': skipped, 'pfs': pfs}
    if want_ns:
        res['ns'] = ns.saved if ns.saved is not None else dict(ns)
    return res


def normalize_model_answer(ans):
    """the model always carries a tb line number; the implementation only for exception/compile"""
    f = ans.split(' ')
    if len(f) >= 5 and f[2] not in ('exception', 'compile'):
        f[4] = '-'
    if len(f) >= 4 and f[2] == 'import':
        f[3] = '-'
    return ' '.join(f)


# ---------------------------------------------------------------------------------------------
def check_expectation(sc, o):
    """compare the by-construction expectation of a scenario with the observation; list of reasons"""
    why = []
    e = sc['expect']
    if o['parse'] != 'ok':
        return ['docstring was not parsed into an example: %s' % o['parse']]
    on_error = sc['run'].get('on_error', 'return')
    if 'pfs' in e and o['pfs'] != e['pfs']:
        why.append('passed/failed/skipped = %s, expected %s' % (o['pfs'], e['pfs']))
    if 'kind' in e and o['kind'] != e['kind']:
        why.append('failure kind %r, expected %r' % (o['kind'], e['kind']))
    if 'T' in e and o['T'] != e['T']:
        why.append('TRACE %r, expected %r' % (o['T'], e['T']))
    if on_error == 'return' and o['ending'] != 'returned' and not (o['ending'] == 'pytestskip'):
        why.append('run(on_error="return") ended with %s' % o['ending'])
    if on_error == 'raise' and e.get('pfs') == '010' and not o['ending'].startswith('raised'):
        why.append('run(on_error="raise") ended with %s' % o['ending'])
    if e.get('exc_type') and o.get('exc_type') != e['exc_type']:
        why.append('exception type %r, expected %r' % (o.get('exc_type'), e['exc_type']))
    if e.get('fail_group') is not None and o.get('failidx') is not None and sc.get('groups') is not None:
        g = sc['groups'][e['fail_group']]
        fp = o['parts'][o['failidx']]
        first = g.final_line
        if not any(l.startswith(first) for l in fp.exec_lines):
            why.append('failure attributed to part %r, expected the part holding %r' % (fp.exec_lines, first))
        later = [x.lines[0] for x in sc['groups'][e['fail_group'] + 1:] if x.kind != 'block']
        later = [x for x in later if not x.startswith('#')]
        if e.get('kind') == 'gotwant' and any(l.startswith(f) for l in fp.exec_lines for f in later):
            why.append('failing part also holds later statements: %r' % (fp.exec_lines,))
    if sc.get('groups') is not None:
        why.extend(check_primitives(sc, o))
    if e.get('fail_lineno') is not None and o.get('kind') == e.get('kind'):
        try:
            fl = o['ex'].failed_lineno()
        except Exception as ex2:
            fl = 'raised %r' % (ex2,)
        if fl != e['fail_lineno']:
            why.append('failed_lineno() = %r, the failing line is file line %r' % (fl, e['fail_lineno']))
    if e.get('render'):
        ex = o['ex']
        try:
            lines = ex.repr_failure()
            txt = '\n'.join(lines)
            if e.get('exc_type') and e['exc_type'] not in txt:
                why.append('failure report does not name %s' % e['exc_type'])
            if e.get('fail_first_line') and e['fail_first_line'] not in txt:
                why.append('failure report does not show the failing line %r' % e['fail_first_line'])
        except Exception as ex2:
            why.append('repr_failure() raised %s: %s' % (type(ex2).__name__, ex2))
    return why


def check_values_generic(o):
    """what can be said about the recorded values of ANY doctest, without the generator's bookkeeping: an executed part has a
    recorded value only if its final statement is an expression (anything else is a value left over from an earlier part)"""
    import ast as _ast
    from xdoctest import constants
    why = []
    ex = o['ex']
    for idx, part in enumerate(o['parts']):
        if idx not in o['logged_stdout'] or idx == o.get('failidx') or part.compile_mode == 'single':
            continue
        ev = ex.logged_evals.get(idx, constants.NOT_EVALED)
        if ev is constants.NOT_EVALED:
            continue
        try:
            body = _ast.parse('\n'.join(part.exec_lines)).body
        except SyntaxError:
            continue
        if body and not isinstance(body[-1], _ast.Expr):
            try:
                r = repr(ev)
            except Exception:
                r = 'RAISES'
            why.append('part %d %r recorded the value %s, but its final statement is not an expression' % (idx, part.exec_lines, r))
    return why


def check_primitives(sc, o):
    """the primitive results recorded for every executed part (its stdout, the value of its final
    expression) against what the generator knows by construction: a part's stdout is what ITS
    statements print, its value is absent or the value of ITS last statement (never one left over
    from an earlier part)"""
    import re as _re
    from xdoctest import constants
    why = []
    ex = o['ex']
    groups = [g for g in sc['groups'] if g.kind != 'block']
    special = ('raise', 'raisefinally', 'raisereraise', 'printraise', 'callraise', 'awaitcallraise', 'awaitprintraise', 'evalsyntax', 'compileindent', 'emptyraise', 'falsyraise', 'quietraise', 'callquietraise', 'exit', 'compileerr', 'badrepr', 'badreprprint')
    for idx, part in enumerate(o['parts']):
        if idx not in o['logged_stdout']:
            continue
        src = '\n'.join(part.exec_lines)
        if idx == o.get('failidx'):
            continue     # the failing part stopped somewhere in the middle
        gs = [g for g in groups if g.kind != 'comment' and (
            ('print(f%d(1))' % g.k) in src if g.kind == 'funcdef' else _re.search(r'\bt\(%d\)' % g.k, src))]
        if not gs or any(g.kind in special for g in gs):
            continue
        if part.compile_mode == 'single':
            continue     # REPL echo semantics (C20)
        exp_out = ''.join(g.out for g in gs)
        sc.setdefault('_exp_logged', {})[str(idx)] = exp_out      # kept with a failing input, so that its replay can compare again
        got_out = o['logged_stdout'][idx] or ''
        if got_out != exp_out:
            why.append('part %d %r logged stdout %r, its statements wrote %r' % (idx, part.exec_lines, got_out, exp_out))
        ev = ex.logged_evals.get(idx, constants.NOT_EVALED)
        if ev is not constants.NOT_EVALED:
            last = gs[-1]
            try:
                r = repr(ev)
            except Exception:
                r = 'RAISES'
            if not last.is_expr or (last.val is not None and r != last.val):
                why.append('part %d %r recorded the value %s, but its final statement %s' % (
                    idx, part.exec_lines, r, ('evaluates to %s' % last.val) if last.is_expr else 'is not an expression'))
    return why


def rerun_check(sc, o, times=4):
    """the same DocTest OBJECT run again (and again): every run must give the verdict, failure kind and TRACE of the
    first one (nothing may accumulate on the object between runs: skipped parts, unmatched output, logged output)"""
    why = []
    if o.get('parse') != 'ok' or o.get('ending') not in ('returned',) and not str(o.get('ending')).startswith('raised'):
        return why
    ex = o['ex']
    on_error = sc['run'].get('on_error', 'return')
    first = (o['pfs'], o['kind'], o['T'])
    for i in range(times):
        ns = NS()
        ns, T = gd.make_namespace(ns)
        ex.global_namespace = ns
        try:
            with warnings.catch_warnings(record=True):
                warnings.simplefilter('always')
                summary = ex.run(on_error=on_error, verbose=0)
        except BaseException as e:   # noqa
            summary = None
            raised = e
        if summary is not None:
            pfs = '%d%d%d' % (summary['passed'], summary['failed'], summary['skipped'])
        else:
            n = len(ex._parts)
            sk = len(ex._skipped_parts) == n
            fl = ex.exc_info is not None
            pfs = '%d%d%d' % ((not fl and not sk), fl, sk)
            if type(raised).__name__ == 'Skipped' and ex.exc_info is None:
                pfs = '001'
        if (pfs, list(T)) != (first[0], first[2]):
            why.append('run number %d of the SAME DocTest object: passed/failed/skipped=%s TRACE=%r, the first run gave %s %r' % (
                i + 2, pfs, list(T), first[0], first[2]))
            break
        if sorted(ex.logged_stdout.keys()) != sorted(o['logged_stdout'].keys()) or \
                any((ex.logged_stdout[k] or '') != (o['logged_stdout'][k] or '') for k in ex.logged_stdout):
            why.append('run number %d of the same object logged other output per part than the first run' % (i + 2))
            break
    return why


def run_scenarios(scenarios):
    """runs in a worker: returns dict(n, nontrivial(set of hashes), tags, disagreements, expfails, samples)"""
    from .. import driver
    obs = []
    lines = []
    for sc in scenarios:
        o = observe(sc['text'], **sc.get('run', {}))
        obs.append(o)
        if o['parse'] == 'ok':
            lines.append(o['line'])
    answers = driver.run_lines(lines, jobs=1) if lines else []
    out = {'n': 0, 'nontrivial': set(), 'tags': {}, 'dis': [], 'exp': [], 'samples': [], 'unknown': 0}
    ai = 0
    for sc, o in zip(scenarios, obs):
        out['n'] += 1
        inp = {'text': sc['text'], 'run': sc.get('run', {}), 'desc': sc.get('desc')}
        if o['parse'] == 'ok':
            m = normalize_model_answer(answers[ai])
            ai += 1
            tag = (o['kind'] or ('skipped' if o['pfs'] == '001' else 'passed')) + ('' if o['ending'] == 'returned' else ':' + o['ending'].split(':')[0])
            out['tags'][tag] = out['tags'].get(tag, 0) + 1
            if o['nparts'] > 1 or o['kind']:
                out['nontrivial'].add(hash((sc['text'], repr(sorted(sc.get('run', {}).items())))))
            if m == 'no-oracle':
                out['unknown'] += 1
            elif m != o['obs']:
                out['dis'].append((inp, m, o['obs']))
        else:
            out['tags']['unparsed'] = out['tags'].get('unparsed', 0) + 1
        if 'expect' in sc:
            why = check_expectation(sc, o)
            if not why and (zlib.crc32(sc['text'].encode('utf8', 'replace')) % 3 == 0 or sc.get('rerun')):
                why = rerun_check(sc, o)
            if why:
                if sc.get('_exp_logged'):
                    inp = dict(inp, exp_logged=sc['_exp_logged'])
                out['exp'].append((inp, sc['expect'], {k: o.get(k) for k in ('pfs', 'kind', 'T', 'ending', 'exc_type', 'failidx')}, '; '.join(why)))
        if len(out['samples']) < 2:
            out['samples'].append({'text': sc['text'], 'observed': o.get('obs'), 'TRACE': o.get('T')})
    out['dis'] = out['dis'][:20]
    out['exp'] = out['exp'][:20]
    return out


def merge(corr, suite, res):
    corr.count(suite, res['n'])
    corr.nontrivial |= res['nontrivial']
    corr.unknown += res['unknown']
    for k, v in res['tags'].items():
        corr.tag(suite + ':' + k, v)
    for inp, m, i in res['dis']:
        corr.disagree(suite, inp, m, i)
    for inp, e, i, why in res['exp']:
        e = {k: v for k, v in e.items()}
        corr.expect_fail(suite, inp, e, i, why)
    for s in res['samples'][:1]:
        corr.sample(dict(s, suite=suite))

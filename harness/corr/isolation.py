"""
Real-code side of the C11 correspondence: generated modules on disk, real DocTest objects run in a
given history, one observation record per step in the format of the driver op `history`, and the
independent oracle: the same doctest run ALONE, on fresh objects, in a forked child process that has
never imported the module.
"""
import contextlib
import io
import json
import os
import shutil
import sys
import tempfile
import warnings

from ..codec import enc, enc_list, enc_nats
from ..gen import isolation as gi
from ..gen import doctests as gd
from . import runloop

os.environ.setdefault('XDOCVERIF_MET', '1')

_COUNTER = [0]
START = []          # run states recorded at the first `update` of every RuntimeState
_PATCHED = [False]


def _render_rs(rs):
    keys = [k for k in rs._global_state.keys() if k != 'REQUIRES']
    bools = ','.join('%s=%d' % (k, 1 if rs[k] else 0) for k in keys)
    try:
        req = sorted(enc(a) for a in rs['REQUIRES'])
        skips = bool(rs['SKIP'] or len(rs['REQUIRES']) > 0)
    except Exception:
        return 'unrenderable'
    return '%s/REQ=%s/skips=%d' % (bools, ';'.join(req) or '~', 1 if skips else 0)


def patch_runtime_state():
    """record the directive state every run starts from (before its first `update`)"""
    if _PATCHED[0]:
        return
    from xdoctest import directive
    orig = directive.RuntimeState.update

    def update(self, directives):
        if not self.__dict__.get('_xv_seen'):
            self.__dict__['_xv_seen'] = True
            START.append(_render_rs(self))
        return orig(self, directives)
    directive.RuntimeState.update = update
    _PATCHED[0] = True


def make_defaults(defaults):
    """defaults = None | {'bools': {NAME: bool}, 'req': None | [args]} -> the dict given as
    config['default_runtime_state'] (ONE object, shared by every doctest of the history, as the runner does)"""
    if not defaults:
        return {}
    d = dict(defaults.get('bools') or {})
    if defaults.get('req') is not None:
        d['REQUIRES'] = set(defaults['req'])
    return d


def render_defaults(d):
    return repr(sorted((k, sorted(v) if isinstance(v, (set, frozenset)) else v) for k, v in d.items()))


def defaults_cfg(defaults):
    """the cfg tail of the protocol: `<bools>;<reportKey>;<req>`"""
    bools = ','.join('%s=%d' % (k, 1 if v else 0) for k, v in ((defaults or {}).get('bools') or {}).items()) or '~'
    req = (defaults or {}).get('req')
    reqf = 'N' if req is None else ('+'.join(enc(a) for a in req) or '~')
    return '%s;REPORT_UDIFF;%s' % (bools, reqf)


class Case(object):
    """a generated module on disk"""

    def __init__(self, docs, tmpdir, top='', tag=''):
        _COUNTER[0] += 1
        self.docs = docs
        self.tmpdir = tmpdir
        self.modname = 'xv11_%d_%d%s' % (os.getpid(), _COUNTER[0], tag)
        # a package next to the module, never looked up before in this process (see gi.MODULE_REQS)
        self.pkg = 'xvp_%d_%d%s' % (os.getpid(), _COUNTER[0], tag)
        self.source = gi.render_module(docs, top=top, pkg=self.pkg)
        self.modpath = os.path.join(tmpdir, self.modname + '.py')
        with open(self.modpath, 'w') as f:
            f.write(self.source)
        os.makedirs(os.path.join(tmpdir, self.pkg))
        for fn in ('__init__.py', 'real_sub.py'):
            with open(os.path.join(tmpdir, self.pkg, fn), 'w') as f:
                f.write('X = 1\n')

    def sat_field(self):
        ents = [(gd.UNMET_A, 0), (gd.UNMET_B, 0), (gd.MET, 1)]
        ents += [('module:' + m.replace('{PKG}', self.pkg), 1 if ok else 0) for m, ok in gi.MODULE_REQS]
        return '|'.join('%s=%d' % (enc(a), v) for a, v in ents)

    def parse(self):
        from xdoctest import core
        with warnings.catch_warnings():
            warnings.simplefilter('ignore')
            exs = list(core.parse_doctestables(self.modpath, style='auto', analysis='static'))
        exs = [e for e in exs if e.callname.startswith('f')]
        exs.sort(key=lambda e: int(e.callname[1:]))
        for e in exs:
            e.mode = 'native'
            e._parse()
        return exs

    def module_globals(self):
        m = sys.modules.get(self.modname)
        if m is None:
            return dict(gi.MODGLOBALS)
        return {k: m.__dict__[k] for k in gi.TRACKED if k in m.__dict__}

    def forget(self):
        sys.modules.pop(self.modname, None)


def _fmt_ns(d):
    items = []
    for k in sorted(d):
        v = d[k]
        items.append('%s=%s' % (k, v if isinstance(v, int) and not isinstance(v, bool) else 'X'))
    return ','.join(items) or '~'


def model_doc_field(case_docs_k, ex, defaults=None):
    """the protocol field of one doctest: the REAL partition into parts, each with its statements"""
    items = case_docs_k
    codes = [gi.code_of(it) for it in items]
    pos = 0
    fields = ['0;1;1;' + defaults_cfg(defaults)]
    for p in ex._parts:
        n = len(p.exec_lines)
        stmts = codes[pos:pos + n]
        pos += n
        want = 'N' if p.want_lines is None else enc_list(list(p.want_lines))
        dirs = '|'.join(runloop.enc_directive(d) for d in p.directives) or '~'
        fields.append('%s@%s@%s@%s' % ('/'.join(stmts) or 'n', p.compile_mode, want, dirs))
    if pos != len(codes):
        return None
    return '#'.join(fields)


def model_line(case, exs, history, defaults=None):
    docs = []
    for k, ex in enumerate(exs):
        f = model_doc_field(case.docs[k], ex, defaults)
        if f is None:
            return None
        docs.append(f)
    sat = case.sat_field()
    mg = ','.join('%s=%d' % (n, v) for n, v in gi.MODGLOBALS)
    steps = ','.join('%d%s' % (i, oe) for i, oe in history) or '~'
    return '\t'.join(['history', mg, sat, str(len(docs))] + docs + [steps])


def canon(record):
    """sort the name lists of a record (dict order is not part of the comparison)"""
    out = []
    for f in record.split(' '):
        if f.startswith('ns=') or f.startswith('mod='):
            k, v = f.split('=', 1)
            if v not in ('~', '?'):
                v = ','.join(sorted(v.split(',')))
            f = k + '=' + v
        out.append(f)
    return ' '.join(out)


def observe_run(case, ex, on_error):
    """run one real DocTest once; the record in the format of the driver op `history`"""
    from xdoctest import directive
    parts = list(ex._parts)
    del START[:]
    ending = None
    raised = None
    try:
        summary = ex.run(on_error=('raise' if on_error == 'e' else 'return'), verbose=0)
        ending = 'returned'
    except BaseException as e:   # noqa
        raised = e
        summary = None
    exc_info = ex.exc_info
    logged = dict(ex.logged_stdout)
    keys = sorted(logged.keys())
    failidx = None
    kind = None
    if exc_info is not None:
        if ex.failed_part != '<IMPORT>':
            try:
                failidx = parts.index(ex.failed_part)
            except ValueError:
                failidx = None
        kind = runloop._kind_of(ex, exc_info[1], failidx, keys)
    if raised is not None:
        if isinstance(raised, ValueError) and str(raised).startswith('Could not clean traceback'):
            ending = 'escaped'
        elif exc_info is not None and isinstance(raised, Exception):
            ending = 'raised:' + kind
        else:
            ending = 'propagated:' + type(raised).__name__
    skipped = [parts.index(p) for p in ex._skipped_parts]
    if summary is not None:
        pfs = '%d%d%d' % (summary['passed'], summary['failed'], summary['skipped'])
    else:
        sk = len(skipped) == len(parts)
        fl = exc_info is not None
        pfs = '%d%d%d' % ((not fl and not sk), fl, sk)
    tb = ex.failed_tb_lineno if kind == 'exception' else None
    ns = {k: ex.global_namespace[k] for k in gi.TRACKED if k in ex.global_namespace}
    try:
        tmpl = enc_list(sorted(directive.DEFAULT_RUNTIME_STATE['REQUIRES']))
    except Exception:
        tmpl = 'broken'
    rec = ' '.join([
        ending, pfs, kind or '-', str(failidx) if failidx is not None else '-', str(tb) if tb is not None else '-',
        'skipped=' + enc_nats(skipped), 'executed=' + enc_nats(keys),
        'logged=' + ('|'.join('%d:%s' % (i, enc(logged[i] or '')) for i in keys) or '~'),
        'start=' + (START[0] if START else '?'),
        'ns=' + _fmt_ns(ns), 'mod=' + _fmt_ns(case.module_globals()), 'tmpl=' + tmpl])
    return rec


OUTCOME_FIELDS = 9     # ending … start : "outcome and captured output" (ns/mod/tmpl are world fields)


def outcome_of(record):
    return ' '.join(record.split(' ')[:OUTCOME_FIELDS])


class ProcState(object):
    """save / restore the process-global state around one case, so that a leak (which the
    property forbids and C12 checks) cannot travel from one generated case to the next"""

    def __enter__(self):
        self.stdout, self.stderr = sys.stdout, sys.stderr
        self.filters = warnings.filters
        self.filters_copy = list(warnings.filters)
        self.show = warnings.showwarning
        self.path = list(sys.path)
        return self

    def __exit__(self, *a):
        from xdoctest import directive
        sys.stdout, sys.stderr = self.stdout, self.stderr
        warnings.filters = self.filters
        warnings.filters[:] = self.filters_copy
        warnings.showwarning = self.show
        if hasattr(warnings, '_filters_mutated'):
            warnings._filters_mutated()
        sys.path[:] = self.path
        try:
            directive.DEFAULT_RUNTIME_STATE['REQUIRES'].clear()
        except Exception:
            pass


def run_history(case, history, defaults=None):
    """fresh DocTest objects, the module not imported yet; returns (exs, records, config-unchanged?)"""
    patch_runtime_state()
    case.forget()
    exs = case.parse()
    cfg = make_defaults(defaults)
    before = render_defaults(cfg)
    if defaults:
        for e in exs:
            e.config['default_runtime_state'] = cfg       # one shared dict, as runner.doctest_module pushes it
    recs = []
    with ProcState():
        sys.path.insert(0, case.tmpdir)       # the generated package is importable, as a user's package would be
        buf = io.StringIO()
        with contextlib.redirect_stdout(buf):
            for i, oe in history:
                recs.append(observe_run(case, exs[i], oe))
    case.forget()
    return exs, recs, (before, render_defaults(cfg))


def run_alone(case, i, defaults=None):
    """the oracle: doctest `i` run once, alone, fresh objects, in a forked child that never
    imported the module; returns its record (or an error text)"""
    r, w = os.pipe()
    pid = os.fork()
    if pid == 0:
        code = 0
        try:
            os.close(r)
            patch_runtime_state()
            case.forget()
            exs = case.parse()
            if defaults:
                exs[i].config['default_runtime_state'] = make_defaults(defaults)
            sys.path.insert(0, case.tmpdir)
            buf = io.StringIO()
            with contextlib.redirect_stdout(buf):
                rec = observe_run(case, exs[i], 'r')
            os.write(w, json.dumps(rec).encode())
        except BaseException as e:   # noqa
            try:
                os.write(w, json.dumps('child-error: %r' % (e,)).encode())
            except Exception:
                pass
            code = 1
        finally:
            os._exit(code)
    os.close(w)
    data = b''
    while True:
        chunk = os.read(r, 65536)
        if not chunk:
            break
        data += chunk
    os.close(r)
    os.waitpid(pid, 0)
    try:
        return json.loads(data.decode())
    except Exception:
        return 'child-error: no answer'


def run_module_runner(case, times=2, defaults=None):
    """the same module through runner.doctest_module, `times` times in this process; every
    DocTest.run is observed through a class-level wrapper. Returns list of (callname, record)."""
    from xdoctest import runner, doctest_example
    patch_runtime_state()
    case.forget()
    seen = []
    orig_run = doctest_example.DocTest.run

    def run(self, verbose=None, on_error=None):
        # observe_run calls ex.run itself: route it to the original
        self.run = lambda verbose=None, on_error=None: orig_run(self, verbose=verbose, on_error=on_error)
        try:
            self._parse()
            rec = observe_run(case, self, 'e' if on_error == 'raise' else 'r')
        finally:
            del self.run
        seen.append((self.callname, rec))
        return _LAST_SUMMARY(self)
    results = []
    errors = []
    cfg = make_defaults(defaults)
    before = render_defaults(cfg)
    doctest_example.DocTest.run = run
    try:
        with ProcState():
            sys.path.insert(0, case.tmpdir)
            buf = io.StringIO()
            with contextlib.redirect_stdout(buf):
                for _ in range(times):
                    try:
                        if defaults:
                            runner.doctest_module(case.modpath, command='all', argv=[''], verbose=0,
                                                  config={'default_runtime_state': cfg})
                        else:
                            runner.doctest_module(case.modpath, command='all', argv=[''], verbose=0)
                    except BaseException as e:   # noqa
                        errors.append(repr(e))
    finally:
        doctest_example.DocTest.run = orig_run
        case.forget()
    return seen, errors, (before, render_defaults(cfg))


def _LAST_SUMMARY(ex):
    # the summary `run` would have returned (the runner only reads these keys)
    skipped = len(ex._skipped_parts) == len(ex._parts)
    failed = ex.exc_info is not None
    return {'exc_info': ex.exc_info, 'passed': not failed and not skipped, 'skipped': skipped, 'failed': failed}


# ------------------------------------------------------------------ text files through the pytest plugin
CONFTEST = '''
import json, os, pytest
_COUNT = {}


@pytest.hookimpl(hookwrapper=True)
def pytest_runtest_makereport(item, call):
    outcome = yield
    rep = outcome.get_result()
    dt = getattr(item, 'dtest', None)
    if dt is None:
        return
    if rep.when == 'call' or (rep.when == 'setup' and rep.outcome != 'passed'):
        base = os.path.basename(str(item.fspath))
        k = _COUNT.get(base, 0)
        _COUNT[base] = k + 1
        parts = list(dt._parts or [])
        ei = dt.exc_info
        fp = None
        if ei is not None and dt.failed_part in parts:
            fp = parts.index(dt.failed_part)
        rec = {'file': base, 'k': k, 'outcome': rep.outcome, 'exc': type(ei[1]).__name__ if ei else None, 'failed_part': fp,
               'stdout': [[i, dt.logged_stdout[i]] for i in sorted(dt.logged_stdout)],
               'skipped': [parts.index(p) for p in dt._skipped_parts]}
        with open(os.path.join(os.path.dirname(str(item.fspath)), 'results.jsonl'), 'a') as f:
            f.write(json.dumps(rec) + '\\n')
'''


def run_textfile_batch(files, tmpdir, name):
    """files: {basename: text}. One pytest subprocess collects them all as text files (--xdoctest-glob, google
    style: one doctest per Example block). Returns {basename: [record per doctest, in file order]} and the tail
    of pytest's output. A record = what the plugin's DocTest object holds after the item ran."""
    import subprocess
    d = os.path.join(tmpdir, name)
    os.makedirs(d)
    with open(os.path.join(d, 'conftest.py'), 'w') as f:
        f.write(CONFTEST)
    for base, text in files.items():
        with open(os.path.join(d, base), 'w') as f:
            f.write(text)
    env = dict(os.environ)
    env['PYTHONDONTWRITEBYTECODE'] = '1'
    p = subprocess.run([sys.executable, '-m', 'pytest', '-p', 'no:cacheprovider', '--xdoctest-glob=*.txt', '--xdoctest-style=google',
                        '-q', '-x' if False else '-q', '--rootdir', d, d], cwd=d, env=env, stdout=subprocess.PIPE,
                       stderr=subprocess.STDOUT, timeout=600)
    out = {}
    rp = os.path.join(d, 'results.jsonl')
    if os.path.exists(rp):
        with open(rp) as f:
            for line in f:
                r = json.loads(line)
                out.setdefault(r['file'], []).append(
                    '%s exc=%s failed_part=%s skipped=%s stdout=%s' % (r['outcome'], r['exc'], r['failed_part'], r['skipped'], r['stdout']))
    return out, p.stdout.decode('utf8', 'replace')[-1500:]


def check_textfiles(cases, tmpdir, name):
    """cases: list of (docs, order). Two pytest subprocesses: one over the history files (the blocks of a case
    in the given order, repetitions allowed, one file per case), one over files holding ONE block each (the
    oracle: every doctest alone). Returns a list (per case) of failure dicts."""
    hist = {}
    single = {}
    for c, (docs, order) in enumerate(cases):
        hist['h%03d.txt' % c] = gi.render_text_file(docs, order)
        for i in sorted(set(order)):
            single['s%03d_%d.txt' % (c, i)] = gi.render_text_file(docs, [i])
    alone, tail_a = run_textfile_batch(single, tmpdir, name + '_alone')
    got, tail_h = run_textfile_batch(hist, tmpdir, name + '_hist')
    res = []
    for c, (docs, order) in enumerate(cases):
        fails = []
        recs = got.get('h%03d.txt' % c, [])
        if len(recs) != len(order):
            fails.append({'what': 'pytest did not run one doctest per Example block of the text file', 'observed': len(recs),
                          'expected': len(order), 'pytest': tail_h[-400:]})
        for k, (i, rec) in enumerate(zip(order, recs)):
            exp = (alone.get('s%03d_%d.txt' % (c, i)) or ['<no result: %s>' % tail_a[-200:]])[0]
            if rec != exp:
                fails.append({'step': k, 'doc': i, 'what': 'a doctest of a text file (pytest plugin) behaves differently from the same '
                              'doctest alone in its own file', 'observed': rec, 'expected': exp})
        res.append({'failures': fails, 'records': recs, 'text': hist['h%03d.txt' % c]})
    return res


@contextlib.contextmanager
def scratch():
    d = tempfile.mkdtemp(prefix='xdocverif-')
    try:
        yield d
    finally:
        shutil.rmtree(d, ignore_errors=True)

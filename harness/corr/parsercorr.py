"""
Correspondence of the parser model (lean/XdocModel/Parser.lean) with DoctestParser.parse.

Two protocol round trips per docstring: `chunks` returns the comment-hacked source of every code
chunk; CPython's own `ast` (not xdoctest) turns each into the facts of the cut line (statement start
lines, decorator-aware; is the last statement an expression; or SyntaxError); `parse` then returns
the model's pieces, compared with the real parser's.
"""
import ast
import warnings

from ..codec import enc, dec, enc_list, dec_list, enc_nats


def chunk_facts(hacked):
    try:
        tree = ast.parse(hacked, filename='<source_block>')
    except SyntaxError:
        return 'S'
    except Exception:
        return 'S'
    starts = []
    for node in tree.body:
        if getattr(node, 'decorator_list', None):
            starts.append(node.decorator_list[0].lineno - 1)
        else:
            starts.append(node.lineno - 1)
    last = 1 if (tree.body and isinstance(tree.body[-1], ast.Expr)) else 0
    return 'P%s:%d' % (enc_nats(starts), last)


def enc_directive(d):
    return '%s/%s/%s/%s' % (d.name, '+' if d.positive else '-', 'i' if d.inline else 'b', enc_list(list(d.args)))


def real_parse(docstr):
    """canonical rendering of DoctestParser().parse, same format as the driver's `parse` answer"""
    from xdoctest import parser, exceptions, doctest_part
    try:
        with warnings.catch_warnings():
            warnings.simplefilter('ignore')
            parts = parser.DoctestParser().parse(docstr)
    except exceptions.DoctestParseError as ex:
        orig = ex.orig_ex
        name = type(orig).__name__
        msg = str(ex.msg) if hasattr(ex, 'msg') else str(ex)
        fp = msg.replace('Failed to parse doctest in ', '').strip()
        if (name == 'AssertionError' and 'parens' in str(orig)) or (name == 'IndexError' and 'pop from empty' in str(orig)):
            name = 'DirectiveError'
        return 'error:%s:%s' % (fp, name), None
    except Exception as ex:
        return 'escaped:' + type(ex).__name__, None
    out = []
    for p in parts:
        if isinstance(p, str):
            out.append('T:' + enc(p))
        else:
            ds = p._directives
            out.append('P:' + ':'.join([
                enc_list(list(p.exec_lines)),
                'N' if p.want_lines is None else enc_list(list(p.want_lines)),
                'N' if p.orig_lines is None else enc_list(list(p.orig_lines)),
                str(p.line_offset), p.compile_mode,
                'N' if ds is None else ('|'.join(enc_directive(d) for d in ds) or '~')]))
    return 'ok\t' + '\t'.join(out), parts


def model_parse(docstrs, run_lines):
    """returns list of model answers for the docstrings (two round trips)"""
    a1 = run_lines(['chunks\t' + enc(d) for d in docstrs])
    lines = []
    for d, a in zip(docstrs, a1):
        facts = []
        if a.startswith('ok'):
            for h in a.split('\t')[1:]:
                if h.startswith('H'):
                    facts.append(chunk_facts(dec(h[1:])))
                else:
                    facts.append('S')
        lines.append('\t'.join(['parse', enc(d)] + facts))
    return run_lines(lines)


def normalize_error(ans):
    """model and implementation name the same failure point and exception class; for directive
    errors inside _split_opstr both AssertionError and IndexError are 'DirectiveError'"""
    for sub in ('IndentationError', 'TabError'):
        ans = ans.replace(sub, 'SyntaxError')     # subclasses of SyntaxError
    return ans

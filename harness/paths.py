import os

VERIF = os.path.dirname(os.path.dirname(os.path.abspath(__file__)))
LEAN_DIR = os.path.join(VERIF, 'lean')
BUILT_DRIVER_EXE = os.path.join(LEAN_DIR, '.lake', 'build', 'bin', 'xdocdriver')
# a check works with its OWN copy of the driver it has just built (see leanbuild.private_driver): another check that
# rebuilds the driver meanwhile cannot pull the executable away under it
DRIVER_EXE = os.environ.get('XDOC_VERIF_DRIVER') or BUILT_DRIVER_EXE
GENERATED = os.path.join(LEAN_DIR, 'XdocModel', 'Generated.lean')
EVIDENCE_DIR = os.path.join(VERIF, 'evidence')
REPLAY_DIR = os.path.join(VERIF, 'replays')
CORPUS_DIR = os.path.join(VERIF, 'corpus')
KNOWN_FINDINGS = os.path.join(VERIF, 'known_findings.json')
THEOREMS = os.path.join(LEAN_DIR, 'theorems.json')


def repo_root():
    return os.environ.get('XDOC_VERIF_REPO', '/repo')

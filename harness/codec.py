"""Line protocol codec shared with lean/Driver/Codec.lean."""


def enc(s):
    if not s:
        return '-'
    return ','.join([str(ord(c)) for c in s])


def dec(f):
    if f == '-':
        return ''
    return ''.join([chr(int(t)) for t in f.split(',')])


def enc_list(xs):
    if not xs:
        return '~'
    return ';'.join(enc(x) for x in xs)


def dec_list(f):
    if f == '~':
        return []
    return [dec(t) for t in f.split(';')]


def enc_nats(xs):
    if not xs:
        return '~'
    return ','.join(str(int(x)) for x in xs)


def dec_nats(f):
    if f in ('~', '-'):
        return []
    return [int(t) for t in f.split(',')]


def enc_opt(s):
    return 'none' if s is None else 'some ' + enc(s)


def dec_opt(f):
    if f == 'none':
        return None
    assert f.startswith('some '), f
    return dec(f[5:])


def representable(s):
    """Lean `Char` has no lone surrogates"""
    return not any(0xD800 <= ord(c) <= 0xDFFF for c in s)

"""Regenerate Generated.lean from the repo, build Lean targets, audit axioms."""
import fcntl
import hashlib
import json
import os
import re
import subprocess
import sys
import time

from . import paths

ALLOWED_AXIOMS = {'propext', 'Classical.choice', 'Quot.sound'}
FORBIDDEN = re.compile(r'\b(sorry|admit|native_decide|bv_decide|implemented_by|unsafe)\b|^\s*axiom\s|maxHeartbeats\s+0\b', re.M)


class Lock(object):
    def __enter__(self):
        os.makedirs(os.path.join(paths.LEAN_DIR, '.lake'), exist_ok=True)
        self.f = open(os.path.join(paths.LEAN_DIR, '.lake', 'verif.lock'), 'w')
        fcntl.flock(self.f, fcntl.LOCK_EX)
        return self

    def __exit__(self, *a):
        fcntl.flock(self.f, fcntl.LOCK_UN)
        self.f.close()


def regenerate(repo=None):
    repo = repo or paths.repo_root()
    sys.path.insert(0, os.path.join(paths.VERIF, 'tools'))
    try:
        import extract_constants
    finally:
        sys.path.pop(0)
    text = extract_constants.generate(repo)
    old = None
    if os.path.exists(paths.GENERATED):
        with open(paths.GENERATED, 'r', encoding='utf8') as f:
            old = f.read()
    if old != text:
        tmp = paths.GENERATED + '.tmp%d' % os.getpid()
        with open(tmp, 'w', encoding='utf8') as f:
            f.write(text)
        os.replace(tmp, paths.GENERATED)
        return True
    return False


def _strip_comments(text):
    # remove /- ... -/ (nested) and -- comments, and string literals
    out = []
    i = 0
    n = len(text)
    depth = 0
    while i < n:
        if text.startswith('/-', i):
            depth += 1
            i += 2
        elif depth and text.startswith('-/', i):
            depth -= 1
            i += 2
        elif depth:
            if text[i] == '\n':
                out.append('\n')
            i += 1
        elif text.startswith('--', i):
            while i < n and text[i] != '\n':
                i += 1
        elif text[i] == '"':
            i += 1
            while i < n and text[i] != '"':
                if text[i] == '\\':
                    i += 1
                i += 1
            i += 1
            out.append('""')
        else:
            out.append(text[i])
            i += 1
    return ''.join(out)


def forbidden_tokens():
    """grep of the Lean sources for constructs excluded from the trusted base"""
    hits = []
    for base in ('XdocModel', 'Driver'):
        for dirpath, _, files in os.walk(os.path.join(paths.LEAN_DIR, base)):
            for fn in files:
                if fn.endswith('.lean'):
                    p = os.path.join(dirpath, fn)
                    with open(p, 'r', encoding='utf8') as f:
                        code = _strip_comments(f.read())
                    for m in FORBIDDEN.finditer(code):
                        line = code.count('\n', 0, m.start()) + 1
                        hits.append('%s:%d: %s' % (os.path.relpath(p, paths.LEAN_DIR), line, m.group(0).strip()))
    return hits


def lake(args, timeout=3000):
    env = dict(os.environ)
    proc = subprocess.run(['lake'] + args, cwd=paths.LEAN_DIR, stdout=subprocess.PIPE,
                          stderr=subprocess.STDOUT, env=env, timeout=timeout)
    return proc.returncode, proc.stdout.decode('utf8', 'replace')


ERR_RE = re.compile(r'^error: (?P<file>[^:\n]+\.lean):(?P<line>\d+):(?P<col>\d+): (?P<msg>.*)$', re.M)
DECL_RE = re.compile(r'^\s*(?:@\[[^\]]*\]\s*)?(?:private\s+|protected\s+)?(theorem|lemma|def|example|instance|abbrev|structure|inductive)\s+([^\s:({\[]+)?')


def locate_decl(relfile, line):
    p = os.path.join(paths.LEAN_DIR, relfile)
    try:
        with open(p, 'r', encoding='utf8') as f:
            lines = f.read().split('\n')
    except Exception:
        return None
    for i in range(min(line, len(lines)) - 1, -1, -1):
        m = DECL_RE.match(lines[i])
        if m:
            return '%s %s' % (m.group(1), m.group(2) or '<anonymous>')
    return None


def build(targets):
    """returns dict(ok, log, errors=[{file,line,msg,decl}], wall_s)"""
    t0 = time.time()
    with Lock():
        rc, log = lake(['build'] + list(targets))
    errors = []
    for m in ERR_RE.finditer(log):
        d = m.groupdict()
        d['line'] = int(d['line'])
        d['decl'] = locate_decl(d['file'], d['line'])
        errors.append(d)
    return {'ok': rc == 0, 'log': log, 'errors': errors, 'wall_s': time.time() - t0, 'targets': list(targets)}


def private_driver():
    """copy of the freshly built driver, named by its content, that this process (and its workers) will use"""
    import shutil
    with Lock():
        with open(paths.BUILT_DRIVER_EXE, 'rb') as f:
            blob = f.read()
        d = os.path.join(paths.LEAN_DIR, '.lake', 'verif-drivers')
        os.makedirs(d, exist_ok=True)
        dst = os.path.join(d, 'xdocdriver-' + hashlib.sha256(blob).hexdigest()[:16])
        if not os.path.exists(dst):
            tmp = dst + '.tmp%d' % os.getpid()
            with open(tmp, 'wb') as f:
                f.write(blob)
            os.chmod(tmp, 0o755)
            os.replace(tmp, dst)
        now = time.time()
        for fn in os.listdir(d):
            fp = os.path.join(d, fn)
            try:
                if fp != dst and now - os.path.getmtime(fp) > 2 * 86400:
                    os.remove(fp)
            except OSError:
                pass
    os.utime(dst, None)
    paths.DRIVER_EXE = dst
    os.environ['XDOC_VERIF_DRIVER'] = dst
    return dst


def load_theorems(prop_id):
    """lean/theorems/<id>.json : list of {"name": fully qualified theorem name, "kind": full|partial|witness|pin}"""
    p = os.path.join(paths.LEAN_DIR, 'theorems', prop_id + '.json')
    if not os.path.exists(p):
        return []
    with open(p, 'r') as f:
        ths = json.load(f)
    try:
        from .props import _extra
        have = set(t['name'] for t in ths)
        ths = ths + [{'name': n, 'kind': k} for n, k in _extra.EXTRA_THEOREMS.get(prop_id, []) if n not in have]
    except ImportError:
        pass
    return ths


AX_RE = re.compile(r"^'(?P<name>[^']+)' (?:depends on axioms: \[(?P<ax>[^\]]*)\]|(?P<none>does not depend on any axioms))", re.M)


def audit(prop_id, modules, names):
    """#print axioms on every registered theorem. returns dict name -> list of axioms | None (missing)"""
    adir = os.path.join(paths.LEAN_DIR, '.lake', 'audit')
    os.makedirs(adir, exist_ok=True)
    src = ''.join('import %s\n' % m for m in modules) + ''.join('#print axioms %s\n' % n for n in names)
    # cache on the content of the compiled modules
    h = hashlib.sha256(src.encode())
    for m in modules:
        op = os.path.join(paths.LEAN_DIR, '.lake', 'build', 'lib', 'lean', *m.split('.')) + '.olean'
        try:
            with open(op, 'rb') as f:
                h.update(hashlib.sha256(f.read()).digest())
        except Exception:
            h.update(b'missing')
    key = h.hexdigest()
    cache_file = os.path.join(adir, '%s.json' % prop_id)
    if os.path.exists(cache_file):
        try:
            with open(cache_file) as f:
                c = json.load(f)
            if c.get('key') == key:
                return c['result'], c['log']
        except Exception:
            pass
    fn = os.path.join(adir, 'Audit_%s.lean' % prop_id)
    with open(fn, 'w') as f:
        f.write(src)
    with Lock():
        rc, log = lake(['env', 'lean', fn], timeout=1200)
    result = {n: None for n in names}
    for m in AX_RE.finditer(log.replace('\n  ', ' ').replace(',\n', ', ')):
        nm = m.group('name')
        if m.group('none'):
            ax = []
        else:
            ax = [a.strip() for a in m.group('ax').replace('\n', ' ').split(',') if a.strip()]
        if nm in result:
            result[nm] = ax
    with open(cache_file, 'w') as f:
        json.dump({'key': key, 'result': result, 'log': log}, f)
    return result, log

"""
Independent oracle for C13: "joined back together the parts reproduce the (tab-expanded, commonly
de-indented) docstring line for line, and each part records the index of its first line".

Written from the property sentence; imports nothing from xdoctest and nothing from the Lean model.
"""


def min_indent(s):
    """smallest number of leading blanks of a line that has a non-whitespace character right after them
    (lines are what follows a newline character)"""
    best = None
    for line in s.split('\n'):
        k = 0
        while k < len(line) and line[k] == ' ':
            k += 1
        if k < len(line) and not line[k].isspace():
            if best is None or k < best:
                best = k
    return best or 0


def prepared(docstr):
    """(string, lines) the labeller sees"""
    s = docstr.expandtabs()
    m = min_indent(s)
    if m > 0:
        s = '\n'.join([ln[m:] for ln in s.splitlines()])
    return s, s.splitlines()


def deindent_problem(docstr):
    """the common de-indentation must only remove whitespace: returns a description when the slicing of the
    code removes other characters (possible when a line starts after a line boundary other than a newline)"""
    s = docstr.expandtabs()
    m = min_indent(s)
    if m > 0:
        for i, ln in enumerate(s.splitlines()):
            if ln[:m].strip() != '':
                return 'de-indentation by %d removes non-blank characters %r from line %d' % (m, ln[:m], i)
    return None


def check_tiling(L, parts, strict_blank=False):
    """parts: list of str | object with orig_lines, want_lines, exec_lines, line_offset.
    Returns (problem or None, kinds) where kinds is the list of 'text'/'src'/'want' per line of L."""
    o = 0
    kinds = []
    for idx, p in enumerate(parts):
        if isinstance(p, str):
            lines = p.split('\n')
            n = len(lines)
            if L[o:o + n] != lines:
                return 'text part %d does not reproduce lines %d..%d: %r vs %r' % (idx, o, o + n, lines, L[o:o + n]), kinds
            kinds.extend(['text'] * n)
            o += n
            continue
        orig = list(p.orig_lines)
        want = list(p.want_lines or [])
        execl = list(p.exec_lines)
        if not orig:
            return 'doctest part %d has no source line' % idx, kinds
        if o + len(orig) + len(want) > len(L):
            return 'doctest part %d runs past the end of the docstring' % idx, kinds
        if p.line_offset != o:
            return 'doctest part %d records line_offset %r but its first line is line %d' % (idx, p.line_offset, o), kinds
        k = len(L[o]) - len(orig[0])
        if k < 0 or L[o][k:] != orig[0]:
            return 'doctest part %d: first source line %r is not a suffix of line %d %r' % (idx, orig[0], o, L[o]), kinds
        if L[o][:k].strip() != '':
            return 'doctest part %d: the indent dropped from line %d is not blank: %r' % (idx, o, L[o][:k]), kinds
        for i, ol in enumerate(orig):
            line = L[o + i]
            if line[k:] == ol:
                if strict_blank and line[:k].strip() != '':
                    return 'doctest part %d: non-blank text dropped from source line %d: %r' % (idx, o + i, line[:k]), kinds
            elif ol == '... ' + line[k:]:
                pass        # the documented triple-quote hack
            else:
                return 'doctest part %d: source line %d is %r, the docstring has %r (indent %d)' % (idx, o + i, ol, line, k), kinds
            if i >= len(execl) or execl[i] != ol[4:]:
                return 'doctest part %d: exec line %d is not the source line without its prompt' % (idx, i), kinds
        if len(execl) != len(orig):
            return 'doctest part %d: %d exec lines for %d source lines' % (idx, len(execl), len(orig)), kinds
        for j, wl in enumerate(want):
            line = L[o + len(orig) + j]
            if line[k:] != wl:
                return 'doctest part %d: want line %d is %r, the docstring has %r (indent %d)' % (idx, j, wl, line, k), kinds
            if line[:k].strip() != '':
                return 'doctest part %d: non-blank text dropped from want line %d: %r' % (idx, j, line[:k]), kinds
        kinds.extend(['src'] * len(orig))
        kinds.extend(['want'] * len(want))
        o += len(orig) + len(want)
    if o != len(L):
        return 'the parts cover %d lines, the docstring has %d' % (o, len(L)), kinds
    return None, kinds


def expected_matches_lines(expected, L):
    """the generator's by-construction view against the lines of the docstring (a harness self-check)"""
    if len(expected) != len(L):
        return False
    for item, line in zip(expected, L):
        if len(item) == 3:
            e = item[1]
            k = len(e) - len(e.lstrip(' '))
            if e[:k] + e[k + 4:] != line:
                return False
        elif item[1] != line:
            return False
    return True

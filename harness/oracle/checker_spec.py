"""
The documented got/want relation (property C05), written from the property sentence and the
module documentation without `re` and without importing xdoctest. Used only by the failing-input
search (it is the independent oracle), never as a substitute for a theorem.
"""
from ..props.C06 import oracle_match  # regex-free decomposition matcher (C06 sentence)

MARKER = '<BLANKLINE>'
CSI_FINAL_EXTRA = {chr(0x130), chr(0x131), chr(0x17F), chr(0x212A)}


def isword(c):
    return c == '_' or c.isalnum()


def strip_ansi(s):
    out = []
    i = 0
    n = len(s)
    while i < n:
        j = None
        if s[i] == '\x9b':
            j = i + 1
        elif s[i] == '\x1b' and i + 1 < n and s[i + 1] == '[':
            j = i + 2
        if j is not None:
            while j < n and '0' <= s[j] <= '?':
                j += 1
            while j < n and ' ' <= s[j] <= '/':
                j += 1
            if j < n and (('@' <= s[j] <= '~') or s[j] in CSI_FINAL_EXTRA):
                i = j + 1
                continue
        out.append(s[i])
        i += 1
    return ''.join(out)


def remove_prefix_letters(s, letters):
    out = []
    i = 0
    n = len(s)

    def tail(j):
        if j < n and s[j] in letters:
            k = j + 1
            if k < n and s[k] in 'rR' and k + 1 < n and s[k + 1] in '\'"':
                return k + 2, s[k:k + 2]
            if k < n and s[k] in '\'"':
                return k + 1, s[k]
        return None
    while i < n:
        if not isword(s[i]):
            t = tail(i + 1)
            if t:
                out.append(s[i] + t[1])
                i = t[0]
                continue
        if i == 0:
            t = tail(0)
            if t:
                out.append(t[1])
                i = t[0]
                continue
        out.append(s[i])
        i += 1
    return ''.join(out)


def remove_marker(s):
    out = []
    i = 0
    n = len(s)
    while i < n:
        if s.startswith(MARKER + '\n', i):
            out.append('\n')
            i += len(MARKER) + 1
        elif s.startswith('\n' + MARKER, i):
            out.append('\n')
            i += len(MARKER) + 1
        elif s.startswith(MARKER, i):
            out.append('\n')
            i += len(MARKER)
        else:
            out.append(s[i])
            i += 1
    return ''.join(out)


def strip_trailing_blanks(s):
    return '\n'.join(line.rstrip(' \t') for line in s.split('\n'))


def erase_cr_lines(s):
    return ''.join(l for l in s.splitlines(True) if not l.endswith('\r'))


def base(s, accept_blank):
    s = strip_ansi(s)
    s = remove_prefix_letters(s, 'uU')
    s = remove_prefix_letters(s, 'bB')
    if accept_blank:
        s = remove_marker(s)
    s = strip_trailing_blanks(s)
    s = s.rstrip()
    return erase_cr_lines(s)


def ws_norm(s, nw, iw):
    if nw or iw:
        s = ' '.join(s.split())
    if iw:
        s = ''.join(c for c in s if not c.isspace())
    return s


def match(g, w, ellipsis):
    return g == w or (ellipsis and oracle_match(g, w))


def norm_repr(a, b, ellipsis):
    if not match(a, b, ellipsis):
        for q in '"\'':
            if a.startswith(q) and a.endswith(q):
                if match(a[1:-1], b, ellipsis):
                    return a[1:-1]
    return a


def normalize(got, want, ELLIPSIS, NORMALIZE_WHITESPACE, IGNORE_WHITESPACE, NORMALIZE_REPR, DONT_ACCEPT_BLANKLINE):
    g = ws_norm(base(got, False), NORMALIZE_WHITESPACE, IGNORE_WHITESPACE)
    w = ws_norm(base(want, not DONT_ACCEPT_BLANKLINE), NORMALIZE_WHITESPACE, IGNORE_WHITESPACE)
    if NORMALIZE_REPR:
        g = norm_repr(g, w, ELLIPSIS)
        w = norm_repr(w, g, ELLIPSIS)
    return g, w


def check_output(got, want, **flags):
    if not want:
        return True
    if got == want:
        return True
    g, w = normalize(got, want, **flags)
    return match(g, w, flags['ELLIPSIS'])

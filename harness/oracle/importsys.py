"""Independent oracles for C17: what CPython's import system finds (importlib only, no xdoctest,
no Lean model)."""
import os
import sys
from importlib.machinery import FileFinder, SourceFileLoader


def ff_resolve(entry, name):
    """regular-package rule: ``FileFinder(dir, (SourceFileLoader, ['.py'])).find_spec`` part by part.
    -> None | ('pkg'|'mod', absolute origin).  A namespace portion (``loader is None``) is nothing."""
    d = entry or '.'
    parts = name.split('.')
    for i in range(len(parts)):
        finder = FileFinder(d, (SourceFileLoader, ['.py']))
        spec = finder.find_spec('.'.join(parts[:i + 1]))
        if spec is None or spec.loader is None:
            return None
        is_pkg = spec.submodule_search_locations is not None
        if i == len(parts) - 1:
            return ('pkg' if is_pkg else 'mod', os.path.abspath(spec.origin))
        if not is_pkg:
            return None
        d = spec.submodule_search_locations[0]
    return None


def expected_path(found, hide_init):
    """what the documentation of ``modname_to_modpath`` promises for (hide_init, hide_main=False)"""
    if found is None:
        return None
    origin = found[1]
    if hide_init and os.path.basename(origin) == '__init__.py':
        return os.path.dirname(origin)
    return origin


def interpreter_resolve(entries, name):
    """the whole import system rule (PathFinder over FileFinders, PEP 420 namespace portions
    included), without executing any module. -> None | ('pkg'|'mod'|'ns', origin or locations)"""
    path = [e or '.' for e in entries]
    parts = name.split('.')
    for i in range(len(parts)):
        full = '.'.join(parts[:i + 1])
        regular = None
        portions = []
        for d in path:
            spec = FileFinder(d, (SourceFileLoader, ['.py'])).find_spec(full)
            if spec is None:
                continue
            if spec.loader is not None:
                regular = spec
                break
            portions.extend(spec.submodule_search_locations)
        last = i == len(parts) - 1
        if regular is not None:
            locs = regular.submodule_search_locations
            if last:
                return ('pkg' if locs is not None else 'mod', os.path.abspath(regular.origin))
            if locs is None:
                return None
            path = list(locs)
        elif portions:
            if last:
                return ('ns', [os.path.abspath(x) for x in portions])
            path = portions
        else:
            return None
    return None


def split_spec_violation(path, d, rel):
    """the sentence 'the directory that must be on the search path plus the relative path' as three
    checkable facts about an answer (d, rel) (they determine it: theorem split_modpath_unique):
    d/rel is the path; d holds no __init__.py; every directory of rel holds one. -> None | text"""
    p = os.path.abspath(path)
    if not rel or os.path.normpath(os.path.join(d, rel)) != p:
        return 'join(d, rel) != path'
    if os.path.exists(os.path.join(d, '__init__.py')):
        return 'the directory itself holds an __init__.py (it is a package, not a search path entry)'
    parts = rel.split('/')
    for i in range(1, len(parts)):
        sub = os.path.join(d, *parts[:i])
        if not os.path.exists(os.path.join(sub, '__init__.py')):
            return 'directory %s of the relative path holds no __init__.py' % '/'.join(parts[:i])
    return None

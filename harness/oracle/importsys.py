"""Independent oracles for C17: what CPython's import system finds (importlib only, no xdoctest,
no Lean model)."""
import os
import sys
from importlib.machinery import FileFinder, SourceFileLoader


def ff_resolve(entry, name):
    """regular-package rule: ``FileFinder(dir, (SourceFileLoader, ['.py'])).find_spec`` part by part.
    -> None | ('pkg'|'mod', absolute origin).  A namespace portion (``loader is None``) is nothing."""
    d = entry or '.'
    parts = name.split('.')
    for i in range(len(parts)):
        finder = FileFinder(d, (SourceFileLoader, ['.py']))
        spec = finder.find_spec('.'.join(parts[:i + 1]))
        if spec is None or spec.loader is None:
            return None
        is_pkg = spec.submodule_search_locations is not None
        if i == len(parts) - 1:
            return ('pkg' if is_pkg else 'mod', os.path.abspath(spec.origin))
        if not is_pkg:
            return None
        d = spec.submodule_search_locations[0]
    return None


def expected_path(found, hide_init, hide_main=False):
    """what the documentation of ``modname_to_modpath`` / ``normalize_modpath`` promises, written from
    the docstrings: hide_init -> a package is reported as its directory, otherwise as its __init__.py;
    hide_main -> a ``__main__.py`` INSIDE A PACKAGE is folded into the package directory ("we can
    remove main, but dont add it"; "corner case where main might just be a module name not in a pkg":
    then the file stays). The answer is always a python file or a package directory."""
    if found is None:
        return None
    p = found[1]
    if hide_init and os.path.basename(p) == '__init__.py':
        p = os.path.dirname(p)
    if hide_main and os.path.basename(p) == '__main__.py' and os.path.isfile(os.path.join(os.path.dirname(p), '__init__.py')):
        p = os.path.dirname(p)
    return p


def is_module_path(path):
    """a module path is a python file or a directory holding an __init__.py"""
    return os.path.isfile(path) or (os.path.isdir(path) and os.path.isfile(os.path.join(path, '__init__.py')))


def expected_name(name, found, hide_init, hide_main):
    """the dotted name the round trip must give back for a name that resolves to ``found``:
    the name itself, minus a final ``__init__`` when inits are hidden, minus a final ``__main__``
    when mains are hidden and the file sits in a package"""
    parts = name.split('.')
    if hide_init and parts[-1] == '__init__' and len(parts) > 1 and found[0] == 'mod':
        return '.'.join(parts[:-1])
    if hide_main and parts[-1] == '__main__' and len(parts) > 1 and found[0] == 'mod':
        return '.'.join(parts[:-1])
    return name


def interpreter_resolve(entries, name):
    """the whole import system rule (PathFinder over FileFinders, PEP 420 namespace portions
    included), without executing any module. -> None | ('pkg'|'mod'|'ns', origin or locations)"""
    path = [e or '.' for e in entries]
    parts = name.split('.')
    for i in range(len(parts)):
        full = '.'.join(parts[:i + 1])
        regular = None
        portions = []
        for d in path:
            spec = FileFinder(d, (SourceFileLoader, ['.py'])).find_spec(full)
            if spec is None:
                continue
            if spec.loader is not None:
                regular = spec
                break
            portions.extend(spec.submodule_search_locations)
        last = i == len(parts) - 1
        if regular is not None:
            locs = regular.submodule_search_locations
            if last:
                return ('pkg' if locs is not None else 'mod', os.path.abspath(regular.origin))
            if locs is None:
                return None
            path = list(locs)
        elif portions:
            if last:
                return ('ns', [os.path.abspath(x) for x in portions])
            path = portions
        else:
            return None
    return None


def split_spec_violation(path, d, rel):
    """the sentence 'the directory that must be on the search path plus the relative path' as three
    checkable facts about an answer (d, rel) (they determine it: theorem split_modpath_unique):
    d/rel is the path; d holds no __init__.py; every directory of rel holds one. -> None | text"""
    p = os.path.abspath(path)
    if not rel or os.path.normpath(os.path.join(d, rel)) != p:
        return 'join(d, rel) != path'
    if os.path.exists(os.path.join(d, '__init__.py')):
        return 'the directory itself holds an __init__.py (it is a package, not a search path entry)'
    parts = rel.split('/')
    for i in range(1, len(parts)):
        sub = os.path.join(d, *parts[:i])
        if not os.path.exists(os.path.join(sub, '__init__.py')):
            return 'directory %s of the relative path holds no __init__.py' % '/'.join(parts[:i])
    return None

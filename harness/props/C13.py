"""C13 — Parsing partitions the docstring: each line is text, source or want, once."""
import random
import signal
import warnings

from .. import driver, par
from ..codec import enc, dec
from ..corr import parsercorr, statefulparse
from ..gen import docstrings as G
from ..oracle import partition as O
from ..shrink import shrink_strings, shrink_list

LEAN_TARGETS = ['XdocModel.Proofs.C13', 'XdocModel.Pins.Parser']
MANIFEST = {
    'text': ("Full for the tiling: `parse_partition` proves for ALL docstrings and ALL answers of the CPython oracle on which the "
             "model of DoctestParser.parse succeeds that the parts, in order, tile the lines the labeller sees (tab-expanded, common "
             "indent removed): text parts are their lines joined by newlines, verbatim; a doctest part's orig_lines / want_lines are "
             "the chunk's lines without the chunk's indent, exec_lines additionally lose the prompt, line_offset is the number of lines "
             "before the part's first line, only the last part of a chunk carries the want; every line keeps its kind (text / source / "
             "want) from the labeller through the three grouping passes (`text_is_not_source`), a want never follows text "
             "(`want_is_after_source`), and the only way a line can differ from the input is the documented triple-quote hack on a "
             "source line (`label_preserves_lines`; none at all without triple quotes: `parse_partition_verbatim`). The proof goes by "
             "induction through labelLines, group1/2/3, packageChunk and packageGroups. NOT proved: `labels_are_intended` (that the "
             "labeller assigns the INTENDED kind on the grammar of labelled blocks) - the statement is kept in Proofs/C13.lean and is "
             "checked on every generated docstring by the correspondence suite instead (labels known by construction)."),
    'note': ("Trusted: Lean kernel; the hand-written model of parser.py (Parser.lean) and of the vendored tokenizer (Lexer.lean, a "
             "mini-lexer), tied to the code by this run's differential comparison of whole parse results; CPython's ast (statement start "
             "lines, is-the-last-statement-an-expression) is an oracle input of the model, supplied by the harness from CPython's own "
             "ast on the source the model hands out; INDENT_RE and the prefix / triple-quote tests of _complete_source are pinned."),
    'technique': 'Lean 4 proof (induction over the five phases of the parser model) + grammar-directed differential correspondence',
}
RULE = ('docstrings rendered from a grammar of labelled blocks (prose, blank lines, google tags, statements: simple / bracketed '
        'multi-line / triple-quoted with prefixed or unprefixed lines / compound / decorated / backslash, prompt styles >>> everywhere '
        'or ... continuations or bare ... terminator, wants of 1..3 lines incl. the bare ellipsis want, indentation 0/4/8, base '
        'indentation 0/4/8 with tabs): model op `parse` (and `label`) vs DoctestParser().parse / _label_docsrc_lines, plus the '
        'by-construction kinds and the re-join oracle; a second stream of damaged docstrings compares model and code only. '
        'non-trivial = the docstring has at least one doctest part and one text part; distinct = distinct docstring text. STATEFUL suite: '
        'sequences over a small pool of docstrings executed in one process - parse (fresh / shared / simulate_repl parser object), '
        'parse-then-damage-the-result, label, collect through core.parse_docstr_examples in every style, collect-and-run - every parse '
        'checked against the re-join oracle, the first parse of that docstring and the model')
ASSUMPTIONS = [
    'CPython ast.parse facts (statement start lines, last statement is an expression) are supplied to the model per chunk',
    'the mini-lexer stands for the vendored tokenizer; docstrings on which they could differ are compared like all others (a difference is a disagreement)',
    'strings containing lone surrogates are outside the model (Lean Char) and are not generated',
]

# known findings: (docstring, intended kinds) witnesses, replayed on the real code by `replay_finding`
WITNESS = {
    # a prompt directly after a source line at ANOTHER indentation is not source: shallower -> text, deeper -> want
    'K-C13-a': [("    >>> x = 1\n>>> y = 2\n", [('src', '    >>> x = 1'), ('src', '>>> y = 2')]),
                (">>> x = 1\n    >>> y = 2\n", [('src', '>>> x = 1'), ('src', '    >>> y = 2')])],
    # one statement whose continuation lines mix blank/`>>>`-prefixed and `...`/unprefixed styles, followed by a want:
    # the old-style-continuation grouping cuts the statement in two -> IncompleteParseError
    'K-C13-b': [('>>> t = """first\n    indented body\nlast"""\nv\n',
                 [('src', '>>> t = """first'), ('src', '    indented body'), ('src', '... last"""', 'hack'), ('want', 'v')]),
                ('>>> x = [1,\n>>>      2,\n...      3]\n[1, 2, 3]\n',
                 [('src', '>>> x = [1,'), ('src', '>>>      2,'), ('src', '...      3]'), ('want', '[1, 2, 3]')])],
    # the common indent is measured on the `\\n`-lines whose leading blanks are followed by a non-whitespace character,
    # but sliced off every `splitlines` line
    'K-C13-c': [('    a\n    b\x0cXYZW\n', None), ('    a\n\xa0 1 b\n', None)],
}

class _Timeout(BaseException):
    """raised by the alarm; not an `Exception`, so the code under test cannot swallow it"""


def _alarm(signum, frame):
    raise _Timeout()


def real_labels(docstr):
    from xdoctest import parser
    s, _ = O.prepared(docstr)
    try:
        with warnings.catch_warnings():
            warnings.simplefilter('ignore')
            ll = parser.DoctestParser()._label_docsrc_lines(s)
    except Exception as ex:
        return 'error:' + type(ex).__name__
    return 'ok\t' + '|'.join('%s:%s' % (lab, enc(line)) for lab, line in ll)


def _by_construction(text, expected, parts):
    """three independent checks on a generated docstring; returns a description of the first failure"""
    s, L = O.prepared(text)
    if not O.expected_matches_lines(expected, L):
        return 'HARNESS: the generator expectation does not match the lines of the text'
    if parts is None:
        return 'rejected: a well-formed docstring was rejected by the parser'
    dp = O.deindent_problem(text)
    if dp:
        return dp
    prob, kinds = O.check_tiling(L, parts, strict_blank=True)
    if prob:
        return prob
    want_kinds = [e[0] for e in expected]
    if kinds != want_kinds:
        for i, (a, b) in enumerate(zip(kinds, want_kinds)):
            if a != b:
                return 'line %d %r is %s, intended %s' % (i, L[i], a, b)
        return 'kinds differ in length'
    return None


def _probe(rng, which):
    pre = rng.choice([[], ['Some text.'], ['Some text.', '']])
    exp = [('text', l) for l in pre]
    if which == 'offside':
        a, b = rng.choice([(4, 0), (0, 4), (8, 4), (4, 8), (2, 0)])
        if pre and min(a, b) > 0:
            pass
        lines = [' ' * a + '>>> x = 1', ' ' * b + '>>> y = 2']
        exp += [('src', lines[0]), ('src', lines[1])]
        if not pre and min(a, b) > 0:
            m = min(a, b)
            exp = [('src', lines[0][m:]), ('src', lines[1][m:])]
    else:
        pad = ' ' * (rng.choice([0, 4]) if pre else 0)
        if rng.random() < 0.5:
            lines = [pad + '>>> t = """first', pad + '    indented body', pad + 'last"""', pad + 'v']
            exp += [('src', lines[0]), ('src', lines[1]), ('src', pad + '... last"""', 'hack'), ('want', lines[3])]
        else:
            lines = [pad + '>>> x = [1,', pad + '>>>      2,', pad + '...      3]', pad + '[1, 2, 3]']
            exp += [('src', lines[0]), ('src', lines[1]), ('src', lines[2]), ('want', lines[3])]
    return '\n'.join(pre + lines), exp


def _shard(args):
    seed, shard, n_grammar, n_fuzz = args
    rng = random.Random('C13:%d:%d' % (seed, shard))
    cases = []
    for _ in range(n_grammar):
        text, expected, meta = G.gen_docstring(rng)
        cases.append(('grammar', text, expected, meta))
    for _ in range(n_fuzz):
        text, expected, meta = G.gen_docstring(rng, max_blocks=4)
        cases.append(('damaged', G.mutate(rng, text), None, meta))
    for _ in range(max(2, n_grammar // 40)):
        # LONG chunks (9..24 one-line statements, no want in between) with inline / block directives at one to three
        # places, among them positions 7, 8, 15, 16: the part boundaries must come out in ascending order whatever
        # order a container hands them out in
        n = rng.randint(9, 24)
        pos = set(rng.sample(range(n), rng.randint(1, 3))) | set(rng.sample([7, 8, 15, 16, 3, 2, 9], 2))
        lines = ['Some text first.', '']
        for i in range(n):
            if i in pos and rng.random() < 0.4:
                lines.append('>>> # xdoctest: +ELLIPSIS')
            lines.append('>>> v%d = %d%s' % (i, i, '  # xdoctest: +ELLIPSIS' if (i in pos and rng.random() < 0.7) else ''))
        lines += ['>>> print(v0)', '0', '']
        cases.append(('longchunk', '\n'.join(lines), None, {}))
    docs = [c[1] for c in cases]
    warnings.simplefilter('ignore')
    model = parsercorr.model_parse(docs, lambda lines: driver.run_lines(lines, jobs=1))
    mlabels = driver.run_lines(['label\t' + enc(d) for d in docs], jobs=1)
    out = {'n': 0, 'nontriv': set(), 'tags': {}, 'dis': [], 'exp': [], 'samples': [], 'harness': []}
    signal.signal(signal.SIGPROF, _alarm)
    warnings.simplefilter('ignore')
    for (kind, text, expected, meta), m, ml in zip(cases, model, mlabels):
        signal.setitimer(signal.ITIMER_PROF, 5.0)
        try:
            real, parts = parsercorr.real_parse(text)
            rl = real_labels(text)
        except _Timeout:
            # a stalled worker is not a hang: try once more, alone, with a longer limit
            signal.setitimer(signal.ITIMER_PROF, 20.0)
            try:
                real, parts = parsercorr.real_parse(text)
                rl = real_labels(text)
                out['tags']['slow case retried'] = out['tags'].get('slow case retried', 0) + 1
            except _Timeout:
                out['exp'].append((text, None, 'hang: DoctestParser().parse did not return within 5 s, nor within 20 s when retried'))
                out['tags']['shard aborted after a hang'] = 1
                break
            finally:
                signal.setitimer(signal.ITIMER_PROF, 0)
        finally:
            signal.setitimer(signal.ITIMER_PROF, 0)
        out['n'] += 2
        mm = parsercorr.normalize_error(m)
        rr = parsercorr.normalize_error(real)
        tag = kind + ':' + (mm.split('\t')[0] if mm.startswith('ok') else mm)
        out['tags'][tag] = out['tags'].get(tag, 0) + 1
        if mm != rr:
            out['dis'].append(('parse', text, mm[:300], rr[:300]))
        if parsercorr.normalize_error(ml) != parsercorr.normalize_error(rl):
            out['dis'].append(('label', text, ml[:300], rl[:300]))
        if parts is not None and any(isinstance(p, str) for p in parts) and any(not isinstance(p, str) for p in parts):
            out['nontriv'].add(hash(text))
        if kind == 'grammar':
            prob = _by_construction(text, expected, parts)
            if prob and prob.startswith('HARNESS'):
                out['harness'].append((text, prob))
            elif prob:
                out['exp'].append((text, [list(e) for e in expected], prob))
            for st in meta['styles']:
                out['tags']['stmt:' + st] = out['tags'].get('stmt:' + st, 0) + 1
            if meta['hack']:
                out['tags']['hack'] = out['tags'].get('hack', 0) + 1
            if meta['tabs']:
                out['tags']['tabs'] = out['tags'].get('tabs', 0) + 1
        elif parts is not None:
            # damaged text that still parses: the re-join oracle applies to ANY parsed docstring
            _, L = O.prepared(text)
            prob = O.deindent_problem(text)
            if prob is None:
                prob, _k = O.check_tiling(L, parts)
            if prob:
                # the frequent known class is verified here (same narrow test as `classify`) and only
                # a few representatives are handed on, so that it cannot crowd out anything else
                if _is_kc13c(text):
                    out['tags']['K-C13-c shape'] = out['tags'].get('K-C13-c shape', 0) + 1
                    if out['tags']['K-C13-c shape'] <= 2:
                        out['exp'].append((text, None, prob, 'known-shape'))
                else:
                    out['exp'].append((text, None, prob))
        if len(out['samples']) < 1 and kind == 'grammar' and meta['examples'] and meta['wants']:
            out['samples'].append({'op': 'parse', 'docstring': text, 'intended': [e[0] for e in expected]})
    # ---- stateful: the same docstrings parsed again and again in this process, interleaved with collection and runs
    out['seq'] = []
    n_seq = max(1, (n_grammar + n_fuzz) // 200)
    for _ in range(n_seq):
        sdocs, ops = statefulparse.gen_sequence(rng)
        smodel = parsercorr.model_parse(sdocs, lambda lines: driver.run_lines(lines, jobs=1))
        slabels = driver.run_lines(['label\t' + enc(d) for d in sdocs], jobs=1)
        probs = statefulparse.run_sequence(sdocs, ops, smodel, slabels)
        out['n'] += len(ops)
        out['tags']['stateful:ops'] = out['tags'].get('stateful:ops', 0) + len(ops)
        if any(o[0] in ('collect', 'run') and o[2] == 'freeform' for o in ops):
            out['nontriv'].add(hash(('seq', tuple(sdocs), tuple(ops))))
        if probs:
            out['seq'].append((sdocs, [list(o) for o in ops], probs[:3]))
    out['dis'] = out['dis'][:20]
    out['exp'] = out['exp'][:20]
    out['seq'] = out['seq'][:5]
    return out


def correspondence(ctx, corr):
    warnings.simplefilter('ignore', SyntaxWarning)
    # many small shards: bounded memory per worker
    n_g, n_f, n_shards = (1500, 900, 32) if ctx.quick else (2400, 1600, 400)
    res = par.pmap(_shard, [(ctx.seed, s, n_g, n_f) for s in range(n_shards)])
    n_known_forwarded = [0]
    for r in res:
        corr.count('parse+label:grammar/damaged', r['n'])
        corr.nontrivial |= r['nontriv']
        for k, v in r['tags'].items():
            corr.tag(k, v)
        for suite, text, m, i in r['dis']:
            corr.disagree(suite, {'docstring': text}, m, i)
        for item in r['exp']:
            text, expected, prob = item[:3]
            if len(item) == 4:
                # verified representatives of the known class: a handful per run is enough
                n_known_forwarded[0] += 1
                if n_known_forwarded[0] > 6:
                    continue
            corr.expect_fail('by-construction', {'docstring': text, 'intended': expected}, 'tiling + intended kinds', prob,
                             'the parts of a parsed docstring must re-join to its lines with the intended kinds')
        for sdocs, ops, probs in r.get('seq', []):
            # what only differs from the MODEL (e.g. the wording of an error) is a broken correspondence, to be decided by the search;
            # what the by-construction oracles say (re-join, same parse every time) is an expectation failure with its own replay
            real = [q for q in probs if q.get('what') != 'parse differs from the model']
            if real:
                corr.expect_fail('stateful', {'docstrings': sdocs, 'sequence': ops}, 'every parse of a docstring gives the same, correct parts',
                                 real, 'parsing must be a function of the docstring (no state between calls)')
            else:
                corr.disagree('stateful', {'docstrings': sdocs, 'sequence': ops}, probs[0].get('model'), probs[0].get('impl'))
        for text, prob in r['harness']:
            raise RuntimeError('generator self-check failed on %r: %s' % (text, prob))
        for s in r['samples'][:1]:
            corr.sample(s)
    # probes of the two excluded shapes of the grammar (see gen/docstrings.py): by the wording of the property
    # they are ordinary docstrings, so a failure is a candidate violation (classified as K-C13-a / K-C13-b)
    rng = ctx.sub_rng('probes')
    for k in range(24):
        text, expected = _probe(rng, 'offside' if k % 2 == 0 else 'mixed')
        real, parts = parsercorr.real_parse(text)
        m = parsercorr.model_parse([text], driver.run_lines)[0]
        corr.count('probe')
        if parsercorr.normalize_error(m) != parsercorr.normalize_error(real):
            corr.disagree('probe', {'docstring': text}, m, real)
        prob = _by_construction(text, expected, parts)
        if prob:
            corr.expect_fail('probe', {'docstring': text, 'intended': [list(e) for e in expected]},
                             'tiling + intended kinds', prob, 'excluded shape of the grammar')
    # the witnesses of the proved non-vacuity examples, on the real code
    for text in ('  intro text\n  >>> x = [1,\n  ...      2]\n  >>> print(x)\n  [1, 2]\n\n  more text',):
        real, parts = parsercorr.real_parse(text)
        m = parsercorr.model_parse([text], driver.run_lines)[0]
        corr.count('witness')
        if parsercorr.normalize_error(m) != parsercorr.normalize_error(real):
            corr.disagree('witness', {'docstring': text}, m, real)


# ------------------------------------------------------------------ failing-input search
def _fails(text, expected=None):
    """property oracle on the REAL code only"""
    from xdoctest import parser, exceptions
    signal.signal(signal.SIGPROF, _alarm)
    signal.setitimer(signal.ITIMER_PROF, 5.0)
    try:
        with warnings.catch_warnings():
            warnings.simplefilter('ignore')
            parts = parser.DoctestParser().parse(text)
    except _Timeout:
        return {'observed': 'hang (> 5 s)', 'expected_by_spec': 'parse returns', 'api': 'DoctestParser().parse(docstring)'}
    except exceptions.DoctestParseError:
        signal.setitimer(signal.ITIMER_PROF, 0)
        if expected is not None:
            return {'observed': 'rejected: DoctestParseError', 'expected_by_spec': 'a well-formed docstring parses',
                    'api': 'DoctestParser().parse(docstring)'}
        return None
    except Exception as ex:
        signal.setitimer(signal.ITIMER_PROF, 0)
        return {'observed': 'escaped ' + type(ex).__name__, 'expected_by_spec': 'parts or DoctestParseError',
                'api': 'DoctestParser().parse(docstring)'}
    finally:
        signal.setitimer(signal.ITIMER_PROF, 0)
    _, L = O.prepared(text)
    prob = O.deindent_problem(text)
    kinds = []
    if prob is None:
        prob, kinds = O.check_tiling(L, parts, strict_blank=expected is not None)
    if prob is None and expected is not None:
        if not O.expected_matches_lines(expected, L):
            return None
        want_kinds = [e[0] for e in expected]
        if kinds != want_kinds:
            i = next((i for i, (a, b) in enumerate(zip(kinds, want_kinds)) if a != b), 0)
            prob = 'line %d %r is %s, intended %s' % (i, L[i] if i < len(L) else None, kinds[i] if i < len(kinds) else None,
                                                      want_kinds[i] if i < len(want_kinds) else None)
    if prob:
        return {'observed': prob, 'expected_by_spec': 'the parts re-join to the tab-expanded de-indented docstring, line for line, '
                'with the intended kinds and line offsets', 'api': 'DoctestParser().parse(docstring)'}
    return None


def _labels_plausible(lines, expected):
    """a shrunk docstring must still be one the intended labels are RIGHT for: a source line that does not start with the `>>>`
    prompt (a `...` continuation, an unprefixed line of a string literal) continues a source line, a want follows source or want"""
    import ast as _ast
    prev = None
    run = []
    runs = []
    for l, e in zip(lines, expected):
        kind = e[0]
        if kind == 'src' and not l.lstrip().startswith('>>>') and prev != 'src':
            return False
        if kind == 'want' and prev not in ('src', 'want'):
            return False
        if kind == 'src':
            t = l.lstrip()
            run.append(t[4:] if t.startswith(('>>> ', '... ')) else ('' if t in ('>>>', '...') else l))
        elif run:
            runs.append(run)
            run = []
        prev = kind
    if run:
        runs.append(run)
    for r in runs:
        # every run of source lines, de-prompted, is still complete Python (no string or bracket left open by a dropped line)
        try:
            compile('\n'.join(r) + '\n', '<shrunk>', 'exec', flags=_ast.PyCF_ONLY_AST | _ast.PyCF_ALLOW_TOP_LEVEL_AWAIT, dont_inherit=True)
        except SyntaxError:
            return False
    return True


def _model_agrees(text, expected):
    """the guard that keeps a shrunk docstring inside the property's quantifier: the intended labels must still be what the MODEL
    (proved to label the grammar as intended, and tied to the unchanged code) says about the text, and the model must parse it;
    a candidate the model itself disagrees with would 'fail' on the unchanged tree too and is no counterexample"""
    try:
        ml = driver.run_lines(['label\t' + enc(text)], jobs=1)[0]
        if not ml.startswith('ok'):
            return False
        body = ml.split('\t', 1)[1] if '\t' in ml else ''
        labs = [x.split(':')[0] for x in body.split('|')] if body else []
        kinds = ['src' if l in ('dsrc', 'dcnt') else l for l in labs]
        if kinds != [e[0] for e in expected]:
            return False
        mp = parsercorr.model_parse([text], lambda lines: driver.run_lines(lines, jobs=1))[0]
        return parsercorr.normalize_error(mp).startswith('ok')
    except Exception:
        return False


def _shrink_lines(text, expected):
    """drop whole lines (with their expectation) while the failure persists"""
    lines = text.split('\n')
    if expected is None or len(lines) != len(expected):
        return text, expected
    i = 0
    while i < len(lines) and len(lines) > 1:
        cand_l = lines[:i] + lines[i + 1:]
        cand_e = expected[:i] + expected[i + 1:]
        t = '\n'.join(cand_l)
        ok = False
        try:
            _, L = O.prepared(t)
            ok = _labels_plausible(cand_l, cand_e) and O.expected_matches_lines(cand_e, L) and _model_agrees(t, cand_e) \
                and _fails(t, cand_e) is not None
        except Exception:
            ok = False
        if ok:
            lines, expected = cand_l, cand_e
        else:
            i += 1
    return '\n'.join(lines), expected


def _shrink_sequence(docs, ops):
    ops = shrink_list(ops, lambda o: bool(statefulparse.fails_sequence(docs, o)), max_steps=120)
    used = sorted(set(o[1] for o in ops))
    remap = {old: new for new, old in enumerate(used)}
    return [docs[i] for i in used], [[o[0], remap[o[1]]] + list(o[2:]) for o in ops]


def search(ctx, corr, broken):
    found = []
    cands = []
    for e in corr.expect_failures:
        if 'sequence' in e['input']:
            docs, ops = e['input']['docstrings'], e['input']['sequence']
            probs = statefulparse.fails_sequence(docs, ops)
            if probs:
                docs, ops = _shrink_sequence(docs, ops)
                probs = statefulparse.fails_sequence(docs, ops) or probs
                found.append({'input': {'docstrings': docs, 'sequence': ops}, 'observed': probs[0],
                              'expected_by_spec': 'every parse of a docstring returns the same parts, which re-join to its lines '
                              'with the right line offsets, whatever was parsed, collected, run or modified before',
                              'api': 'the sequence of calls, in one process'})
                if len(found) >= 2:
                    return found
            continue
        cands.append((e['input']['docstring'], e['input'].get('intended')))
    for d in corr.disagreements:
        if 'docstring' in d['input']:
            cands.append((d['input']['docstring'], None))
        elif 'sequence' in d['input'] and len(found) < 2:
            # the model and the code differ somewhere in this sequence (possibly only in wording): do the by-construction oracles object?
            docs, ops = d['input']['docstrings'], d['input']['sequence']
            probs = statefulparse.fails_sequence(docs, ops)
            if probs:
                docs, ops = _shrink_sequence(docs, ops)
                probs = statefulparse.fails_sequence(docs, ops) or probs
                found.append({'input': {'docstrings': docs, 'sequence': ops}, 'observed': probs[0],
                              'expected_by_spec': 'every parse of a docstring returns the same, correct parts',
                              'api': 'the sequence of calls, in one process'})
    rng = ctx.sub_rng('search')
    if not found:
        for _ in range(150):
            docs, ops = statefulparse.gen_sequence(rng)
            probs = statefulparse.fails_sequence(docs, ops)
            if probs:
                docs, ops = _shrink_sequence(docs, [list(o) for o in ops])
                probs = statefulparse.fails_sequence(docs, ops) or probs
                found.append({'input': {'docstrings': docs, 'sequence': ops}, 'observed': probs[0],
                              'expected_by_spec': 'every parse of a docstring returns the same, correct parts',
                              'api': 'the sequence of calls, in one process'})
                return found
    for _ in range(3000 if ctx.quick else 20000):
        t, e, _m = G.gen_docstring(rng)
        cands.append((t, [list(x) for x in e]))
        if rng.random() < 0.3:
            cands.append((G.mutate(rng, t), None))
    for _ in range(1500):
        cands.append((G.fuzz_docstring(rng), None))
    # the known offside-prompt class, so that it is reported as KNOWN-FINDING rather than missed
    seen = set()
    for text, exp in cands:
        if text in seen:
            continue
        seen.add(text)
        exp_t = [tuple(x) for x in exp] if exp else None
        f = _fails(text, exp_t)
        if f:
            if exp_t is not None:
                text, exp_t = _shrink_lines(text, exp_t)
            else:
                (text,) = shrink_strings((text,), lambda p: _fails(p[0]) is not None, max_steps=1500)
            f = _fails(text, exp_t) or f
            found.append({'input': {'docstring': text, 'intended': [list(x) for x in exp_t] if exp_t else None}, **f})
            if len(found) >= 3:
                break
    return found


LINE_BOUNDARIES = '\r\x0b\x0c\x1c\x1d\x1e\x85\u2028\u2029'


def _offside_neutralised(text, intended):
    """K-C13-a: put a blank line in front of every prompt that directly follows a source line at another indentation"""
    lines = text.split('\n')
    if len(lines) < len(intended):
        return None
    out_l, out_e = [], []
    hit = False
    for i, (l, e) in enumerate(zip(lines, intended)):
        if i > 0 and e[0] == 'src' and intended[i - 1][0] == 'src' and l.lstrip(' ').startswith('>>>'):
            a, b = lines[i - 1], l
            if len(a) - len(a.lstrip(' ')) != len(b) - len(b.lstrip(' ')):
                out_l.append('')
                out_e.append(('text', ''))
                hit = True
        out_l.append(l)
        out_e.append(tuple(e))
    return ('\n'.join(out_l + lines[len(intended):]), out_e) if hit else None


def _mixed_neutralised(text, intended):
    """K-C13-b: the defect needs a want after the statement: blank out the want lines"""
    lines = text.split('\n')
    if len(lines) < len(intended) or not any(e[0] == 'want' for e in intended):
        return None
    mixed = False
    for i in range(1, len(intended) - 1):
        a, b = lines[i].lstrip(' '), lines[i + 1].lstrip(' ')
        if intended[i][0] == 'src' and intended[i + 1][0] == 'src' and not a.startswith('...') and \
                (b.startswith('...') or len(intended[i + 1]) == 3) and not b.startswith('>>>'):
            mixed = True
    if not mixed:
        return None
    out_l = [('' if e[0] == 'want' else l) for l, e in zip(lines, intended)]
    out_e = [(('text', '') if e[0] == 'want' else tuple(e)) for e in intended]
    return '\n'.join(out_l + lines[len(intended):]), out_e


def _is_kc13c(text):
    t = text.expandtabs()
    odd = [c for c in t if c.isspace() and c not in ' \n']     # other line boundaries, other whitespace
    if odd and O.deindent_problem(text):
        neutral = ''.join('X' if (c.isspace() and c not in ' \n') else c for c in t)
        return _fails(neutral) is None
    return False


def classify(ctx, hit):
    """narrow: the input has the shape of the finding AND the failure disappears when the trigger is neutralised"""
    i = hit.get('input') or {}
    if 'sequence' in i:
        return None
    text = i.get('docstring')
    if not isinstance(text, str):
        return None
    intended = [tuple(x) for x in i['intended']] if i.get('intended') else None
    if intended is None:
        return 'K-C13-c' if _is_kc13c(text) else None
    n = _offside_neutralised(text, intended)
    if n is not None:
        _, L = O.prepared(n[0])
        if O.expected_matches_lines(_dedent_expected(n[1]), L) and _fails(n[0], _dedent_expected(n[1])) is None:
            return 'K-C13-a'
    n = _mixed_neutralised(text, intended)
    if n is not None and 'rejected' in str(hit.get('impl', '')) + str(hit.get('observed', '')):
        if _fails(n[0], None) is None and _parses(n[0]):
            return 'K-C13-b'
    return None


def _dedent_expected(exp):
    nb = [e[1] for e in exp if e[1].strip()]
    m = min((len(l) - len(l.lstrip(' ')) for l in nb), default=0)
    out = [(e[0], e[1][m:]) + tuple(e[2:]) for e in exp]
    while out and out[-1][1] == '':
        out.pop()
    return out


def _parses(text):
    from xdoctest import parser
    try:
        with warnings.catch_warnings():
            warnings.simplefilter('ignore')
            parser.DoctestParser().parse(text)
        return True
    except Exception:
        return False


def replay_finding(ctx, finding):
    ws = WITNESS.get(finding['id'])
    if not ws:
        return False
    for text, exp in ws:
        if _fails(text, [tuple(e) for e in exp] if exp else None) is None:
            return False
    return True


def replay(ctx, failing):
    i = failing['input']
    if 'sequence' in i:
        probs = statefulparse.fails_sequence(i['docstrings'], i['sequence'])
        print('input: docstrings=%r\n       sequence=%r\n -> %s' % (i['docstrings'], i['sequence'], probs[0] if probs else 'every parse agrees'))
        return bool(probs)
    exp = [tuple(x) for x in i['intended']] if i.get('intended') else None
    f = _fails(i['docstring'], exp)
    print('input: docstring=%r -> %s' % (i['docstring'], f or 'agrees with the specification'))
    return f is not None

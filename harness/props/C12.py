"""C12 — Process-global state is restored after every outcome."""
import contextlib
import io
import itertools
import os
import random
import shutil
import sys
import tempfile

from .. import driver, par
from ..codec import enc, enc_list
from ..corr import bracket as cb

LEAN_TARGETS = ['XdocModel.Proofs.C12', 'XdocModel.Pins.Bracket']
MANIFEST = {
    'text': ("Partial. Proved for ALL bodies (arbitrary functions on the process state: they may replace sys.stdout, rebind or edit "
             "warnings.filters, edit sys.path), ALL endings (normal, Exception, SystemExit, KeyboardInterrupt) and all part lists of "
             "the bracket model (CaptureStdout start/stop/__exit__, warnings.catch_warnings, PythonPathContext as repaired by bc2ba1f b193b74 c14b47c, "
             "arranged as in DocTest.run): `stdout_restored` / `stdout_restored_after_part`, `stderr_untouched`, `filters_restored` "
             "(same list object, same contents, showwarning and _showwarnmsg_impl), `syspath_restored` (body leaves sys.path alone => "
             "the list is restored exactly and silently, import succeeding or failing, every index <= len incl. every negative integer), "
             "`syspath_restored_far_index`, `syspath_restored_every_index` (EVERY integer index: same entries afterwards, no "
             "RuntimeError/IndexError; the very same list for every index <= len and whenever the directory was not already listed), "
             "`withPPC_no_index_error`; partial for bodies that edit sys.path: `syspath_one_occurrence_removed` (exactly one occurrence "
             "of the temporary entry goes, all other entries keep their order — also when the warning about the mangled path is raised "
             "as an error, which happens after the removal; RuntimeError only when it is absent). Observed, not proved: "
             "that `with` runs __exit__ on BaseException, that asyncio.run leaves no loop running, sys.stderr identity — by the outcome "
             "matrix on the real DocTest.run (state snapshots before/after compared with the model and with 'before = after'), on "
             "import_module_from_path (importable / raising / SystemExit / KeyboardInterrupt / missing modules x index x module-level "
             "sys.path edits) and on PythonPathContext histories (nested, re-entered, edited paths)."),
    'note': ("Trusted: CPython's `with` protocol and asyncio.run; a body holds no reference to the objects the brackets saved; the "
             "source texts of CaptureStdout.start/stop/__enter__/__exit__, PythonPathContext.__enter__ and the control skeleton of "
             "its __exit__, _custom_import_modpath and the bracket statements of DocTest.run are pinned."),
    'technique': 'Lean 4 proof (bracket discipline over arbitrary bodies; Python list indexing over Int) + state-snapshot correspondence over an outcome matrix',
}
RULE = ('(1) DocTest.run on generated modules: terminating kind (pass, output mismatch, exception, expected exception, ExitTestException, '
        'all skipped [native and pytest mode], import failure / SystemExit / KeyboardInterrupt while importing, SystemExit, '
        'KeyboardInterrupt, capture stream closed by the doctest) x position of the terminating part (first/middle/last) x on_error x '
        'effects of every part (print, replace sys.stdout, simplefilter, rebind warnings.filters, replace showwarning, top-level await, '
        'sys.path edits, REQUIRES(module:…) lookups of never-seen existing/missing modules) x shape of sys.path ("" in front / middle / end, ".", duplicates; cwd = scratch dir) x module-level sys.path edits (also with warnings turned into errors): identity of sys.stdout/sys.stderr/warnings.filters/showwarning, copies of '
        'sys.path and filters, running-loop check, before and after; after-state vs model op `runbracket`, and before = after whenever '
        'no body edits sys.path; (2) import_module_from_path: module kind x index (-1, 0, inside, end, beyond, very negative) x warnings-as-errors x '
        'module-level sys.path edits vs op `ppc`; (3) PythonPathContext histories on a synthetic sys.path (nested contexts, re-entered '
        'objects, inserts/removes in between) vs op `ppc`; (4) runner.doctest_module on [pass, TERMINATOR, pass] modules; (5) every by-name lookup API (_module_exists, modname_to_modpath, is_modname_importable, _rectify_to_modpath, _is_requires_satisfied, doctest_module given a module NAME) x shape of sys.path x module exists or not, always a never-seen name: exact sys.path list, os.environ, cwd, sys.argv, sys.modules, streams and filters before = after. non-trivial = '
        'every case with a terminator, an effect or an edit; distinct = distinct specification')
ASSUMPTIONS = ['`with` runs __exit__ for every ending, including BaseException (CPython)',
               'asyncio.run closes the loop it creates (checked after every run)']

KINDS = ['pass', 'mismatch', 'exception', 'expected', 'exit', 'sysexit', 'kbd', 'close']
TERMINAL = ('exception', 'exit', 'sysexit', 'kbd', 'close')     # kinds whose last line has no want
EFFECTS = ['print', 'so.10', 'so.11', 'af.1', 'rf.50', 'sw.51', 'await', 'rq:M', 'rq:E', 'rqi:M']
PATH_EFFECTS = ['pa.%s' % enc('zz_a'), 'pi.0.%s' % enc('zz_b'), 'pp']
TOPS = [[], [], ['so.12'], ['so.12', 'pa.%s' % enc('zz_v')], ['pa.%s' % enc('zz_t')], ['pi.0.%s' % enc('zz_u')], ['pp'], ['pi.0.%s' % enc('zz_u'), 'pa.%s' % enc('zz_t')]]

_N = [0]


def _name(tag):
    _N[0] += 1
    return 'xv12%s_%d_%d' % (tag, os.getpid(), _N[0])


def matrix_specs(rng, quick):
    """the outcome matrix, every cell with random effects"""
    specs = []
    for kind in KINDS:
        for pos in (0, 1, 2):
            for oe in ('return', 'raise'):
                reps = 1 if quick else 4
                for _ in range(reps):
                    parts = []
                    for k in range(3):
                        eff = [rng.choice(EFFECTS) for _ in range(rng.randint(0, 3))]
                        if rng.random() < 0.12:
                            eff.append(rng.choice(PATH_EFFECTS))
                        parts.append({'effects': eff, 'kind': kind if k == pos else rng.choice(['pass', 'pass', 'expected'])})
                    if kind in TERMINAL:
                        parts = parts[:pos + 1]      # later statements would be merged into the same part
                    specs.append({'parts': parts, 'on_error': oe, 'top': rng.choice(TOPS), 'import_end': 'n',
                                  'path_variant': rng.choice(cb.PATH_VARIANTS), 'reruns': rng.choice([0, 0, 1, 2])})
    # a by-name lookup of a never-seen module (REQUIRES(module:…)) under every shape of sys.path
    for pv in cb.PATH_VARIANTS:
        for eff in (['rq:M'], ['rq:E'], ['rqi:M'], ['rqi:E', 'so.10']):
            for kind in ('pass', 'exception'):
                specs.append({'parts': [{'effects': eff, 'kind': kind}, {'effects': ['print'], 'kind': 'pass'}][:1 if kind == 'exception' else 2],
                              'on_error': 'return', 'top': [], 'import_end': 'n', 'path_variant': pv})
    for ie in ('e', 's', 'k'):
        for oe in ('return', 'raise'):
            for top in TOPS[1:]:
                specs.append({'parts': [{'effects': ['so.10'], 'kind': 'pass'}], 'on_error': oe, 'top': top, 'import_end': ie})
    for mode in ('native', 'pytest'):
        for oe in ('return', 'raise'):
            specs.append({'parts': [{'effects': ['so.10', 'af.1'], 'kind': 'pass'}], 'allskip': True, 'mode': mode, 'on_error': oe})
    # warnings are errors and the module under test mangles sys.path while it is imported
    for oe in ('return', 'raise'):
        for top in (['pi.0.%s' % enc('zz_u')], ['pi.0.%s' % enc('zz_u'), 'pa.%s' % enc('zz_t')], []):
            for kind in ('pass', 'exception', 'sysexit'):
                specs.append({'parts': [{'effects': ['print', 'so.10'], 'kind': kind}], 'on_error': oe, 'top': top, 'import_end': 'n',
                              'warn_error': True})
    return specs


def random_spec(rng):
    n = rng.randint(1, 4)
    parts = []
    for k in range(n):
        eff = [rng.choice(EFFECTS) for _ in range(rng.randint(0, 4))]
        if rng.random() < 0.15:
            eff.append(rng.choice(PATH_EFFECTS))
        parts.append({'effects': eff, 'kind': rng.choice(KINDS + ['pass'] * 6 + ['expected'] * 2)})
        if parts[-1]['kind'] in TERMINAL:
            break
    return {'parts': parts, 'on_error': rng.choice(['return', 'raise']), 'top': rng.choice(TOPS),
            'import_end': rng.choice(['n'] * 12 + ['e', 's', 'k']), 'allskip': rng.random() < 0.04,
            'path_variant': rng.choice(cb.PATH_VARIANTS + [None] * 4),
            'mode': rng.choice(['native'] * 5 + ['pytest']), 'reruns': rng.choice([0, 0, 0, 1, 2])}


def edits_path(spec):
    if any(t.split('.')[0] in ('pa', 'pi', 'pp', 'pr') for t in spec.get('top', [])) and not spec.get('allskip'):
        return True
    return any(e.split('.')[0] in ('pa', 'pi', 'pp', 'pr') for p in spec['parts'] for e in p['effects'])


def _resolve_lookups(spec, tmpdir):
    """the symbolic effects rq:M / rq:E / rqi:M / rqi:E (a REQUIRES(module:…) directive naming a Missing / an Existing
    module) get a module name this process has never looked up — at EVERY evaluation, because the process-wide
    directive._MODNAME_EXISTS_CACHE answers a second lookup of a name without touching anything"""
    names = []
    parts = []
    for p in spec['parts']:
        eff = []
        for e in p['effects']:
            if e.startswith('rq'):
                kind, what = e.split(':')
                n = cb.make_existing(tmpdir) if what == 'E' else cb.fresh_name('q')
                names.append(n)
                e = '%s:%s' % (kind, n)
            eff.append(e)
        parts.append(dict(p, effects=eff))
    return dict(spec, parts=parts, lookup_only=names)


def eval_doctest_spec(spec, tmpdir):
    """returns (result dict, list of property failures on the real code)"""
    r = cb.run_doctest_case(dict(_resolve_lookups(spec, tmpdir), edits_path=edits_path(spec)), tmpdir, _name('d'))
    fails = []
    # (a module that itself replaces sys.stdout while it is imported is outside the quantifier: no part is being captured then)
    for w in ([] if any(t.startswith('so.') for t in spec.get('top', [])) else r.get('rerun_fails', [])):
        fails.append({'what': 'sys.stdout / sys.path not restored by a later run of the same DocTest object', 'observed': w,
                      'expected': 'after every run sys.stdout is the object that was there when that run started'})
    if r['loop']:
        fails.append({'what': 'an event loop is left running', 'observed': 'asyncio._get_running_loop() is not None'})
    for x in r['extras']:
        fails.append({'what': 'process-global state other than streams/filters/sys.path changed during DocTest.run', 'observed': x,
                      'expected': 'os.environ, cwd, sys.argv unchanged; looked-up modules not imported'})
    if any(t.startswith('so.') for t in spec.get('top', [])) and spec.get('import_end', 'n') != 'n' and not spec.get('allskip'):
        # the module replaces sys.stdout and then fails to import: no doctest part is ever captured, the module's own
        # side effect stays (outside the property's quantifier); compared with the model only
        return r, fails
    if not edits_path(spec):
        if r['after'] != r['before']:
            fails.append({'what': 'process state after DocTest.run differs from the state before', 'observed': r['after'],
                          'expected': r['before']})
    else:
        # sys.path edits of a body persist; everything else must be as before
        a = r['after'].rsplit(' path=', 1)[0]
        b = r['before'].rsplit(' path=', 1)[0]
        if a != b:
            fails.append({'what': 'process state (other than sys.path, which this doctest edits) differs after DocTest.run',
                          'observed': a, 'expected': b})
    return r, fails


INDEXES = ['-1', '0', '1', 'len', 'len+3', '-2', '-len-1', '-len-2', 'far', '-1000']


def import_specs(rng, quick):
    specs = []
    for exists, ie in ((True, 'n'), (True, 'e'), (True, 's'), (True, 'k'), (False, 'n')):
        for idx in INDEXES:
            for top in ([[]] if not exists else [[], ['pi.0.%s' % enc('zz_u')], ['pa.%s' % enc('zz_t')], ['pp'], ['SELF']]):
                specs.append({'exists': exists, 'import_end': ie, 'index_sym': idx, 'top': top})
    # the process runs with warnings turned into errors (-W error): a module that mangles sys.path while it is
    # imported makes __exit__ warn; the temporary entry must be gone all the same (c14b47c)
    for ie in ('n', 'e', 's'):
        for idx in ('-1', '0', 'len+3', 'far'):
            for top in ([], ['pi.0.%s' % enc('zz_u')], ['pi.0.%s' % enc('zz_u'), 'pa.%s' % enc('zz_t')], ['pp'], ['SELF']):
                specs.append({'exists': True, 'import_end': ie, 'index_sym': idx, 'top': top, 'warn_error': True})
    return specs


def _resolve_index(sym, n):
    return {'-1': -1, '0': 0, '1': 1, 'len': n, 'len+3': n + 3, '-2': -2, '-len-1': -n - 1, '-len-2': -n - 2,
            'far': -2 * n - 7, '-1000': -1000}[sym]


def eval_import_spec(spec, tmpdir, unrestricted=False):
    """(`unrestricted` is kept for old replay files: since b193b74 no index is excluded from 'before = after')"""
    spec = dict(spec)
    n = len(sys.path)
    spec['index'] = _resolve_index(spec['index_sym'], n)
    spec['top'] = [('pr.%s' % enc(tmpdir)) if t == 'SELF' else t for t in spec['top']]
    r = cb.run_import_case(spec, tmpdir, _name('i'))
    fails = []
    k_c12_a = False
    body_edits = bool(spec['top']) and spec.get('exists', True)
    if not body_edits and r['after_path'] != r['before_path']:
        fails.append({'what': 'sys.path after import_module_from_path differs from sys.path before', 'observed': r['after_path'],
                      'expected': r['before_path'], 'k_c12_a': k_c12_a})
    if body_edits and spec['top'][0].split('.')[0] != 'pr':
        # the temporary entry must be gone: as many occurrences of the directory as before
        if r['after_path'].count(tmpdir) != r['before_path'].count(tmpdir):
            fails.append({'what': 'the temporary sys.path entry of import_module_from_path was not removed',
                          'observed': r['after_path'], 'expected': 'as many %r as before' % tmpdir, 'k_c12_a': k_c12_a})
    a = r['after'].rsplit(' path=', 1)[0]
    b = r['before'].rsplit(' path=', 1)[0]
    if a != b:
        fails.append({'what': 'stdout/stderr/warning filters differ after import_module_from_path', 'observed': a, 'expected': b})
    return spec, r, fails


def ppc_history(rng):
    path0 = ['p%d' % i for i in range(rng.randint(0, 4))]
    if rng.random() < 0.3 and path0:
        path0.append(path0[0])
    names = ['d0', 'd1'] + path0[:1]
    events = []
    nobj = 0
    open_ = []
    for _ in range(rng.randint(2, 9)):
        r = rng.random()
        if r < 0.3 or nobj == 0:
            events.append('new:%s:%d' % (enc(rng.choice(names)), rng.choice([-1, 0, 0, -1, 1, 2, 7, -2, -3, -9, -15])))
            events.append('enter:%d' % nobj)
            open_.append(nobj)
            nobj += 1
        elif r < 0.55 and open_:
            k = open_.pop() if rng.random() < 0.8 else open_.pop(0)
            events.append(('exitw:%d' if rng.random() < 0.3 else 'exit:%d') % k)
        elif r < 0.65:
            k = rng.randrange(nobj)
            events.append('enter:%d' % k)      # re-enter an object (its index was normalised by the first enter)
            open_.append(k)
        elif r < 0.75:
            events.append('ins:%d:%s' % (rng.choice([0, 0, 1, -1, 5]), enc(rng.choice(['x', 'y'] + names))))
        elif r < 0.85:
            events.append('app:%s' % enc(rng.choice(['x', 'y'] + names)))
        elif r < 0.95:
            events.append('rem:%s' % enc(rng.choice(['x'] + names)))
        else:
            events.append('pop')
    while open_:
        events.append('exit:%d' % open_.pop())
    return path0, events


RUNNER_KINDS = ['pass', 'mismatch', 'exception', 'exit', 'sysexit', 'kbd', 'close']


def eval_runner_kind(kind, tmpdir):
    """[pass, KIND, pass] through runner.doctest_module: the process state afterwards"""
    from xdoctest import runner
    name = _name('r')
    src = cb.HEADER
    for k, kd in enumerate(['pass', kind, 'pass']):
        lines = []
        for text, want, _ in cb.part_lines({'effects': ['so.10', 'af.1', 'print'], 'kind': kd}, k):
            lines.append('>>> ' + text)
            lines.extend(want or [])
        src += '\ndef f%d():\n    """\n    Example:\n%s    """\n' % (k, ''.join('        ' + l + '\n' for l in lines))
    modpath = os.path.join(tmpdir, name + '.py')
    with open(modpath, 'w') as f:
        f.write(src)
    snap = cb.Snapshot()
    exc = None
    try:
        try:
            runner.doctest_module(modpath, command='all', argv=[''], verbose=0)
        except BaseException as e:   # noqa
            exc = e
        after = snap.render_now(dict(getattr(sys, 'xv12_OBJ', {})))
        loop = snap.loop_running()
    finally:
        snap.restore()
        sys.modules.pop(name, None)
        if hasattr(sys, 'xv12_OBJ'):
            del sys.xv12_OBJ
    fails = []
    if after != snap.render_before():
        fails.append({'what': 'process state after runner.doctest_module differs from the state before', 'observed': after,
                      'expected': snap.render_before()})
    if loop:
        fails.append({'what': 'an event loop is left running'})
    return {'source': src, 'exc': repr(exc)[:200] if exc else None, 'after': after}, fails


def lookup_specs():
    return [{'action': a, 'path_variant': pv, 'exists': ex} for a in cb.LOOKUP_ACTIONS for pv in cb.PATH_VARIANTS for ex in (False, True)]


def eval_lookup_spec(spec, tmpdir):
    r = cb.run_lookup_case(spec, tmpdir)
    fails = []
    if r['path_after'] != r['path_before']:
        fails.append({'what': 'sys.path (exact list) differs after a by-name module lookup', 'observed': r['path_after'],
                      'expected': r['path_before']})
    a = r['after'].rsplit(' path=', 1)[0]
    b = r['before'].rsplit(' path=', 1)[0]
    if a != b:
        fails.append({'what': 'stdout/stderr/warning filters differ after a by-name module lookup', 'observed': a, 'expected': b})
    for x in r['extras']:
        fails.append({'what': 'process-global state changed during a by-name module lookup', 'observed': x,
                      'expected': 'os.environ, cwd, sys.argv unchanged; looked-up modules not imported'})
    return r, fails


@contextlib.contextmanager
def _scratch():
    d = tempfile.mkdtemp(prefix='xdocverif-')
    try:
        yield d
    finally:
        shutil.rmtree(d, ignore_errors=True)


def _shard(args):
    seed, shard, nshards, quick, nrandom, nppc = args
    rng = random.Random('c12:%d:%d' % (seed, shard))
    out = {'n': {}, 'nontriv': set(), 'tags': {}, 'dis': [], 'exp': [], 'samples': []}

    def count(s, n=1):
        out['n'][s] = out['n'].get(s, 0) + n

    def tag(t):
        out['tags'][t] = out['tags'].get(t, 0) + 1
    buf = io.StringIO()
    with _scratch() as d, contextlib.redirect_stdout(buf):
        # (1) DocTest.run
        mrng = random.Random('c12m:%d' % seed)
        specs = [s for i, s in enumerate(matrix_specs(mrng, quick)) if i % nshards == shard]
        specs += [random_spec(rng) for _ in range(nrandom)]
        results = []
        for spec in specs:
            r, fails = eval_doctest_spec(spec, d)
            results.append((spec, r, fails))
        answers = driver.run_lines([r['model_line'] for _, r, _ in results], jobs=1)
        for (spec, r, fails), m in zip(results, answers):
            count('run')
            out['nontriv'].add(hash(repr(spec)))
            tag('run:%s:%s' % (r['real_end'], 'failed' if r['failed'] else 'nofail'))
            if cb.normalize_model(m) != r['observed']:
                out['dis'].append({'suite': 'runbracket', 'input': {'kind': 'run', 'spec': spec}, 'model': cb.normalize_model(m),
                                   'impl': r['observed']})
            for f in fails:
                out['exp'].append({'suite': 'run-state', 'input': {'kind': 'run', 'spec': spec}, 'expected': f.get('expected'),
                                   'impl': f.get('observed'), 'why': f['what']})
            if not out['samples'] and r['real_end'] != 'normal':
                out['samples'].append({'op': 'runbracket', 'spec': spec, 'observed': r['observed'][:300]})
        # (2) import_module_from_path
        ispecs = [s for i, s in enumerate(import_specs(rng, quick)) if i % nshards == shard]
        iresults = [eval_import_spec(s, d) for s in ispecs]
        answers = driver.run_lines([r['model_line'] for _, r, _ in iresults], jobs=1)
        for (spec, r, fails), m in zip(iresults, answers):
            count('import')
            out['nontriv'].add(hash(repr(sorted((k, repr(v)) for k, v in spec.items() if k != 'index'))))
            exp_result, last = cb.expected_import_result(spec, m)
            tag('import:%s' % r['result'])
            obs = '%s path=%s' % (r['result'], enc_list(r['after_path']))
            if last is None:
                mod = '%s path=%s' % (exp_result, enc_list(r['before_path']))
            else:
                mod = '%s path=%s' % (exp_result, last[1])
                if last[0] == 'recovered' and r['warned'] == 0 and r['result'] == 'ok':
                    obs += ' (no warning although recovered by search)'
            if mod != obs:
                out['dis'].append({'suite': 'ppc-import', 'input': {'kind': 'import', 'spec': spec}, 'model': mod, 'impl': obs})
            for f in fails:
                out['exp'].append({'suite': 'import-state', 'input': {'kind': 'import', 'spec': spec}, 'expected': f.get('expected'),
                                   'impl': f.get('observed'), 'why': f['what']})
        # (3) PythonPathContext histories
        hs = [ppc_history(rng) for _ in range(nppc)]
        answers = driver.run_lines(['\t'.join(['ppc', enc_list(p), '|'.join(ev)]) for p, ev in hs], jobs=1)
        for (p, ev), m in zip(hs, answers):
            count('ppc-history')
            out['nontriv'].add(hash((tuple(p), tuple(ev))))
            real = cb.run_ppc_history(p, ev)
            for a in real.split('\t'):
                tag('ppc:' + a.split('/')[0].split('=')[0])
            if real != m:
                out['dis'].append({'suite': 'ppc-history', 'input': {'kind': 'ppc', 'path': p, 'events': ev}, 'model': m, 'impl': real})
        # (5) by-name lookups of never-seen modules: every API x every shape of sys.path x module exists or not
        for i, ls in enumerate(lookup_specs()):
            if i % nshards != shard:
                continue
            r, fails = eval_lookup_spec(ls, d)
            count('lookup')
            out['nontriv'].add(hash(repr(ls)))
            tag('lookup:%s:%s' % (ls['action'], 'raised' if r['exc'] else 'ok'))
            for f in fails:
                out['exp'].append({'suite': 'lookup-state', 'input': {'kind': 'lookup', 'spec': ls}, 'expected': f.get('expected'),
                                   'impl': f.get('observed'), 'why': f['what']})
        # (4) runner
        if shard < len(RUNNER_KINDS):
            kind = RUNNER_KINDS[shard]
            r, fails = eval_runner_kind(kind, d)
            count('runner')
            tag('runner:' + kind)
            for f in fails:
                out['exp'].append({'suite': 'runner-state', 'input': {'kind': 'runner', 'terminator': kind},
                                   'expected': f.get('expected'), 'impl': f.get('observed'), 'why': f['what']})
    return out


def correspondence(ctx, corr):
    nshards = 16
    args = [(ctx.seed, s, nshards, ctx.quick, 150 if ctx.quick else 2500, 600 if ctx.quick else 12000) for s in range(nshards)]
    for r in par.pmap(_shard, args):
        for k, v in r['n'].items():
            corr.count(k, v)
        corr.nontrivial |= r['nontriv']
        for k, v in r['tags'].items():
            corr.tag(k, v)
        for d in r['dis']:
            corr.disagree(d['suite'], d['input'], d['model'], d['impl'])
        for e in r['exp']:
            corr.expect_fail(e['suite'], e['input'], e['expected'], e['impl'], e['why'])
        for s in r['samples']:
            corr.sample(s)
    # regression: the inputs of the repaired K-C12-a (index far below -len) and of c14b47c (mangled path, warnings are errors)
    with _scratch() as d:
        buf = io.StringIO()
        with contextlib.redirect_stdout(buf):
            for rs in ({'exists': True, 'import_end': 'n', 'index_sym': 'far', 'top': []},
                       {'exists': True, 'import_end': 'n', 'index_sym': '-1', 'top': ['pi.0.%s' % enc('zz_u')], 'warn_error': True}):
                spec, r, fails = eval_import_spec(rs, d)
                corr.count('regression:import')
                for f in fails:
                    corr.expect_fail('regression:import', {'kind': 'import', 'spec': rs}, f.get('expected'), f.get('observed'), f['what'])
                corr.sample({'op': 'ppc', 'regression': rs, 'result': r['result'],
                             'leaked': [p for p in r['after_path'] if p not in r['before_path']]})


# ------------------------------------------------------------------ failing-input search (real code, before = after)
def _search_shard(args):
    seed, shard = args
    rng = random.Random('c12s:%d:%d' % (seed, shard))
    hits = []
    buf = io.StringIO()
    with _scratch() as d, contextlib.redirect_stdout(buf):
        mrng = random.Random('c12sm:%d' % seed)
        specs = [s for i, s in enumerate(matrix_specs(mrng, False)) if i % 16 == shard] + [random_spec(rng) for _ in range(60)]
        for spec in specs:
            r, fails = eval_doctest_spec(spec, d)
            if fails:
                spec2 = _shrink_run(spec, d)
                r2, fails2 = eval_doctest_spec(spec2, d)
                hits.append({'kind': 'run', 'input': {'kind': 'run', 'spec': spec2}, 'module': r2['source'], 'failure': (fails2 or fails)[0],
                             'ended': r2['real_end'], 'exception': r2['exc']})
                break
        for spec in [s for i, s in enumerate(import_specs(rng, False)) if i % 16 == shard]:
            s2, r, fails = eval_import_spec(spec, d, unrestricted=True)
            if fails:
                hits.append({'kind': 'import', 'input': {'kind': 'import', 'spec': spec}, 'module': r['source'], 'failure': fails[0],
                             'index': s2['index'], 'result': r['result'], 'exception': r['exc']})
        if shard < len(RUNNER_KINDS):
            r, fails = eval_runner_kind(RUNNER_KINDS[shard], d)
            if fails:
                hits.append({'kind': 'runner', 'input': {'kind': 'runner', 'terminator': RUNNER_KINDS[shard]}, 'module': r['source'],
                             'failure': fails[0]})
        for i, ls in enumerate(lookup_specs()):
            if i % 16 == shard:
                r, fails = eval_lookup_spec(ls, d)
                if fails:
                    hits.append({'kind': 'lookup', 'input': {'kind': 'lookup', 'spec': ls}, 'failure': fails[0], 'looked_up': r['name'],
                                 'result': r['result'], 'exception': r['exc']})
                    break
    return hits


def _shrink_run(spec, d):
    """drop parts / effects / module-level edits while the state is still not restored"""
    def bad(s):
        try:
            return bool(eval_doctest_spec(s, d)[1])
        except Exception:
            return False
    cur = dict(spec)
    changed = True
    while changed:
        changed = False
        cands = []
        for k in range(len(cur['parts'])):
            if len(cur['parts']) > 1:
                cands.append(dict(cur, parts=cur['parts'][:k] + cur['parts'][k + 1:]))
            p = cur['parts'][k]
            for j in range(len(p['effects'])):
                q = dict(p, effects=p['effects'][:j] + p['effects'][j + 1:])
                cands.append(dict(cur, parts=cur['parts'][:k] + [q] + cur['parts'][k + 1:]))
        if cur.get('top'):
            cands.append(dict(cur, top=[]))
        for c in cands:
            if bad(c):
                cur = c
                changed = True
                break
    return cur


def search(ctx, corr, broken):
    hits = []
    for r in par.pmap(_search_shard, [(ctx.seed, s) for s in range(16)]):
        hits.extend(r)
    hits.sort(key=lambda h: (classify(ctx, h) is not None, h['kind'] != 'run'))
    return hits[:12]


def classify(ctx, hit):
    return None


def replay_finding(ctx, finding):
    return False


def replay(ctx, failing):
    inp = failing['input']
    with _scratch() as d:
        buf = io.StringIO()
        if inp['kind'] == 'run':
            with contextlib.redirect_stdout(buf):
                r, fails = eval_doctest_spec(inp['spec'], d)
            print('module under test:\n' + r['source'])
            print('DocTest.run(on_error=%r) mode=%s ended: %s %s' % (inp['spec'].get('on_error'), inp['spec'].get('mode', 'native'),
                                                                    r['real_end'], r['exc'] or ''))
            print('state before: ' + r['before'].rsplit(' path=', 1)[0])
            print('state after : ' + r['after'].rsplit(' path=', 1)[0])
            if inp['spec'].get('path_variant'):
                from ..codec import dec_list
                print('sys.path shape %r, cwd = scratch directory\nsys.path before: %r\nsys.path after : %r' % (
                    inp['spec']['path_variant'], r['path_before'], dec_list(r['after'].rsplit(' path=', 1)[1])))
        elif inp['kind'] == 'import':
            with contextlib.redirect_stdout(buf):
                spec, r, fails = eval_import_spec(inp['spec'], d, unrestricted=True)
            print('module imported with utils.import_module_from_path(modpath, index=%d):\n%s' % (spec['index'], r['source']))
            print('result: %s %s' % (r['result'], r['exc'] or ''))
            print('sys.path entries added: %r removed: %r' % ([p for p in r['after_path'] if p not in r['before_path']],
                                                             [p for p in r['before_path'] if p not in r['after_path']]))
        elif inp['kind'] == 'lookup':
            with contextlib.redirect_stdout(buf):
                r, fails = eval_lookup_spec(inp['spec'], d)
            print('by-name lookup %r of the never-seen module %r (%s), sys.path shape %r, cwd = scratch directory' % (
                inp['spec']['action'], r['name'], 'exists' if inp['spec'].get('exists') else 'does not exist', inp['spec'].get('path_variant')))
            print('result: %r %s' % (r['result'], r['exc'] or ''))
            print('sys.path before: %r\nsys.path after : %r' % (r['path_before'], r['path_after']))
        elif inp['kind'] == 'runner':
            with contextlib.redirect_stdout(buf):
                r, fails = eval_runner_kind(inp['terminator'], d)
            print('module run through runner.doctest_module:\n' + r['source'])
            print('ended: %s' % (r['exc'] or 'returned'))
        else:
            real = cb.run_ppc_history(inp['path'], inp['events'])
            m = driver.run_lines(['\t'.join(['ppc', enc_list(inp['path']), '|'.join(inp['events'])])])[0]
            print('PythonPathContext history %r on sys.path=%r\n real : %s\n model: %s' % (inp['events'], inp['path'], real, m))
            return real != m
    for f in fails:
        print('FAILS: %s\n   observed: %s\n   expected: %s' % (f['what'], f.get('observed'), f.get('expected')))
    if not fails:
        print('the process state after equals the state before')
    return bool(fails)

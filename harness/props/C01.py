"""C01 — Doctest code runs exactly as written: each statement once, in order."""
import random

from .. import driver, par
from ..corr import execcorr as E
from ..corr import capturecorr as CC
from ..gen import programs as P

LEAN_TARGETS = ['XdocModel.Proofs.C01', 'XdocModel.Pins.Capture']
MANIFEST = {
    'text': ("Partial. Proved for ALL inputs: (1) the chunk splitter `packageChunk` (every chunk, every answer of CPython's ast.parse "
             "on which it succeeds): `chunk_partition` (the parts' exec_lines and orig_lines, concatenated in order, are exactly the chunk's "
             "lines — each once), `cuts_at_statement_starts` (a part starts at line 0 or at a `>>> ` line CPython reports as a statement "
             "start), `only_last_part_has_want`, `part_offsets`; (2) the run loop (every execution oracle `sem`): `executed_once_in_order` "
             "(final namespace and logged_stdout = re-execution of exactly the recorded executed parts, each once, in order, in ONE "
             "environment; with skips and a failure point), `run_eq_program` (no skip, no early exit => the plain program: `foldl sem` over all "
             "parts); (3) `capture_exact`/`capture_cycles`/`capture_nothing_lost` (every interleaving of start/write/exit: the text logged for "
             "cycle i is exactly what was written during cycle i; output outside the cycles is not attributed). OBSERVED, not proved: that "
             "executing a block of whole statements equals executing them one by one in one dict (CPython), asyncio for top-level await, the "
             "labeller/grouping (C13). The correspondence compares the parser model with the real parser part by part and the real run with a "
             "plain `exec` of the de-prompted program (TRACE, stdout, final bindings, per-part logged_stdout)."),
    'note': ("Trusted: Lean kernel/axioms as audited; hand-written models Parser.lean (packageChunk), Example.lean (run loop), Capture.lean "
             "tied by this correspondence; CPython exec/eval/compile/ast.parse are parameters (`sem`, `ChunkFacts`); a doctest that seeks in "
             "sys.stdout or keeps a reference to it across parts is outside the capture model; an old-style continuation chunk directly "
             "followed by a want is compiled in 'single' mode, whose REPL echo of a non-None value is C20 (K-C20-a), the generator gives such "
             "expression statements `>>>` prompts."),
    'technique': 'Lean 4 proof (explicit cut-point refactoring of _package_chunk proved equal to the model; loop induction; buffer invariant) '
                 '+ differential correspondence against the real parser/runner and a plain-exec reference',
}
RULE = ('programs of 1..7 (quick) / 1..10 statements from 36 statement kinds (simple, bracketed multi-line, dict/lambda, triple-quoted with '
        'prefixed or UNPREFIXED continuation lines, backslash continuation, compound if/for/with, def/async def/class, decorated, comment, '
        'comment inside brackets, expression/print/value+print, semicolon line, top-level await statement and expression, block and inline '
        'directives; expression statements whose VALUE is an un-awaited coroutine, a generator, an async generator, an awaitable object, a '
        'function or a lambda — their bodies record in the TRACE if anything drives or calls them; statements that RAISE, some after writing to stdout — expected through a traceback want, after which the doctest must go on, or unexpected as last statement, where it must fail; comment lines that merely start with a word like failing/disable/script) x prompt styles (>>> everywhere / ... continuations / bare ... terminator) x indentation (none, 2/4/8 blanks, TAB, '
        'blanks+TAB) x header prose / google header / a preceding DisableDoctest:/Ignore:/Script:/… block with source AND want lines that is not part of the doctest x CORRECT wants after any statement (also wants that are or end in the ellipsis line `...`) x blank lines and prose between chunks, '
        'prose DIRECTLY after source or want lines at a smaller indentation, a new example DIRECTLY after a want at any other column '
        '(shallower or deeper), different columns after blank lines/prose; plus the '
        'exhaustive family `pairs`: every kind in every style after every kind of predecessor (plain / inline directive / want / block '
        'directive / comment) with and without a final expression+want. Compared: model `parse` pieces vs DoctestParser.parse (exec_lines, '
        'want_lines, orig_lines, line_offset, compile_mode, directives); real run vs plain exec of the de-prompted program (TRACE, '
        'concatenated and per-part logged_stdout, final bindings via clear()-snapshot dict); CaptureStdout vs model on ALL event sequences '
        '<= 6 (quick) / 8 and random ones; two doctests run nested/alternately. Every doctest is run at a verbosity in {0,1,2,3} (from 2 on — the plugin and CLI defaults — the output is shown while captured); doctests WITHOUT any want at all four; every third doctest is run three times on the SAME DocTest object: each run must behave as the first and as the plain program. non-trivial = more than one part; distinct = distinct docstring')
ASSUMPTIONS = ['exec/eval of a compiled part behave as CPython does; a block of statements executes like the statements one by one (validated here, not proved)',
               "CPython's ast.parse facts (statement start lines, last-is-expression) are taken from CPython, not from xdoctest",
               'the labeller and grouping passes of the parser are compared here but their theorems belong to C13']


def _capture_shard(args):
    maxlen, shard, nshards, seed, nrandom = args
    seqs = [s for i, s in enumerate(CC.all_sequences(maxlen)) if i % nshards == shard]
    rng = random.Random('cap:%d:%d' % (seed, shard))
    seqs += [CC.random_sequence(rng) for _ in range(nrandom)]
    seqs += [CC.cycles_sequence(rng) for _ in range(nrandom // 2)]
    lines = ['\t'.join(['capture'] + CC.enc_events(s)) for s in seqs]
    model = driver.run_lines(lines, jobs=1)
    dis = []
    exp = []
    nt = set()
    for s, m in zip(seqs, model):
        parts, outside, text, capturing = CC.real_capture(s)
        r = CC.canon(parts, outside, text, capturing)
        if r != m:
            dis.append((s, m, r))
        sp, so = CC.spec_capture(s)
        if (parts, outside) != (sp, so):
            exp.append((s, (sp, so), (parts, outside)))
        if sum(1 for e in s if e == 'X') > 1:
            nt.add(hash(repr(s)))
    return len(seqs), nt, dis[:10], exp[:10]


def _alternate(ctx, corr, count):
    """doctest A runs doctest B from inside one of its statements (nested run), then A and B are run
    again one after the other: each must log exactly its own output"""
    rng = ctx.sub_rng('alternate')
    from ..gen import doctests as gd
    import io
    import contextlib
    for _ in range(count):
        pa = P.gen_program(rng, max_len=5, allow_await=False, allow_directive=False, allow_raise=False)
        pb = P.gen_program(rng, max_len=4, allow_await=False, allow_directive=False, allow_raise=False)
        ta, la, fa = pa.render()
        tb, lb, fb = pb.render()
        # A gets one more statement that runs B
        ta2 = ta + pa.indent + ' ' * pa.stmts[-1].shift + '>>> other()\n'
        exa = E.parse_example(ta2)
        exb = E.parse_example(tb)
        if exa is None or exb is None:
            continue
        refa = P.reference(pa.source)
        refb = P.reference(pb.source)
        if refa[3] or refb[3]:
            continue
        resb = {}

        def other():
            resb['run'] = E.run_example(exb)
        from ..corr.runloop import NS
        ns = NS()
        ns, T = gd.make_namespace(ns)
        ns['__file__'] = '<ref>'
        ns['other'] = other
        exa.global_namespace = ns
        buf = io.StringIO()
        with contextlib.redirect_stdout(buf):
            exa.run(on_error='return', verbose=0)
        outa = ''.join(v or '' for v in exa.logged_stdout.values())
        outb = ''.join(v or '' for v in resb.get('run', {}).get('logged', {}).values())
        corr.count('alternate')
        corr.nontriv(('alt', ta2, tb))
        inp = {'A': ta2, 'B': tb}
        if outa != refa[1] or outb != refb[1] or buf.getvalue() != '':
            corr.expect_fail('alternate', inp, {'A': refa[1], 'B': refb[1], 'leaked': ''},
                             {'A': outa, 'B': outb, 'leaked': buf.getvalue()},
                             'output attributed to the wrong doctest, lost or duplicated')


def correspondence(ctx, corr):
    q = ctx.quick
    E.run_family(ctx, corr, 'pairs', {}, nshards=16)
    corr.exhaustive = True
    E.run_family(ctx, corr, 'random', {'count': 250 if q else 4000, 'kw': {'max_len': 7 if q else 10}}, nshards=16)
    res = par.pmap(_capture_shard, [(6 if q else 8, s, 16, ctx.seed, 300 if q else 3000) for s in range(16)])
    for n, nt, dis, exp in res:
        corr.count('capture', n)
        corr.nontrivial |= nt
        for s, m, r in dis:
            corr.disagree('capture', {'events': s}, m, r)
        for s, e, i in exp:
            corr.expect_fail('capture', {'events': s}, e, i, 'logged parts / outside text differ from the specification')
    corr.sample({'op': 'capture', 'events': ['S', ['W', 'a'], 'X', ['W', 'b'], 'S', 'X'], 'note': 'one of the exhaustive sequences'})
    _alternate(ctx, corr, 60 if q else 600)
    # statements NEXT TO disabled ones: directive scenarios (block / inline SKIP and REQUIRES on one-line, bracketed, decorated
    # statements, statements with a comment line inside) — every statement no directive disables runs once, in order (TRACE)
    from . import _runloop_common as RL
    RL.run_family(ctx, corr, 'c04_random', {'count': 40 if q else 800})


def search(ctx, corr, broken):
    c2 = type(corr)()
    E.run_family(ctx, c2, 'pairs', {}, nshards=16)
    E.run_family(ctx, c2, 'random', {'count': 600, 'kw': {'max_len': 8}}, nshards=16)
    res = par.pmap(_capture_shard, [(6, s, 16, ctx.seed + 1, 300) for s in range(16)])
    for n, nt, dis, exp in res:
        for s, e, i in exp:
            c2.expect_fail('capture', {'events': s}, e, i, 'logged parts / outside text differ from the specification')
    _alternate(ctx, c2, 100)
    from . import _runloop_common as RL
    RL.run_family(ctx, c2, 'c04_random', {'count': 120})
    hits = []
    for e in list(c2.expect_failures):
        hits.append({'kind': 'expectation', 'suite': e['suite'], 'input': e['input'], 'expected': e['expected'],
                     'impl': e['impl'], 'why': e['why']})
    hits.sort(key=lambda h: len(repr(h['input'])))
    return hits[:5]


def classify(ctx, hit):
    return None


def replay_finding(ctx, finding):
    return False


def replay(ctx, failing):
    inp = failing['input']
    if 'events' in inp:
        evs = [e if isinstance(e, str) else tuple(e) for e in inp['events']]
        parts, outside, text, cap = CC.real_capture(evs)
        sp, so = CC.spec_capture(evs)
        print('events %r\n real: parts=%r outside=%r\n spec: parts=%r outside=%r' % (evs, parts, outside, sp, so))
        return (parts, outside) != (sp, so)
    if 'program' not in inp and 'text' in inp and 'A' not in inp:
        from . import _runloop_common as RL
        return RL.replay_scenario(failing)
    if 'A' in inp:
        # doctest A runs doctest B from inside its last statement: each must log exactly its own output (re-evaluated here)
        import io
        import contextlib
        from ..gen import doctests as gd
        from ..corr.runloop import NS
        exa, exb = E.parse_example(inp['A']), E.parse_example(inp['B'])
        resb = {}

        def other():
            resb['run'] = E.run_example(exb)
        ns, _T = gd.make_namespace(NS())
        ns['__file__'] = '<ref>'
        ns['other'] = other
        exa.global_namespace = ns
        buf = io.StringIO()
        with contextlib.redirect_stdout(buf):
            exa.run(on_error='return', verbose=0)
        now = {'A': ''.join(v or '' for v in exa.logged_stdout.values()),
               'B': ''.join(v or '' for v in resb.get('run', {}).get('logged', {}).values()), 'leaked': buf.getvalue()}
        print('doctest A:\n%s\ndoctest B:\n%s\nexpected %r\nobserved %r' % (inp['A'], inp['B'], failing.get('expected'), now))
        return now != failing.get('expected')
    text = inp['text']
    prog = P.Program.from_desc(inp['program'])
    t2, line_of, stmt_first = prog.render()
    print('docstring:\n' + text)
    print('de-prompted program:\n' + prog.source)
    schedule = [tuple(x) for x in inp.get('runs') or [(0, True)]]
    print('runs (verbosity, fresh DocTest object): %r' % (schedule,))
    import io
    import contextlib
    with contextlib.redirect_stdout(io.StringIO()):
        why, run, ex = E.check_runs(prog, text, line_of, stmt_first, schedule)
    if ex is None:
        print('the docstring does not yield exactly one doctest')
        return True
    print('plain program : TRACE/stdout/bindings = %r' % (P.reference_prog(prog)[:3],))
    print('real doctest  : TRACE=%r logged=%r bindings=%r summary=%r' % (run['T'], run['logged'], run['ns'], run['summary']))
    for w in why:
        print(' - ' + w)
    return bool(why)

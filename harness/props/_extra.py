"""
Additions made by the main developer to properties whose props module is maintained by a cluster
builder: extra proof modules (obligations) and extra sentences for the MANIFEST claim. Kept apart so
that a new version of harness/props/Cxx.py can be dropped in without losing them.
"""
EXTRA_TARGETS = {
    'C01': ['XdocModel.Proofs.Compose'],
    'C08': ['XdocModel.Proofs.Compose'],
    'C13': ['XdocModel.Proofs.C13Labels'],
    'C18': ['XdocModel.Proofs.C18Labels', 'XdocModel.Proofs.Compose'],
}

# cross-cluster compositions (Proofs/Compose.lean): audited together with the property they complete
EXTRA_THEOREMS = {
    'C01': [('Xdoc.Compose.chunk_partition_agree', 'full'), ('Xdoc.Compose.parse_exec_lines_are_program', 'full'),
            ('Xdoc.Compose.parse_run_eq_program', 'full')],
    'C08': [('Xdoc.Compose.parse_tiled', 'full'), ('Xdoc.Compose.parse_then_lineno', 'full'),
            ('Xdoc.Compose.parse_then_file_line', 'full'), ('Xdoc.Compose.parse_part_line', 'full'),
            ('Xdoc.Compose.tiled_needs_facts_in_range', 'witness'), ('Xdoc.Compose.lineno_counts_splitlines_witness', 'witness')],
    'C18': [('Xdoc.Compose.parsed_parts_plain', 'full'), ('Xdoc.Compose.parsed_parts_clean', 'partial'),
            ('Xdoc.Compose.reparse_labels_of_parse', 'partial')],
}


def _replay_K_C08_c(ctx, finding):
    # a line-break character other than \n before the prompt: the parser counts splitlines() lines, the file counts \n
    from xdoctest import core
    exs = list(core.parse_docstr_examples("a\x0cb\n>>> f()", callname='t', style='freeform', lineno=10))
    return bool(exs) and exs[0].lineno == 12       # the prompt is on docstring line 2, i.e. file line 11


EXTRA_FINDING_REPLAYS = {'K-C08-c': _replay_K_C08_c}

EXTRA_TEXT = {
    'C01': (" ADDED (Proofs/Compose.lean, cross-cluster): `parse_exec_lines_are_program` (for every successfully parsed docstring the exec_lines of all parts, "
            "concatenated in order, are the de-prompted source lines of all chunks in order) and `parse_run_eq_program` (running the parts produced by the parser "
            "model, no skip and no failure, is the left fold of `sem` over them in source order, every part exactly once) — C13's tiling composed with C01's "
            "run-loop theorem; `chunk_partition_agree` shows the C01 and C13 forms of the chunk partition coincide."),
    'C08': (" ADDED (Proofs/Compose.lean, cross-cluster): the hypothesis `Tiled` is DISCHARGED — `parse_tiled`: for every docstring and every oracle answer with "
            "statement starts in range (`FactsOk`, necessary: `tiled_needs_facts_in_range`) the pieces of the parser model tile the docstring, hence "
            "`parse_then_lineno` / `parse_then_file_line` (the freeform line-number theorems with no tiling hypothesis) and `parse_part_line` (the line at a part's "
            "offset is that part's first line, no hypothesis at all). New finding K-C08-c from this composition: the parser counts `splitlines()` lines while the "
            "file counts newlines, so a form feed / vertical tab / \\x1c-\\x1e / \\x85 / U+2028/9 / bare \\r before a prompt shifts every reported line "
            "(`lineno_counts_splitlines_witness`, reproduced on the real code in every run)."),
    'C13': (" ADDED (Proofs/C13Labels.lean): the stretch theorem is proved for the full grammar, for every block list, by induction with an "
            "invariant on the labeller state: `labels_are_intended` — for every docstring rendered from labelled blocks (prose, blank lines, example "
            "blocks at any indentation whose statements are lists of lines in either prompt style with the oracle condition 'balanced as a whole, no strict "
            "prefix balanced', wants obeying the three explicit side conditions, a blank line between an example and following prose) the labeller returns "
            "exactly the intended label of every line. The statement as first written was FALSE (`labels_are_intended_statement_false`, kernel-checked; the "
            "real labeller agrees): inside a pending statement a continuation line WITHOUT the `...` prompt that follows one WITH it inherits the label dcnt; "
            "the repaired statement adds the side condition `ContOrdered` (no un-prompted continuation after a `...` one); `labels_are_actual(_general)` "
            "describe the real labels without that side condition, and the `_general` versions cover a larger grammar (statements opened with `... `, bare "
            "`>>>`, old-style four-blank continuation lines, example directly after example, blank lines inside prose)."),
    'C18': (" ADDED (Proofs/C18Labels.lean): `prepareLines_formatSrc` (for clean, tab-free parts whose first displayed line is a prompt the lines the second "
            "parse's labeller sees are exactly the orig and want lines of the parts) and `reparse_labels` (if those lines are a rendering of the C13 grammar, the "
            "second parse labels every line as intended — by `C13.labels_are_intended_general`); what is still missing for the full `ReparseSame` is that the "
            "lines of a parsed doctest are always in the grammar (not true as it stands because of the triple-quote hack) and the grouping/packaging of the "
            "second parse: observed with the real parser on every generated case. `Compose.parsed_parts_plain` / `reparse_labels_of_parse` turn the cleanliness "
            "hypotheses (no line break, no tab inside a line) into theorems about the FIRST parse."),
}

"""
Additions made by the main developer to properties whose props module is maintained by a cluster
builder: extra proof modules (obligations) and extra sentences for the MANIFEST claim. Kept apart so
that a new version of harness/props/Cxx.py can be dropped in without losing them.
"""
EXTRA_TARGETS = {
    'C13': ['XdocModel.Proofs.C13Labels'],
    'C18': ['XdocModel.Proofs.C18Labels'],
}

EXTRA_TEXT = {
    'C13': (" ADDED (Proofs/C13Labels.lean): the stretch theorem is proved for the full grammar, for every block list, by induction with an "
            "invariant on the labeller state: `labels_are_intended` — for every docstring rendered from labelled blocks (prose, blank lines, example "
            "blocks at any indentation whose statements are lists of lines in either prompt style with the oracle condition 'balanced as a whole, no strict "
            "prefix balanced', wants obeying the three explicit side conditions, a blank line between an example and following prose) the labeller returns "
            "exactly the intended label of every line. The statement as first written was FALSE (`labels_are_intended_statement_false`, kernel-checked; the "
            "real labeller agrees): inside a pending statement a continuation line WITHOUT the `...` prompt that follows one WITH it inherits the label dcnt; "
            "the repaired statement adds the side condition `ContOrdered` (no un-prompted continuation after a `...` one); `labels_are_actual(_general)` "
            "describe the real labels without that side condition, and the `_general` versions cover a larger grammar (statements opened with `... `, bare "
            "`>>>`, old-style four-blank continuation lines, example directly after example, blank lines inside prose)."),
    'C18': (" ADDED (Proofs/C18Labels.lean): `prepareLines_formatSrc` (for clean, tab-free parts whose first displayed line is a prompt the lines the second "
            "parse's labeller sees are exactly the orig and want lines of the parts) and `reparse_labels` (if those lines are a rendering of the C13 grammar, the "
            "second parse labels every line as intended — by `C13.labels_are_intended_general`); what is still missing for the full `ReparseSame` is that the "
            "lines of a parsed doctest are always in the grammar (not true as it stands because of the triple-quote hack) and the grouping/packaging of the "
            "second parse: observed with the real parser on every generated case."),
}

"""
Additions made by the main developer to properties whose props module is maintained by a cluster
builder: extra proof modules (obligations) and extra sentences for the MANIFEST claim. Kept apart so
that a new version of harness/props/Cxx.py can be dropped in without losing them.
"""
EXTRA_TARGETS = {
    'C01': ['XdocModel.Proofs.Compose'],
    'C07': ['XdocModel.Proofs.GoogleMargin', 'XdocModel.Proofs.PackageNodup', 'XdocModel.Proofs.PackageOnce'],
    'C04': ['XdocModel.Proofs.Compose2', 'XdocModel.Proofs.RequiresMulti'],
    'C08': ['XdocModel.Proofs.Compose', 'XdocModel.Proofs.Compose2'],
    'C10': ['XdocModel.Proofs.Compose2', 'XdocModel.Proofs.PackageNodup', 'XdocModel.Proofs.PackageOnce', 'XdocModel.Proofs.ExitStatus'],
    'C11': ['XdocModel.Proofs.Compose2'],
    'C13': ['XdocModel.Proofs.C13Labels'],
    'C14': ['XdocModel.Proofs.C14Total'],
    'C15': ['XdocModel.Proofs.Compose2'],
    'C18': ['XdocModel.Proofs.C18Labels', 'XdocModel.Proofs.Compose', 'XdocModel.Proofs.NDigits'],
    'C16': ['XdocModel.Proofs.Switch'],
    'C09': ['XdocModel.Proofs.NoSilentFailure'],
    'C03': ['XdocModel.Proofs.ExcCorollaries'],
    'C06': ['XdocModel.Proofs.EllipsisCorollaries'],
    'C19': ['XdocModel.Proofs.Compose2', 'XdocModel.Proofs.DumpKept'],
}

# cross-cluster compositions (Proofs/Compose.lean): audited together with the property they complete
EXTRA_THEOREMS = {
    'C01': [('Xdoc.Compose.chunk_partition_agree', 'full'), ('Xdoc.Compose.parse_exec_lines_are_program', 'full'),
            ('Xdoc.Compose.parse_run_eq_program', 'full')],
    'C08': [('Xdoc.Compose.parse_tiled', 'full'), ('Xdoc.Compose.parse_then_lineno', 'full'),
            ('Xdoc.Compose.parse_then_file_line', 'full'), ('Xdoc.Compose.parse_part_line', 'full'),
            ('Xdoc.Compose.tiled_needs_facts_in_range', 'witness'), ('Xdoc.Compose.lineno_counts_splitlines_witness', 'witness')],
    'C18': [('Xdoc.Compose.parsed_parts_plain', 'full'), ('Xdoc.Compose.parsed_parts_clean', 'partial'),
            ('Xdoc.Compose.reparse_labels_of_parse', 'partial')],
    'C04': [('Xdoc.Compose2.cli_defaults_are_leading_block', 'full'), ('Xdoc.Compose2.default_options_run_like_leading_block', 'full'),
            ('Xdoc.C04.effects_requires_total', 'full'), ('Xdoc.C04.requires_block_every_condition', 'full')],
    'C11': [('Xdoc.Compose2.defaults_are_leading_block', 'full'), ('Xdoc.Compose2.default_options_every_run', 'full'),
            ('Xdoc.Compose2.default_options_every_run_outcome', 'full'), ('Xdoc.Compose2.unknown_option_order', 'witness')],
    'C10': [('Xdoc.Compose2.entriesOf_returns', 'full'), ('Xdoc.Compose2.tally_adds_up_unconditional', 'full'),
            ('Xdoc.Compose2.doctestModule_never_aborts', 'full'), ('Xdoc.Compose2.all_runs_enabled_once_unconditional', 'full'),
            ('Xdoc.Compose2.exit_nonzero_iff_failed_unconditional', 'full'), ('Xdoc.Compose2.frames_needed', 'witness')],
    'C15': [('Xdoc.Compose2.both_exit_nonzero_iff_failed_of_frames', 'partial'), ('Xdoc.Compose2.exit_statuses_agree', 'partial')],
    'C19': [('Xdoc.Compose2.cleanExample_of_parse', 'full'), ('Xdoc.Compose2.dump_of_parsed_is_program', 'full'),
            ('Xdoc.Compose2.dump_of_parsed_is_program_exact', 'full'), ('Xdoc.Compose2.star_only_part_leaves_blank_line', 'witness')],
    'C14': [('Xdoc.C14.group_never_fails_after_label', 'full'), ('Xdoc.C14.parse_never_fails_in_group', 'full'),
            ('Xdoc.C14.package_error_classes', 'full'), ('Xdoc.C14.failures_partition', 'full'), ('Xdoc.C14.parse_failpoints', 'full'),
            ('Xdoc.C14.parse_impossible_failures', 'full'), ('Xdoc.C14.possibleFailures_all_occur', 'full'),
            ('Xdoc.C14.findStart_counter_irrelevant', 'full'), ('Xdoc.C14.findStart_some_spec', 'full'),
            ('Xdoc.C14.intervalStarts_decreasing', 'full'), ('Xdoc.C14.hackComments_fuel_free', 'full'),
            ('Xdoc.C14.lexGoF_eq', 'full'), ('Xdoc.C14.isBalanced_fuel_free', 'full'), ('Xdoc.C14.labelLines_length', 'full')],
}
EXTRA_THEOREMS['C02'] = [('Xdoc.C02.verdictOf_ok_iff', 'full'), ('Xdoc.C02.ignored_want_closes_window', 'full'), ('Xdoc.C02.want_ok_iff_old_code_fails', 'witness')]
EXTRA_THEOREMS['C07'] = [('Xdoc.Google.dedentLines_margin', 'full'), ('Xdoc.Google.prepLines_margin', 'full'),
                         ('Xdoc.Google.prepLines_margin_old_padding_fails', 'witness'), ('Xdoc.Google.prepLines_margin_tab_witness', 'witness'),
                         ('Xdoc.Static.packageModpaths_nodup', 'full'), ('Xdoc.Static.walkSubs_nodup', 'full'),
                         ('Xdoc.Static.visit_variant_yields_root_twice', 'witness'), ('Xdoc.C07.package_callnames_nodup', 'full')]
EXTRA_THEOREMS['C10'] += [('Xdoc.Static.packageModpaths_nodup', 'full'), ('Xdoc.Static.visit_variant_yields_root_twice', 'witness'),
                          ('Xdoc.C07.package_callnames_nodup', 'full')]
EXTRA_THEOREMS['C08'] += [('Xdoc.Compose2.parse_then_file_line_google', 'full'), ('Xdoc.Compose2.google_block_tiled', 'full'),
                          ('Xdoc.Compose2.parse_then_part_on_file_line', 'full'),
                          ('Xdoc.Compose2.google_lineno_counts_splitlines_witness', 'witness')]

EXTRA_THEOREMS['C10'] += [('Xdoc.C10.exitCode_le_one', 'full'), ('Xdoc.C10.osStatus_exitCode', 'full'), ('Xdoc.C10.osStatus_nonzero_iff', 'full'),
                          ('Xdoc.C10.rawExit_nonzero_iff', 'full'), ('Xdoc.C10.raw_count_wraps', 'witness')]

EXTRA_THEOREMS['C18'] += [('Xdoc.C18.nDigits_minimal', 'full'), ('Xdoc.C18.nDigits_eq_iff', 'full'), ('Xdoc.C18.nDigits_pow', 'full'),
                          ('Xdoc.C18.nDigits_pow_succ', 'full')]

EXTRA_THEOREMS['C16'] = [('Xdoc.Switch.mode_never_changes_tests', 'full'), ('Xdoc.Switch.auto_is_static_for_py', 'full'),
                         ('Xdoc.Switch.static_ignores_import', 'full'), ('Xdoc.Switch.need_dynamic_never_static', 'full'),
                         ('Xdoc.Switch.unknown_mode_raises', 'full'), ('Xdoc.Switch.import_failure_separates_modes', 'witness')]

EXTRA_THEOREMS['C06'] = [('Xdoc.C06.bare_ellipsis_matches_everything', 'full'), ('Xdoc.C06.padded_ellipsis_matches_everything', 'full'),
                         ('Xdoc.C06.two_pieces_iff', 'full'), ('Xdoc.C06.two_pieces_length', 'full')]

EXTRA_THEOREMS['C03'] = [('Xdoc.C03.non_traceback_want_never_expected', 'full'), ('Xdoc.C03.detail_off_exact', 'full'),
                         ('Xdoc.C03.full_match_expected', 'full'), ('Xdoc.C03.empty_name_needs_full_match', 'full')]

EXTRA_THEOREMS['C09'] = [('Xdoc.C09.passed_no_failure', 'full'), ('Xdoc.C09.skipped_no_failure', 'full'),
                         ('Xdoc.C09.failure_reported_only_as_failed', 'full'), ('Xdoc.C09.no_parts_no_failure', 'full')]


def _replay_K_C08_c(ctx, finding):
    # a line-break character other than \n before the prompt: the parser counts splitlines() lines, the file counts \n
    from xdoctest import core
    exs = list(core.parse_docstr_examples("a\x0cb\n>>> f()", callname='t', style='freeform', lineno=10))
    return bool(exs) and exs[0].lineno == 12       # the prompt is on docstring line 2, i.e. file line 11


def _replay_K_C08_d(ctx, finding):
    import os, shutil, tempfile
    from xdoctest import core
    d = tempfile.mkdtemp(prefix='xdocverif-')
    try:
        p = os.path.join(d, 'xdv_dynline_%d.py' % os.getpid())
        with open(p, 'w') as f:
            f.write('import os\n\n\ndef f():\n    """\n    text\n\n    Example:\n        >>> print(1)\n        1\n    """\n    return 1\n')
        st = [e.lineno for e in core.parse_doctestables(p, analysis='static')]
        dy = [e.lineno for e in core.parse_doctestables(p, analysis='dynamic')]
        return st == [9] and dy == [5]
    finally:
        shutil.rmtree(d, ignore_errors=True)


EXTRA_FINDING_REPLAYS = {'K-C08-c': _replay_K_C08_c, 'K-C08-d': _replay_K_C08_d}

EXTRA_TEXT = {
    'C02': (" CHANGED in the third session: `want_ok_iff` is now proved WITHOUT the hypothesis 'the value's repr does not raise'. The hypothesis had been forced by the proof; the "
            "excluded point was a false fail of the real code (a want equal to earlier output + this part's output failed when the final expression also returned a value whose repr "
            "raises: `DoctestPart.check` let the repr error leave its candidate loop). Repaired in /repo by ab6e73c, the model follows (`checkTrailing`), the old search is kept as "
            "`checkTrailingOld` with the kernel-evaluated witness `want_ok_iff_old_code_fails`."),
    'C07': (" ADDED (Proofs/GoogleMargin.lean, after repair 6117f16): `dedentLines_margin` (textwrap.dedent removes exactly the common margin: the margin it computes is the greatest "
            "common prefix of the leading blank/tab strings) and `prepLines_margin` — for a docstring that starts on the line of its quotes and whose other lines carry ANY margin of blanks "
            "and tabs, the lines the Google block splitter works on are the first line plus the other lines without the margin; with the padding the code used before the repair the "
            "statement is false for a tab margin (`prepLines_margin_old_padding_fails`, kernel-evaluated; the defect was found by the tab-indented variant of the module generator). "
            "ADDED (Proofs/PackageNodup.lean): `packageModpaths_nodup` — `package_modpaths` lists every path of a package tree at most ONCE, for every tree whose listings do not repeat a "
            "name, every depth and option setting (the membership theorems say which paths; this one says once); the walk of round-4 seed C10-4B is evaluated in the kernel as a violation; `package_callnames_nodup` (Proofs/PackageOnce.lean) composes it with `identifiers_nodup`: a "
            "(module path, callname) pair is collected once over the whole package, for every tree and every module contents."),
    'C04': (" ADDED (Proofs/RequiresMulti.lean): `requires_block_every_condition` — after a block `+REQUIRES(c1, …, cn)` the pending set is the old one plus EVERY unmet ci, after "
            "`-REQUIRES(…)` the old one minus every unmet ci, for every list of conditions (round-5 seed C04-5A kept only the last one). "
            "ADDED (Proofs/Compose2.lean, with C11): `default_options_run_like_leading_block` — a run with default options equals, part for part (indices shifted "
            "by one), the run of the same doctest with those options written as a leading block directive."),
    'C10': (" ADDED (Proofs/PackageNodup.lean): `packageModpaths_nodup` — for a PACKAGE target the module list the runner iterates over has no duplicate, for every directory tree "
            "(so no doctest of a package is collected, listed or run twice through the walk; observed end to end by the package-level suite). "
            "ADDED (Proofs/Compose2.lean, C10∘C09∘C02): the hypotheses 'every run returns' are DISCHARGED from C09's `return_mode_never_raises`: "
            "`tally_adds_up_unconditional`, `all_runs_enabled_once_unconditional`, `exit_nonzero_iff_failed_unconditional`, `doctestModule_never_aborts` hold for every "
            "execution oracle that satisfies C09's doctest-frame hypothesis (`frames_needed` shows it cannot be dropped). BaseExceptions are a limit of the model (no "
            "ExecResult constructor), see K-C10-a/b. "
            "ADDED (Proofs/ExitStatus.lean, fourth session): the status as the PARENT process reads it (low eight bits of what `sys.exit` is given) — "
            "`exitCode_le_one`, `osStatus_exitCode`, `osStatus_nonzero_iff` (for every command result `$? != 0` iff the run aborted or counted a failure), so every "
            "`exit ... != 0` theorem above is a statement about `$?`; `rawExit_nonzero_iff` + witness `raw_count_wraps` (handing the failure count itself to "
            "`sys.exit` agrees before truncation and reads 256 failures as success after it: seeded change C10-6A)."),
    'C11': (" ADDED (Proofs/Compose2.lean, C11∘C04): `default_options_every_run(_outcome)` — default options behave like a leading block directive in EVERY doctest of a "
            "session, whatever ran before (any two histories), for options known to the template (`unknown_option_order` shows why that is needed)."),
    'C14': (" ADDED (Proofs/C14Total.lean): `group_never_fails_after_label` (the `assert prev_source is not None, 'impossible'` of `_group_labeled_lines` really is impossible "
            "for labeller output, hence `parse_never_fails_in_group`), the COMPLETE classification `parse_failpoints` / `parse_impossible_failures` (parse is ok or fails with one "
            "of eight (phase, error) pairs; the other ten are impossible) with a kernel-checked witness docstring for each possible pair (`possibleFailures_all_occur`, each also run "
            "through the real parser), and fuel-freeness of every loop (`findStart_some_spec`, `intervalStarts_decreasing`, `hackComments_fuel_free`, `isBalanced_fuel_free`)."),
    'C15': (" ADDED (Proofs/Compose2.lean): `both_exit_nonzero_iff_failed_of_frames`, `exit_statuses_agree` with the escape hypothesis replaced by C09's frame hypothesis."),
    'C03': (" ADDED (Proofs/ExcCorollaries.lean, fourth session): what IGNORE_EXCEPTION_DETAIL can and cannot do, for all exception lines and wants — "
            "`non_traceback_want_never_expected`, `detail_off_exact`, `full_match_expected`, `empty_name_needs_full_match` (corollaries of `expected_exception_iff`)."),
    'C09': (" ADDED (Proofs/NoSilentFailure.lean, fourth session): the property read from the summary, for all part lists, oracles and configurations — "
            "`passed_no_failure`, `skipped_no_failure` (a doctest reported as passed or skipped has no recorded failure), `failure_reported_only_as_failed`, `no_parts_no_failure`."),
    'C06': (" ADDED (Proofs/EllipsisCorollaries.lean, fourth session): direct consequences of `ellipsis_iff_spec` for ALL outputs — `bare_ellipsis_matches_everything`, "
            "`padded_ellipsis_matches_everything` (a want that is only `...`, with or without surrounding white space, accepts every output, the empty one included), "
            "`two_pieces_iff` (a want that splits into two pieces matches iff the output starts with the first and ends with the last without overlap), `two_pieces_length`."),
    'C16': (" ADDED (Proofs/Switch.lean, fourth session): the analysis switch `core.parse_calldefs` is now inside the model (`Switch.parseCalldefs`: static / dynamic / auto / "
            "unknown value, need_dynamic, import failure kinds) — `mode_never_changes_tests` (for a `.py` module of the fragment whose import succeeds the three accepted modes "
            "return the same identifiers with the same docstrings in the same order), `auto_is_static_for_py`, `static_ignores_import`, `need_dynamic_never_static`, "
            "`unknown_mode_raises`, witness `import_failure_separates_modes`; the correspondence now also collects every generated package with the default `analysis='auto'` "
            "and requires the result of `static`. Not modelled: the deprecated sys.argv overrides (`--allow-xdoc-dynamic`, `--xdoc-force-dynamic`)."),
    'C19': (" ADDED (Proofs/Compose2.lean, C19∘C13∘C01): `dump_of_parsed_is_program(_exact)` — for an example whose parts come from the parser model, the body of its dumped "
            "test function minus header, want comments and the four-blank indent is exactly the de-prompted source of the docstring in order minus star imports; "
            "`cleanExample_of_parse` discharges C19's cleanliness hypothesis from the C13 tiling; `star_only_part_leaves_blank_line` is the one residue hypothesis that is needed. "
            "ADDED (Proofs/DumpKept.lean, fourth session): the star-import filter statement by statement, for ALL parts without any cleanliness hypothesis — "
            "`mem_kept_iff` (a line is dumped iff it is an exec line without ' import *'), `count_kept` / `count_kept_star` (a kept line occurs in the dump exactly as "
            "often as in the source, a star import never), `kept_sublist` (source order), `kept_eq_of_no_star`, `kept_length`, `removeStar_append` / "
            "`removeStar_cons_star` / `removeStar_idem` (the filter is line-local: consecutive star imports all go, cf. seeded change C19-5A)."),
    'C01': (" ADDED (Proofs/Compose.lean, cross-cluster): `parse_exec_lines_are_program` (for every successfully parsed docstring the exec_lines of all parts, "
            "concatenated in order, are the de-prompted source lines of all chunks in order) and `parse_run_eq_program` (running the parts produced by the parser "
            "model, no skip and no failure, is the left fold of `sem` over them in source order, every part exactly once) — C13's tiling composed with C01's "
            "run-loop theorem; `chunk_partition_agree` shows the C01 and C13 forms of the chunk partition coincide."),
    'C08': (" ADDED (Proofs/Compose.lean, cross-cluster): the hypothesis `Tiled` is DISCHARGED — `parse_tiled`: for every docstring and every oracle answer with "
            "statement starts in range (`FactsOk`, necessary: `tiled_needs_facts_in_range`) the pieces of the parser model tile the docstring, hence "
            "`parse_then_lineno` / `parse_then_file_line` (the freeform line-number theorems with no tiling hypothesis) and `parse_part_line` (the line at a part's "
            "offset is that part's first line, no hypothesis at all). New finding K-C08-c from this composition: the parser counts `splitlines()` lines while the "
            "file counts newlines, so a form feed / vertical tab / \\x1c-\\x1e / \\x85 / U+2028/9 / bare \\r before a prompt shifts every reported line "
            "(`lineno_counts_splitlines_witness`, reproduced on the real code in every run). Compose2 adds the google variant `parse_then_file_line_google` (per-block parse "
            "+ block offset, for docstrings without tabs and exotic line breaks: `PlainText`, shown necessary) and `parse_then_part_on_file_line`."),
    'C13': (" ADDED (Proofs/C13Labels.lean): the stretch theorem is proved for the full grammar, for every block list, by induction with an "
            "invariant on the labeller state: `labels_are_intended` — for every docstring rendered from labelled blocks (prose, blank lines, example "
            "blocks at any indentation whose statements are lists of lines in either prompt style with the oracle condition 'balanced as a whole, no strict "
            "prefix balanced', wants obeying the three explicit side conditions, a blank line between an example and following prose) the labeller returns "
            "exactly the intended label of every line. The statement as first written was FALSE (`labels_are_intended_statement_false`, kernel-checked; the "
            "real labeller agrees): inside a pending statement a continuation line WITHOUT the `...` prompt that follows one WITH it inherits the label dcnt; "
            "the repaired statement adds the side condition `ContOrdered` (no un-prompted continuation after a `...` one); `labels_are_actual(_general)` "
            "describe the real labels without that side condition, and the `_general` versions cover a larger grammar (statements opened with `... `, bare "
            "`>>>`, old-style four-blank continuation lines, example directly after example, blank lines inside prose)."),
    'C18': (" ADDED (Proofs/C18Labels.lean): `prepareLines_formatSrc` (for clean, tab-free parts whose first displayed line is a prompt the lines the second "
            "parse's labeller sees are exactly the orig and want lines of the parts) and `reparse_labels` (if those lines are a rendering of the C13 grammar, the "
            "second parse labels every line as intended — by `C13.labels_are_intended_general`); what is still missing for the full `ReparseSame` is that the "
            "lines of a parsed doctest are always in the grammar (not true as it stands because of the triple-quote hack) and the grouping/packaging of the "
            "second parse: observed with the real parser on every generated case. `Compose.parsed_parts_plain` / `reparse_labels_of_parse` turn the cleanliness "
            "hypotheses (no line break, no tab inside a line) into theorems about the FIRST parse. "
            "ADDED (Proofs/NDigits.lean, fourth session): the width of the number column is EXACTLY the integer meaning of `int(math.ceil(math.log(max(1, endline), 10)))` — "
            "`nDigits_minimal`, `nDigits_eq_iff` (the least d with max 1 n <= 10^d, for every n), closed forms `nDigits_pow` / `nDigits_pow_succ` at the powers of ten "
            "(where the float computation is compared by the correspondence)."),
}

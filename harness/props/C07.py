"""C07 — Collection is exact: every documented callable yields its doctests once."""
import os
import random

from . import _collect_common as cc
from .. import driver, par
from ..codec import enc, dec, enc_list
from ..corr import collect as C
from ..gen import modules as gm

LEAN_TARGETS = ['XdocModel.Proofs.C07', 'XdocModel.Pins.Collect']
MANIFEST = {
    'text': ("Full (after repairs 09d4434, 29b8101, d1ce38f). Proved for ALL mini-ASTs, docstrings, parser outputs and directory trees of the model: "
             "`collect_eq_fold` (the visitor is the ordered-map fold of the declarative inventory, for every tree, also with repeated names), "
             "`collect_eq_inventory` (with pairwise distinct callnames the collected map IS the inventory of the property sentence: module "
             "docstring, every (async) function, class and method/static/class/property getter, decorated or not, reached through any nesting "
             "of non-definition compound statements, each once, in order, as func / Class / Class.method), `nothing_else` (+ four local forms: "
             "function bodies, classes nested in classes, setters/deleters, the block under a main guard in either spelling never matter; its else branch is collected), `identifiers_nodup`, "
             "`package_walk_spec` / `package_walk_inits` (a path is yielded iff it is a file with a valid extension, not __init__.py, and every "
             "directory from the package root down to it has an __init__.py entry), `google_offsets` (blocks tile the docstring lines, offsets "
             "strictly increase), `example_block_starts_at_tag`, `one_example_per_block_in_order`, `auto_is_google_or_freeform`, "
             "`freeform_at_most_one`, `example_nums_nodup`. Tie to the code: model vs parse_static_calldefs / split_google_docblocks / "
             "parse_docstr_examples / package_modpaths / parse_doctestables(analysis='static') on generated modules, fuzzed docstrings and "
             "scratch package trees, three-way with the inventory known by construction."),
    'note': ("Trusted: Lean kernel; CPython's ast.parse (the mini-AST is built by the harness with CPython's own ast), os.walk/os.path "
             "(directory listings are inputs of the model), the doctest parser (its output is an input of the freeform model; C13/C14), "
             "the correspondence harness. Tag lists, example tags and skip tags are regenerated from the sources on every run and USED by "
             "the model; pattern texts are pinned."),
    'technique': 'Lean 4 proof (structural induction over the statement tree / directory tree / line groups) + differential correspondence',
}
RULE = ('generated importable modules, written to disk as BYTES (plain / UTF-8 BOM / \\r\\n / BOM+\\r\\n / \\r line ends / latin-1 or utf-8 coding cookie, non-ASCII comments): random nesting of def / async def / class / decorators (functools.wraps, factories; defined in the module or IMPORTED from a helper module: wraps-style, identity, class decorators) / properties with '
        'setter and deleter / staticmethod / classmethod / if / if-else / try / try-finally / with / for / while / main guard (both spellings, with and without else-branch definitions, anywhere at module level) / nested defs '
        'and classes / redefinitions / unexecuted branches; docstrings google, freeform, plain, one-line; raw / u / triple-single / '
        'triple-double quotes; opened on their own line or sharing it; 0..3 example blocks. model vs implementation on calldefs, on '
        'examples per (docstring, style), end to end on files; implementation vs inventory by construction. google splitter: fuzzed '
        'docstrings over a pool of tag-like / indented / blank lines. package walk: scratch trees with and without __init__.py x 16 flag '
        'settings. non-trivial: a module with >= 1 hidden definition or >= 1 example block; distinct = distinct source text')
ASSUMPTIONS = [
    'ast.parse / ast.get_docstring / end_lineno of CPython are correct (the mini-AST is an input of the model)',
    'the doctest parser output handed to the freeform model is the real parser\'s (properties C13/C14)',
    'str.lower is modelled for A-Z and U+212A only (the only characters whose lower() is ASCII)',
]

GOOGLE_POOL = ['Args:', 'Example:', 'Examples:', 'Example::', 'Example :', 'Doctest:', 'Doctest ::  ', 'example:', 'Example: x', 'Returns',
               'Returns:', 'See Also:', 'Other Parameters:', ' Args:', '    Example:', 'Script:', 'Benchmark:', 'Todo:', 'Note:',
               'plain text', 'more text here', '', '', '   ', '\t', '    indented', '        deeper', '  two', '\tx', '>>> a = 1', '    >>> b',
               '    2', 'x:', 'Example:Example:', 'Yields::', 'Raises :', 'Args :: ', ':', 'Example', '    ', 'Keyword Args:', 'Kwargs:',
               'Warnings:', 'Attributes:', 'Methods:', 'References:', 'Notes:', 'Yield:', 'Return:', 'Arguments:', 'Parameters:', 'Warns:',
               'Warning:', 'Keyword Arguments:', 'Example:\r', 'Examplé:', 'Example :']


def gen_google_docstr(rng):
    n = rng.randint(0, 9)
    lines = [rng.choice(GOOGLE_POOL) for _ in range(n)]
    if rng.random() < 0.5:
        ind = rng.choice(['    ', '  ', '        '])
        lines = [lines[0] if lines else ''] + [(ind + l if l.strip() else l) for l in lines[1:]]
    return '\n'.join(lines)


# ---------------------------------------------------------------------------- workers

def _new_result():
    return {'counts': {}, 'tags': {}, 'nontriv': set(), 'disagree': [], 'expect': [], 'samples': [], 'unknown': 0}


def _cnt(res, k, n=1):
    res['counts'][k] = res['counts'].get(k, 0) + n


def _tag(res, k, n=1):
    res['tags'][k] = res['tags'].get(k, 0) + n


def check_module(m, res, d, seed_label):
    """all C07 comparisons for one generated module (d: scratch directory)"""
    src = m.source
    # A. calldefs: model vs implementation vs inventory
    model = cc.model_calldefs([src])[0]
    impl, cds = C.real_calldefs(src)
    _cnt(res, 'calldefs')
    for f in sorted(m.features):
        _tag(res, f)
    if m.hidden or any(di.blocks for di in m.docs.values()):
        res['nontriv'].add(hash(src))
    if model != impl:
        res['disagree'].append(('calldefs', {'kind': 'module-inventory', 'source': src}, model[:400], impl[:400]))
    inv_exp = [[k, h] for k, h in m.inventory]
    inv_obs = cc.observe_inventory(src)
    if inv_obs != inv_exp:
        res['expect'].append(('inventory', {'kind': 'module-inventory', 'source': src, 'label': seed_label}, inv_exp, inv_obs,
                              'collected callnames differ from the inventory known by construction'))
    if cds is None:
        return
    # B. examples per docstring and style: model vs implementation
    cases = []
    for k, c in cds.items():
        if c.docstr is not None:
            for style in cc.STYLES:
                cases.append((style, c.docstr, k, c.doclineno))
    ans = C.model_examples_lines(cases, lambda ls: driver.run_lines(ls, jobs=1))
    for (style, doc, k, ln), a in zip(cases, ans):
        r, _ = C.real_examples(style, doc, k, ln)
        _cnt(res, 'examples:' + style)
        if r != a:
            res['disagree'].append(('examples', {'kind': 'docstring', 'style': style, 'docstr': doc, 'callname': k, 'lineno': ln},
                                    a[:400], r[:400]))
    # E. end to end on a file
    path, modname = cc.write_module(d, src)
    for style in cc.STYLES:
        obs, _ = cc.observe_static(path, style)
        _cnt(res, 'doctestables:' + style)
        mod, _ = cc.model_doctestables([src], style)
        mo = [[x[0], x[1], x[2], x[3]] for x in (mod[0] or [])]
        io_ = [[o[0], o[1], o[2], o[4]] for o in obs]
        if mo != io_:
            res['disagree'].append(('doctestables', {'kind': 'module-examples', 'source': src, 'style': style},
                                    repr(mo)[:400], repr(io_)[:400]))
        ids_exp = [[a, b] for a, b, _ in cc.expected_ids(m, style)]
        ids_obs = [[o[0], o[1]] for o in obs]
        if ids_exp != ids_obs:
            res['expect'].append(('doctestables', {'kind': 'module-examples', 'source': src, 'style': style, 'label': seed_label},
                                  ids_exp, ids_obs, 'identifiers callname:num differ from the expectation by construction'))
        # the index counts the blocks of a docstring IN ORDER: the doctest callname:k+1 starts further down than callname:k, and the
        # text of callname:k is the k-th block (the first source line of each, in document order, is known by construction)
        if ids_exp == ids_obs:
            first = {}
            for (cn, num, fp, bf, dd, bb) in gm.expected_examples(m, style):
                if bb is not None and bb.stmts and not bb.prose_first:
                    first[(cn, num)] = m.lines[bb.stmts[0].first_line - 1].strip()
            for o in obs:
                want_line = first.get((o[0], o[1]))
                got_line = (o[4] or '').lstrip('\n').split('\n')[0].strip() if o[4] else None
                if want_line is not None and got_line is not None and want_line != got_line:
                    res['expect'].append(('doctestables', {'kind': 'module-examples', 'source': src, 'style': style, 'label': seed_label},
                                          {'%s:%d starts with' % (o[0], o[1]): want_line}, got_line,
                                          'the doctest with index k is not the k-th Example block of its docstring'))
                    break
        uniq = ['%s:%d' % (o[0], o[1]) for o in obs]
        if len(set(uniq)) != len(uniq):
            res['expect'].append(('doctestables', {'kind': 'module-examples', 'source': src, 'style': style, 'label': seed_label},
                                  'unique identifiers', uniq, 'identifiers are not unique within the module'))
    # F. identifiers under every analysis mode: callname:num of the inventory, unique
    from xdoctest import core
    for analysis in ('auto', 'dynamic'):
        try:
            with cc.quiet():
                exs = list(core.parse_doctestables(path, style='auto', analysis=analysis))
        except Exception as ex:
            res['unknown'] += 1
            _tag(res, 'analysis-%s-raised:%s' % (analysis, type(ex).__name__))
            continue
        finally:
            cc.forget_module(modname)
        _cnt(res, 'identifiers:' + analysis)
        ids = ['%s:%d' % (e.callname, e.num) for e in exs]
        uniq = [e.unique_callname for e in exs]
        exp = ['%s:%d' % (a, b) for a, b, _ in cc.expected_ids(m, 'auto')]
        inp = {'kind': 'module-identifiers', 'source': src, 'analysis': analysis, 'label': seed_label}
        if ids != uniq or len(set(uniq)) != len(uniq):
            res['expect'].append(('identifiers', inp, 'unique callname:num', uniq, 'identifiers are not unique / not callname:num'))
        elif (analysis == 'auto' or m.fragment) and sorted(ids) != sorted(exp):
            res['expect'].append(('identifiers', inp, sorted(exp), sorted(ids),
                                  'identifiers under analysis=%r differ from the inventory by construction' % analysis))
    if len(res['samples']) < 2:
        res['samples'].append({'op': 'calldefs', 'inventory': inv_exp[:8], 'features': sorted(m.features)[:10]})


def _w_modules(args):
    seed, shard, count = args
    res = _new_result()
    rng = random.Random('c07m:%d:%d' % (seed, shard))
    with cc.scratch_dir() as d:
        for i in range(count):
            m = gm.gen_module(rng)
            check_module(m, res, d, 'c07m:%d:%d:%d' % (seed, shard, i))
    res['nontriv'] = len(res['nontriv'])
    return res


def _w_google(args):
    seed, shard, count = args
    res = _new_result()
    rng = random.Random('c07g:%d:%d' % (seed, shard))
    docs = [gen_google_docstr(rng) for _ in range(count)]
    docs = [d for d in docs if all(not (0xD800 <= ord(ch) <= 0xDFFF) for ch in d)]
    ans = driver.run_lines(['google_split\t' + enc(d) for d in docs], jobs=1)
    seen = set()
    for d, a in zip(docs, ans):
        r = C.real_google_split(d)
        _cnt(res, 'google_split')
        if a.count('|') >= 1:
            seen.add(hash(d))
        _tag(res, 'google:blocks=%d' % min(4, (a.count('|') + 1) if a else 0))
        if r != a:
            res['disagree'].append(('google_split', {'kind': 'docstring', 'docstr': d, 'style': 'google', 'callname': 'f', 'lineno': 1},
                                    a[:300], r[:300]))
    # the same texts through the three styles
    cases = [(style, d, 'f', 10) for d in docs[:count // 3] for style in cc.STYLES]
    ans = C.model_examples_lines(cases, lambda ls: driver.run_lines(ls, jobs=1))
    for (style, d, k, ln), a in zip(cases, ans):
        r, _ = C.real_examples(style, d, k, ln)
        _cnt(res, 'examples:fuzz')
        if r != a:
            res['disagree'].append(('examples', {'kind': 'docstring', 'style': style, 'docstr': d, 'callname': k, 'lineno': ln},
                                    a[:300], r[:300]))
    res['nontriv'] = len(seen)
    return res


# ---------------------------------------------------------------------------- package trees

def build_tree(root, plan):
    os.makedirs(root, exist_ok=True)
    for name, v in plan.items():
        p = os.path.join(root, name)
        if v is None:
            with open(p, 'w') as f:
                f.write('')
        elif isinstance(v, (tuple, list)):
            os.symlink(v[1], p)            # ('link', sibling directory)
        else:
            build_tree(p, v)


def observe_package(root, with_pkg, with_mod, recursive, check, with_libs=False):
    from xdoctest import static_analysis
    paths = list(static_analysis.package_modpaths(root, with_pkg=with_pkg, with_mod=with_mod, recursive=recursive,
                                                  check=check, with_libs=with_libs))
    return [os.path.relpath(p, root).split(os.sep) if p != root else [] for p in paths]


def check_package(plan, res, d, label):
    root = os.path.join(d, 'pkgroot_%d' % len(os.listdir(d)))
    build_tree(root, plan)
    fs = C.fs_field(root)
    exts = enc_list(['.py'])
    lines = []
    flagsets = []
    for n in range(16):
        wp, wm, rec, chk = bool(n & 8), bool(n & 4), bool(n & 2), bool(n & 1)
        flagsets.append((wp, wm, rec, chk))
        lines.append('package\t%s\t%s\t0\t%s' % (''.join('1' if b else '0' for b in (wp, wm, rec, chk)), exts, fs))
    ans = driver.run_lines(lines, jobs=1)
    for (wp, wm, rec, chk), a in zip(flagsets, ans):
        obs = observe_package(root, wp, wm, rec, chk)
        mod = [[dec(c) for c in (p.split(';') if p != '~' else [])] for p in a.split('|')] if a else []
        _cnt(res, 'package')
        if mod != obs:
            res['disagree'].append(('package', {'kind': 'package', 'plan': plan, 'flags': [wp, wm, rec, chk]}, repr(mod)[:300], repr(obs)[:300]))
    # the property, default flags: passed explicitly, and left to the defaults of the signature
    exp = [list(p) for p in gm.expected_package_files(plan)]
    obs = sorted(observe_package(root, False, True, True, True))
    if obs != exp:
        res['expect'].append(('package', {'kind': 'package', 'plan': plan, 'flags': [False, True, True, True], 'label': label}, exp, obs,
                              'files yielded differ from: .py files all of whose directories down from the root have __init__.py'))
    from xdoctest import static_analysis
    obs = sorted(os.path.relpath(p, root).split(os.sep) for p in static_analysis.package_modpaths(root))
    _cnt(res, 'package:defaults')
    if obs != exp:
        res['expect'].append(('package', {'kind': 'package', 'plan': plan, 'flags': 'defaults', 'label': label}, exp, obs,
                              'package_modpaths(root) with default arguments: files yielded differ from the modules of the package'))
    # with_libs: compiled extension modules count as modules too
    libexts = ['.py'] + [e for e in static_analysis._platform_pylib_exts()]
    a = driver.run_lines(['package\t0111\t%s\t0\t%s' % (enc_list(libexts), fs)], jobs=1)[0]
    mod = [[dec(c) for c in (p.split(';') if p != '~' else [])] for p in a.split('|')] if a else []
    obs = observe_package(root, False, True, True, True, with_libs=True)
    _cnt(res, 'package:with_libs')
    if mod != obs:
        res['disagree'].append(('package', {'kind': 'package', 'plan': plan, 'flags': 'with_libs'}, repr(mod)[:300], repr(obs)[:300]))
    exp_l = [list(p) for p in gm.expected_package_files(plan, exts=tuple(set(os.path.splitext('x' + e)[1] for e in libexts)))]
    if sorted(obs) != exp_l:
        res['expect'].append(('package', {'kind': 'package', 'plan': plan, 'flags': 'with_libs', 'label': label}, exp_l, sorted(obs),
                              'with_libs=True: files yielded differ from the .py and extension-module files of the package'))
    if any(isinstance(v, dict) and '__init__.py' not in v for v in plan.values()) or '__init__.py' not in plan:
        res['nontriv'].add(hash(repr(plan)))


def _w_package(args):
    seed, shard, count = args
    res = _new_result()
    rng = random.Random('c07p:%d:%d' % (seed, shard))
    with cc.scratch_dir() as d:
        for i in range(count):
            plan = gm.gen_package_plan(rng)
            check_package(plan, res, d, 'c07p:%d:%d:%d' % (seed, shard, i))
        # a single file given as the package, and splitext corner cases
        p = os.path.join(d, 'single.txt')
        open(p, 'w').close()
        obs = observe_package(p, True, True, True, True)
        a = driver.run_lines(['package\t1111\t%s\t1\t~' % enc_list(['.py'])], jobs=1)[0]
        _cnt(res, 'package:file')
        if obs != [[]] or a != '~':
            res['disagree'].append(('package', {'kind': 'package-file'}, a, repr(obs)))
        names = ['a.py', '.py', '..py', 'a..py', 'a.b.py', 'a', 'a.', '.a.py', '...', 'py', 'a.PY', 'a.pyc']
        ans = driver.run_lines(['splitext\t' + enc(n) for n in names], jobs=1)
        for n, a in zip(names, ans):
            _cnt(res, 'splitext')
            if dec(a) != os.path.splitext(n)[1]:
                res['disagree'].append(('splitext', {'kind': 'name', 'name': n}, dec(a), os.path.splitext(n)[1]))
    res['nontriv'] = len(res['nontriv'])
    return res


def _w_package_e2e(args):
    """parse_doctestables on a package directory: only modules of the package, every module once"""
    seed, shard, count = args
    res = _new_result()
    rng = random.Random('c07e:%d:%d' % (seed, shard))
    for i in range(count):
        with cc.scratch_dir() as d:
            pkg = os.path.join(d, cc.unique_modname('xdvpkg'))
            layout = {'__init__.py': True, 'a.py': True, 'sub/__init__.py': True, 'sub/b.py': True,
                      'nopkg/c.py': False, 'sub/deep/d.py': False, 'sub/deeper/__init__.py': True, 'sub/deeper/e.py': True,
                      'notes.txt': None}
            expected = []
            for rel, inpkg in sorted(layout.items()):
                path = os.path.join(pkg, rel)
                os.makedirs(os.path.dirname(path), exist_ok=True)
                if inpkg is None:
                    open(path, 'w').write('>>> print(1)\n')
                    continue
                m = gm.gen_module(rng, gm.Opts(max_top=2))
                with open(path, 'wb') as f:
                    f.write(C.to_bytes(m.source))
                if inpkg:
                    for cn, num, _fp in cc.expected_ids(m, 'auto'):
                        expected.append([rel, cn, num])
            from xdoctest import core
            with cc.quiet():
                exs = list(core.parse_doctestables(pkg, style='auto', analysis='static'))
            obs = sorted([os.path.relpath(e.modpath, pkg), e.callname, e.num] for e in exs)
            _cnt(res, 'doctestables:package')
            res['nontriv'].add((seed, shard, i))
            if obs != sorted(expected):
                res['expect'].append(('doctestables:package', {'kind': 'package-e2e', 'label': 'c07e:%d:%d:%d' % (seed, shard, i)},
                                      sorted(expected)[:30], obs[:30],
                                      'doctests collected from a package tree differ from those of its modules (dirs without __init__.py excluded)'))
    res['nontriv'] = len(res['nontriv'])
    return res


# ---------------------------------------------------------------------------- protocol

def merge(corr, results):
    for r in results:
        for k, v in r['counts'].items():
            corr.count(k, v)
        for k, v in r['tags'].items():
            corr.tag(k, v)
        corr.nontrivial_extra += r['nontriv'] if isinstance(r['nontriv'], int) else len(r['nontriv'])
        for (suite, inp, m, i) in r['disagree']:
            corr.disagree(suite, inp, m, i)
        for (suite, inp, e, o, why) in r['expect']:
            corr.expect_fail(suite, inp, e, o, why)
        for s in r['samples']:
            corr.sample(s)
        corr.unknown += r['unknown']


def correspondence(ctx, corr):
    q = ctx.quick
    merge(corr, par.pmap(_w_modules, [(ctx.seed, s, 14 if q else 120) for s in range(16)]))
    merge(corr, par.pmap(_w_google, [(ctx.seed, s, 1000 if q else 12000) for s in range(16)]))
    merge(corr, par.pmap(_w_package, [(ctx.seed, s, 10 if q else 100) for s in range(16)]))
    merge(corr, par.pmap(_w_package_e2e, [(ctx.seed, s, 1 if q else 6) for s in range(8 if q else 16)]))
    regression_cases(corr)
    latin1_regression(corr)
    # tag lines one by one
    lines = GOOGLE_POOL
    import re
    from xdoctest.docstr import docscrape_google  # noqa
    ans = driver.run_lines(['is_tag_line\t' + enc(l) for l in lines])
    tags = ['Args', 'Arguments', 'Parameters', 'Other Parameters', 'Kwargs', 'Keyword Args', 'Keyword Arguments', 'Warns', 'Warning',
            'Warnings', 'Returns', 'Return', 'Example', 'Examples', 'Doctest', 'Note', 'Notes', 'Yields', 'Yield', 'Attributes', 'Methods',
            'Raises', 'References', 'See Also', 'Todo']
    pat = '^(' + '|'.join(tags) + ') *::? *$'
    for l, a in zip(lines, ans):
        corr.count('is_tag_line')
        # through the real function: a one-line docstring that is a tag line yields a block whose key is not __DOC__
        r = C.real_google_split(l)
        real_is_tag = bool(r) and not r.startswith(enc('__DOC__') + '/')
        if (a == '1') != real_is_tag and l.strip() and l == l.lstrip():
            corr.disagree('is_tag_line', {'kind': 'docstring', 'docstr': l, 'style': 'google', 'callname': 'f', 'lineno': 1}, a, r)


# ---------------------------------------------------------------------------- search / replay

def search(ctx, corr, broken):
    """more generated modules and trees, implementation vs the inventory by construction only"""
    if not broken:
        return []
    hits = []
    c2 = type(corr)()
    merge(c2, par.pmap(_w_modules, [(ctx.seed + 1000, s, 6) for s in range(16)]))
    merge(c2, par.pmap(_w_package, [(ctx.seed + 1000, s, 6) for s in range(16)]))
    for e in c2.expect_failures:
        hits.append({'kind': 'expectation', 'suite': e['suite'], 'input': e['input'], 'expected': e['expected'], 'impl': e['impl'],
                     'why': e['why']})
    return hits[:5]


# inputs of the repaired defects 29b8101 / d1ce38f (former K-C07-a, K-C07-b): regression cases, compared on every run
REGRESSIONS = [
    ("if '__main__' == __name__:\n    def hidden():\n        '''\n        >>> 1\n        '''\n", []),
    ("if __name__ == '__main__':\n    pass\nelse:\n    def g():\n        '''\n        >>> 1\n        '''\n", [['g', True]]),
    ('if "__main__" == __name__:\n    def hidden():\n        pass\nelse:\n    class K(object):\n        def m(self):\n            "doc"\n',
     [['K', False], ['K.m', True]]),
    ("if __name__ == '__main__':\n    def a(): pass\nelif True:\n    def b(): pass\nelse:\n    def c(): pass\n", [['b', False], ['c', False]]),
]


def regression_cases(corr):
    srcs = [s for s, _ in REGRESSIONS]
    model = cc.model_calldefs(srcs)
    for (src, exp), a in zip(REGRESSIONS, model):
        impl, _ = C.real_calldefs(src)
        corr.count('regression')
        if impl != a:
            corr.disagree('calldefs', {'kind': 'module-inventory', 'source': src}, a, impl)
        obs = cc.observe_inventory(src)
        if obs != exp:
            corr.expect_fail('inventory', {'kind': 'module-inventory', 'source': src, 'label': 'regression'}, exp, obs,
                             'main guard: the guarded block must not be collected (either spelling), its else branch must be')


def classify(ctx, hit):
    return None


WITNESS_C = b'# -*- coding: latin-1 -*-\ndef f():\n    """caf\xe9\n\n    >>> print(1)\n    1\n    """\n'


def latin1_regression(corr):
    """input of the repaired defect afa3c87 (former K-C07-c): a latin-1 module with a non-ASCII byte is collected"""
    from xdoctest import core
    with cc.scratch_dir() as d:
        path = os.path.join(d, cc.unique_modname('xdvlatin') + '.py')
        with open(path, 'wb') as f:
            f.write(WITNESS_C)
        for analysis in ('static', 'dynamic'):
            try:
                with cc.quiet():
                    obs = ['%s:%d' % (e.callname, e.num) for e in core.parse_doctestables(path, style='auto', analysis=analysis)]
            except Exception as ex:
                obs = 'raise:' + type(ex).__name__
            corr.count('regression')
            if obs != ['f:0']:
                corr.expect_fail('identifiers', {'kind': 'bytes-module', 'bytes': list(WITNESS_C), 'analysis': analysis}, ['f:0'], obs,
                                 'a module in a declared latin-1 encoding with a non-ASCII byte is not collected')


WITNESS_D = '# -*- coding: latin-1 -*-\ndef f():\n    """caf\u00e9\n\n    >>> print("\u00e9")\n    \u00e9\n    """\n'.encode('latin-1')


def replay_finding(ctx, finding):
    if finding['id'] == 'K-C07-d':
        # residual of afa3c87: the text decoded with the declared encoding is re-encoded as UTF-8 and parsed as BYTES, so
        # ast honours the latin-1 cookie on UTF-8 bytes: every non-ASCII character of a docstring is garbled (static only)
        from xdoctest import core
        with cc.scratch_dir() as d:
            path = os.path.join(d, cc.unique_modname('xdvlatin') + '.py')
            with open(path, 'wb') as f:
                f.write(WITNESS_D)
            out = {}
            for analysis in ('static', 'dynamic'):
                try:
                    with cc.quiet():
                        out[analysis] = [e.docsrc for e in core.parse_doctestables(path, style='auto', analysis=analysis)]
                except Exception as ex:
                    out[analysis] = repr(ex)
                finally:
                    cc.forget_module(os.path.basename(path)[:-3])
        return out['dynamic'] == ['>>> print("\u00e9")\n\u00e9'] and out['static'] == ['>>> print("\u00c3\u00a9")\n\u00c3\u00a9']
    if finding['id'] == 'K-C07-c':
        # a module in a declared non-UTF-8 encoding with a non-ASCII byte: the UTF-8 decode fails, the fallback hands BYTES
        # to TopLevelVisitor, and `bytes.encode` raises AttributeError out of parse_doctestables (dynamic analysis is fine)
        from xdoctest import core
        with cc.scratch_dir() as d:
            path = os.path.join(d, cc.unique_modname('xdvlatin') + '.py')
            with open(path, 'wb') as f:
                f.write(WITNESS_C)
            try:
                with cc.quiet():
                    list(core.parse_doctestables(path, style='auto', analysis='static'))
            except AttributeError:
                return True
            except Exception:
                return False
        return False
    return False


def replay(ctx, failing):
    inp = failing['input']
    exp = failing.get('expected')
    kind = inp.get('kind')
    if kind == 'bytes-module':
        from xdoctest import core
        with cc.scratch_dir() as d:
            path = os.path.join(d, cc.unique_modname('xdvbytes') + '.py')
            with open(path, 'wb') as f:
                f.write(bytes(inp['bytes']))
            try:
                with cc.quiet():
                    obs = ['%s:%d' % (e.callname, e.num) for e in core.parse_doctestables(path, style='auto', analysis=inp['analysis'])]
            except Exception as ex:
                obs = 'raise:' + type(ex).__name__
        print('file bytes: %r\nexpected %r, observed now %r' % (bytes(inp['bytes']), exp, obs))
        return obs != exp
    if kind == 'module-inventory':
        obs = cc.observe_inventory(inp['source'])
        print(inp['source'])
        print('expected inventory: %r\nobserved now      : %r' % (exp, obs))
        return obs != exp
    if kind == 'module-identifiers':
        from xdoctest import core
        with cc.scratch_dir() as d:
            path, modname = cc.write_module(d, inp['source'])
            try:
                with cc.quiet():
                    exs = list(core.parse_doctestables(path, style='auto', analysis=inp['analysis']))
            finally:
                cc.forget_module(modname)
        ids = sorted('%s:%d' % (e.callname, e.num) for e in exs)
        print(inp['source'])
        print('analysis=%s\nexpected identifiers: %r\nobserved now        : %r' % (inp['analysis'], exp, ids))
        if exp == 'unique callname:num':
            return len(set(ids)) != len(ids) or ids != sorted(e.unique_callname for e in exs)
        return ids != exp
    if kind == 'module-examples':
        with cc.scratch_dir() as d:
            path, _ = cc.write_module(d, inp['source'])
            obs, _ = cc.observe_static(path, inp['style'])
        ids = [[o[0], o[1]] for o in obs]
        print(inp['source'])
        print('style=%s\nexpected identifiers: %r\nobserved now        : %r' % (inp['style'], exp, ids))
        if exp == 'unique identifiers':
            return len(set(map(tuple, ids))) != len(ids)
        if isinstance(exp, dict) and len(exp) == 1 and list(exp)[0].endswith(' starts with'):
            key = list(exp)[0][:-len(' starts with')]
            got = [(o[4] or '').lstrip('\n').split('\n')[0].strip() for o in obs if '%s:%d' % (o[0], o[1]) == key]
            print('first source line of %s: expected %r, observed now %r' % (key, exp[list(exp)[0]], got))
            return got != [exp[list(exp)[0]]]
        return ids != exp
    if kind == 'package':
        with cc.scratch_dir() as d:
            root = os.path.join(d, 'pkgroot')
            build_tree(root, inp['plan'])
            if inp['flags'] == 'defaults':
                from xdoctest import static_analysis
                obs = sorted(os.path.relpath(p, root).split(os.sep) for p in static_analysis.package_modpaths(root))
            elif inp['flags'] == 'with_libs':
                obs = sorted(observe_package(root, False, True, True, True, with_libs=True))
            else:
                obs = sorted(observe_package(root, *inp['flags']))
        print('tree: %r\nexpected: %r\nobserved now: %r' % (inp['plan'], exp, obs))
        return obs != exp
    if kind == 'package-e2e' and str(inp.get('label', '')).startswith('c07e:'):
        # the package tree is regenerated from its label (seed, shard, index) and collected again
        _p, seed_, shard_, idx_ = inp['label'].split(':')
        res = _w_package_e2e((int(seed_), int(shard_), int(idx_) + 1))
        again = [e for e in res['expect'] if e[1].get('label') == inp['label']]
        print('package tree %s regenerated: %s' % (inp['label'], ('collected %r\nexpected  %r' % (again[0][3], again[0][2])) if again else
                                                   'the doctests collected are those of its modules'))
        return bool(again)
    if kind == 'docstring':
        r, _ = C.real_examples(inp.get('style', 'google'), inp['docstr'], inp.get('callname', 'f'), inp.get('lineno', 1))
        print('docstring: %r\nobserved now: %s' % (inp['docstr'], r))
        return True
    print('recorded case: %r' % (inp,))
    return True

"""shared plumbing for the run-loop properties (C02, C03, C04, C09)"""
import itertools
import random

from .. import par
from ..corr import runloop
from ..gen import scenarios as S

FAMILIES = {}


def family(name):
    def deco(f):
        FAMILIES[name] = f
        return f
    return deco


@family('c02_exhaustive')
def _f(params, shard, nshards, seed):
    return [sc for i, sc in enumerate(S.c02_exhaustive(params['maxlen'])) if i % nshards == shard]


@family('c02_random')
def _f(params, shard, nshards, seed):
    rng = random.Random('c02r:%d:%d' % (seed, shard))
    return [S.c02_random(rng) for _ in range(params['count'])]


@family('c03_table')
def _f(params, shard, nshards, seed):
    out = [sc for i, sc in enumerate(S.c03_table()) if i % nshards == shard]
    if params.get('raise_mode'):
        for sc in out:
            sc['run'] = dict(sc['run'], on_error='raise')
    return out


@family('c03_noraise')
def _f(params, shard, nshards, seed):
    rng = random.Random('c03n:%d:%d' % (seed, shard))
    return [S.c03_noraise_tbwant(rng) for _ in range(params['count'])]


@family('c04_exhaustive')
def _f(params, shard, nshards, seed):
    evs = S.directive_events()
    out = []
    i = 0
    for n in range(1, params['maxlen'] + 1):
        for seq in itertools.product(evs, repeat=n):
            for ds in (None, True):
                if i % nshards == shard:
                    out.append(S.build_c04(list(seq), S.SHAPES[(i // 7) % len(S.SHAPES):] + S.SHAPES, default_skip=ds))
                i += 1
    return out


@family('c04_random')
def _f(params, shard, nshards, seed):
    rng = random.Random('c04r:%d:%d' % (seed, shard))
    evs = S.directive_events()
    out = []
    for _ in range(params['count']):
        out.append(S.build_c04([rng.choice(evs) for _ in range(rng.randint(1, 12))],
                               [rng.choice(S.SHAPES) for _ in range(5)],
                               default_skip=rng.choice([None, None, True, False]),
                               want_mode=rng.choice([None, 'correct', 'garbage-on-skipped']), rng=rng,
                               strings_with_directive=rng.random() < 0.3))
    return out


@family('c09_matrix')
def _f(params, shard, nshards, seed):
    out = []
    i = 0
    for f in S.FAULTS:
        for pos in ('first', 'middle', 'last'):
            for pw in (False, True):
                for multi in (False, True):
                    for oe in ('return', 'raise'):
                        for verbose in params.get('verbose', [0]):
                            if i % nshards == shard:
                                out.append(S.build_c09(f, pos, pw, multi, on_error=oe, verbose=verbose))
                            i += 1
    return out


@family('c09_helper_sweep')
def _f(params, shard, nshards, seed):
    """failure inside a helper defined by an earlier part: helper length x number of want lines of the
    calling part x position x preceding want (the traceback frame of the helper carries a line number
    that is unrelated to the failing part's own lines)"""
    out = []
    i = 0
    for extra in range(0, params.get('max_extra', 6) + 1):
        for own_want in range(0, 4):
            for pos in ('first', 'middle', 'last'):
                for pw in (False, True):
                    for oe in ('return', 'raise'):
                        for verbose in params.get('verbose', [0]):
                            if i % nshards == shard:
                                out.append(S.build_c09('helper-short', pos, pw, False, on_error=oe, verbose=verbose,
                                                       helper_extra=extra, own_want=own_want))
                            i += 1
    return out


@family('c09_rerun')
def _f(params, shard, nshards, seed):
    """a failing doctest with skipped parts before the failing one, run SEVERAL TIMES as the same object (a flaky-style
    rerun): every run must report the failure, in pytest and native mode"""
    from ..gen import doctests as gd
    out = []
    i = 0
    for nskip in (1, 2):
        for nrun in (0, 1, 2):
            for fault in ('wrong-output', 'exception'):
                for oe in ('return', 'raise'):
                    for pm in (False, True):
                        if i % nshards == shard:
                            groups = []
                            k = 0
                            for _ in range(nskip):
                                g = gd.Group('print', k, inline=['+SKIP'])
                                g.want = 'never checked'
                                groups.append(g)
                                k += 1
                            for _ in range(nrun):
                                g = gd.Group('print', k)
                                g.want = g.out.rstrip('\n')
                                groups.append(g)
                                k += 1
                            if fault == 'wrong-output':
                                g = gd.Group('print', k)
                                g.want = 'not the output'
                                kind = 'gotwant'
                            else:
                                g = gd.Group('raise', k)
                                kind = 'exception'
                            groups.append(g)
                            T = [x.k for x in groups if not x.inline]
                            out.append({'text': gd.render(groups), 'run': {'on_error': oe, 'verbose': 0, 'pytest_mode': pm},
                                        'expect': {'pfs': '010', 'kind': kind, 'T': T}, 'rerun': True,
                                        'desc': {'family': 'rerun', 'nskip': nskip, 'nrun': nrun, 'fault': fault}, 'groups': groups})
                        i += 1
    return out


def _worker(args):
    name, params, shard, nshards, seed = args
    scs = FAMILIES[name](params, shard, nshards, seed)
    import io
    import contextlib
    buf = io.StringIO()
    with contextlib.redirect_stdout(buf):
        res = runloop.run_scenarios(scs)
    return res


def run_family(ctx, corr, name, params, nshards=16):
    res = par.pmap(_worker, [(name, params, s, nshards, ctx.seed) for s in range(nshards)])
    for r in res:
        runloop.merge(corr, name, r)


def search_families(ctx, corr, plan):
    """failing-input search = the by-construction expectations of the scenario families, run again
    (wider) on the real code; returns hits"""
    c2 = type(corr)()
    for name, params in plan:
        run_family(ctx, c2, name, params)
    hits = []
    for e in list(corr.expect_failures) + list(c2.expect_failures):
        hits.append({'kind': 'expectation', 'suite': e['suite'], 'input': e['input'], 'expected': e['expected'],
                     'impl': e['impl'], 'why': e['why']})
    return hits


def replay_scenario(failing):
    """re-run a recorded scenario text and report what is observed now"""
    inp = failing['input']
    o = runloop.observe(inp['text'], **inp.get('run', {}))
    exp = failing.get('expected') or {}
    now = {k: o.get(k) for k in ('pfs', 'kind', 'T', 'ending', 'exc_type')}
    bad = []
    for k in ('pfs', 'kind', 'T'):
        if k in exp and now.get(k) != exp[k]:
            bad.append('%s=%r expected %r' % (k, now.get(k), exp[k]))
    print('text:\n' + inp['text'])
    print('observed now: %r' % (now,))
    print('expected    : %r' % ({k: exp.get(k) for k in ('pfs', 'kind', 'T')},))
    if not bad and isinstance(exp, dict) and o.get('parse') == 'ok':
        # everything else the expectation says that can be re-checked from the text alone (exception type, the
        # failing line, the rendered report, how the run ended)
        for w in runloop.check_expectation({'text': inp['text'], 'run': inp.get('run', {}), 'expect': exp}, o):
            print('expectation : ' + w)
            bad.append(w)
    if not bad and o.get('parse') == 'ok' and inp.get('exp_logged'):
        # what the statements of every executed part write is known by construction (recorded with the input)
        for idx, exp_out in sorted(inp['exp_logged'].items()):
            got_out = (o.get('logged_stdout') or {}).get(int(idx))
            if int(idx) != o.get('failidx') and got_out is not None and (got_out or '') != exp_out:
                w = 'part %s logged stdout %r, its statements wrote %r' % (idx, got_out, exp_out)
                print('logged      : ' + w)
                bad.append(w)
    if not bad and o.get('parse') == 'ok':
        for w in runloop.check_values_generic(o):
            print('values      : ' + w)
            bad.append(w)
    if not bad:
        # the same object run again and again
        again = runloop.rerun_check({'text': inp['text'], 'run': inp.get('run', {})}, o)
        for w in again:
            print('rerun       : ' + w)
        bad.extend(again)
    return bool(bad)


# ---------------------------------------------------------------------------------------------
MODULE2 = """
def first():
    \"\"\"
    Example:
%s
    \"\"\"


def second():
    \"\"\"
    Example:
%s
    \"\"\"
"""


def module_level_cases(ctx, corr, suite, cases, defaults_list=({}, {'IGNORE_WHITESPACE': False}, {'NORMALIZE_REPR': True, 'REPORT_UDIFF': True})):
    """two doctests of one module run by the native runner with user default options (one shared config dict):
    whatever the FIRST doctest leaves switched on or off by block directives must not reach the SECOND.
    cases: list of (first_lines, second_lines, expected failed callnames, expected n_skipped)"""
    import contextlib
    import io
    import os
    import shutil
    import tempfile
    import warnings
    from xdoctest import runner
    d = tempfile.mkdtemp(prefix='xdocverif-')
    try:
        i = 0
        for first, second, exp_failed, exp_skipped, extra_defaults in cases:
            for defaults in defaults_list:
                i += 1
                dfl = dict(defaults, **(extra_defaults or {}))
                src = MODULE2 % ('\n'.join('        ' + l for l in first), '\n'.join('        ' + l for l in second))
                path = os.path.join(d, '%s_mod_%d_%d.py' % (suite.replace('-', '_'), os.getpid(), i))
                with open(path, 'w') as f:
                    f.write(src)
                buf = io.StringIO()
                inp = {'module_source': src, 'default_runtime_state': dfl}
                try:
                    with contextlib.redirect_stdout(buf), warnings.catch_warnings():
                        warnings.simplefilter('ignore')
                        rs = runner.doctest_module(path, command='all', verbose=0, argv=[], analysis='static',
                                                   config={'default_runtime_state': dict(dfl)})
                    obs = {'failed': sorted(e.callname for e in rs.get('failed', [])), 'n_skipped': rs.get('n_skipped')}
                except BaseException as e:  # noqa
                    obs = {'raised': repr(e)}
                corr.count(suite)
                corr.nontriv((suite, src, repr(sorted(dfl.items()))))
                exp = {'failed': sorted(exp_failed), 'n_skipped': exp_skipped}
                if obs != exp:
                    corr.expect_fail(suite, inp, exp, obs, 'state left by the first doctest must not reach the second (one shared options dict)')
    finally:
        shutil.rmtree(d, ignore_errors=True)


def replay_module_level(ctx, failing, suite, cases, **kw):
    from ..core import Corr
    c2 = Corr()
    module_level_cases(ctx, c2, suite, cases, **kw)
    bad = [e for e in c2.expect_failures if e['input'] == failing['input']]
    print(failing['input']['module_source'])
    print('default_runtime_state=%r -> %s' % (failing['input']['default_runtime_state'], bad[0]['impl'] if bad else 'as expected'))
    return bool(bad)


@family('c09_random')
def _f(params, shard, nshards, seed):
    rng = random.Random('c09r:%d:%d' % (seed, shard))
    return [S.c09_random(rng) for _ in range(params['count'])]

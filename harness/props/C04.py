"""C04 — Directive scoping: block persists, inline is local, skipped code never runs."""
import itertools
import warnings

from . import _runloop_common as common
from .. import driver
from ..codec import enc, enc_list, dec_list
from ..gen import doctests as gd
from ..gen import scenarios as S

LEAN_TARGETS = ['XdocModel.Proofs.C04', 'XdocModel.Pins.Defaults', 'XdocModel.Pins.Directive']
MANIFEST = {
    'text': ("Full for the state machine after the repair of inline REQUIRES (fix: b985446): for ALL states, directive lists and "
             "requirement oracles, `inline_leaves_persistent_untouched` and `inline_does_not_leak` (an inline directive is forgotten by "
             "the next update), `block_assign_visible`, `requires_inverse`, `satisfied_requirement_noop`, `executed_iff` (a part is run "
             "iff SKIP is off and no unmet REQUIRES is pending in the updated state and it holds code), `skipped_has_no_effect`, "
             "`cli_default_is_leading_block`. The REPORT_* family (inline -REPORT_x rewrites the persistent style, K-C04-b) and REQUIRES "
             "given through --options (K-C04-c) are excluded and recorded as known findings. Correspondence: ALL update histories of "
             "length <=2/3 over 21 event kinds + random to 12 vs RuntimeState.update/to_dict, option-string parsing, and end-to-end "
             "doctests whose TRACE is predicted by the three-line specification (exhaustive event sequences <=2, random to 12) in six "
             "statement shapes (twelve now, incl. several decorators and empty lines inside a statement), with and without --options defaults; "
             "directive-looking text inside string literals included. The clause 'directive-looking text inside string literals is not a directive' is also "
             "PROVED for the mini-lexer model, for all strings: `string_literal_is_not_comment` / `triple_literal_is_not_comment` (the scan of `pre 'body' post` "
             "equals the scan of `post` at the depth reached after `pre`: a # inside a closed literal never starts the comment), `comment_is_suffix`, "
             "`no_directive_in_string_literal`, `directives_ignore_literal_anywhere` (in any multi-line context whose earlier lines leave no string open, "
             "extractDirectives does not depend on the body of a closed literal), `multiline_string_is_not_comment`; the necessary hypotheses (closed literal, "
             "Python's triple-quote rule, no string left open) each have a kernel-checked counterexample that the real extract_comments reproduces."),
    'note': ("Trusted: as C02; requirement evaluation (platform, argv, environment, module existence) is an oracle `sat`; comment "
             "extraction (tokenizer) is taken from the real code here and modelled under C13; ASCII-only case folding of directive names."),
    'technique': 'Lean 4 proof (induction over directive/effect lists) + exhaustive small-scope and random differential correspondence',
}
RULE = ('(1) RuntimeState.update histories: all sequences of <=2 (quick) / <=3 (thorough) steps over 21 event kinds ({block,inline} x '
        '{+-SKIP, +-REQUIRES(met), +-REQUIRES(unmet a), +-REQUIRES(unmet b), +-ELLIPSIS} + empty) and random histories of <=12 steps with '
        '1..3 directives each, state compared after every step; (2) _split_opstr / parse_directive_optstr / DIRECTIVE_RE on generated '
        'option strings; (3) end-to-end doctests from event sequences (exhaustive <=2, random <=12) x statement shapes x default SKIP, '
        'TRACE compared with the three-line specification. non-trivial = at least one directive; distinct = distinct history / text')
ASSUMPTIONS = ['_is_requires_satisfied is an oracle (evaluated by the real code for every argument that occurs)']


EVENTS = [('plain', None)]
for _w in ('b', 'i'):
    for _d in (('SKIP', True, []), ('SKIP', False, []), ('REQUIRES', True, [gd.MET]), ('REQUIRES', False, [gd.MET]),
               ('REQUIRES', True, [gd.UNMET_A]), ('REQUIRES', False, [gd.UNMET_A]), ('REQUIRES', True, [gd.UNMET_B]),
               ('REQUIRES', False, [gd.UNMET_B]), ('ELLIPSIS', True, []), ('ELLIPSIS', False, [])):
        EVENTS.append((_w, _d))
    # several conditions in ONE directive: every argument has its own effect, whatever the order of met / unmet ones
    for _d in (('REQUIRES', True, [gd.MET, gd.UNMET_A]), ('REQUIRES', True, [gd.UNMET_A, gd.MET]),
               ('REQUIRES', False, [gd.MET, gd.UNMET_A]), ('REQUIRES', True, [gd.MET, gd.UNMET_A, gd.UNMET_B]),
               ('REQUIRES', True, [gd.UNMET_A, gd.UNMET_B]), ('REQUIRES', False, [gd.UNMET_A, gd.UNMET_B]),
               ('REQUIRES', False, [gd.UNMET_B, gd.UNMET_A])):
        EVENTS.append((_w, _d))
SAT = {gd.MET: '1', gd.UNMET_A: '0', gd.UNMET_B: '0'}


def enc_step(step):
    """step: list of (where, (name, positive, args))"""
    ds = []
    for w, d in step:
        if d is None:
            continue
        name, pos, args = d
        ds.append('%s:%s:%s:%s' % (name, '+' if pos else '-', w, enc_list(args)))
    return '|'.join(ds) or '~'


def real_history(history, defaults):
    from xdoctest import directive
    rs = directive.RuntimeState(dict(defaults))
    out = []
    for step in history:
        ds = [directive.Directive(d[0], d[1], list(d[2]), inline=(w == 'i')) for w, d in step if d is not None]
        try:
            with warnings.catch_warnings():
                warnings.simplefilter('ignore')
                rs.update(ds)
        except Exception as e:
            out.append('raise')
            break
        keys = [k for k in rs._global_state.keys() if k != 'REQUIRES']
        bools = ','.join('%s=%d' % (k, 1 if rs[k] else 0) for k in keys)
        req = sorted(enc(a) for a in rs['REQUIRES'])
        skips = bool(rs['SKIP'] or len(rs['REQUIRES']) > 0)
        out.append('%s REQ=%s skips=%d' % (bools, ';'.join(req) or '~', 1 if skips else 0))
    return '\t'.join(out)


def _history_line(history, defaults):
    return '\t'.join(['rs_update', ','.join('%s=%d' % (k, 1 if v else 0) for k, v in defaults.items()) or '~',
                      '|'.join('%s=%s' % (enc(a), v) for a, v in sorted(SAT.items()))] + [enc_step(s) for s in history])



MODULE_CASES = [
    # (first doctest, second doctest, failed callnames, n_skipped, extra default options)
    (['>>> print(1)', '1', '>>> # xdoctest: +SKIP', '>>> print(2)'], ['>>> print(3)', 'not three'], ['second'], 0, None),
    (['>>> # xdoctest: +REQUIRES(--xdocverif-unmet-a)', '>>> print(2)'], ['>>> print(3)', 'not three'], ['second'], 1, None),
    (['>>> # xdoctest: -SKIP', '>>> print(2)', '2'], ['>>> print(3)', 'not three'], [], 1, {'SKIP': True}),
    (['>>> # xdoctest: +SKIP', '>>> print(2)'], ['>>> print(3)', '3'], [], 1, None),
]


def module_level(ctx, corr):
    common.module_level_cases(ctx, corr, 'module-level', MODULE_CASES)


# ------------------------------------------------------------------ the environment changes between runs of ONE DocTest object
TOGGLE = 'env:XDOCVERIF_TOGGLE'
TOGGLE_EVENTS = [('plain', None), ('plain', None)] + [(w, d) for w in ('block', 'inline') for d in (
    '+REQUIRES(%s)' % TOGGLE, '-REQUIRES(%s)' % TOGGLE, '+SKIP', '-SKIP', '+REQUIRES(%s, %s)' % (gd.MET, TOGGLE),
    '+REQUIRES(%s)' % gd.UNMET_A, '-REQUIRES(%s)' % gd.UNMET_A)]


def _toggle_reference(groups, toggle_set):
    """which statements run (three-line specification of C04) when env:XDOCVERIF_TOGGLE is / is not set"""
    met = (gd.MET, TOGGLE) if toggle_set else (gd.MET,)
    st = gd.State()
    T = []
    for g in groups:
        if g.kind == 'block':
            for d in g.block:
                st.apply(d, met=met)
            continue
        loc = st.copy()
        for d in g.inline:
            loc.apply(d, met=met)
        if loc.ok and g.kind != 'comment':
            T.append(g.k)
    return T


def _toggle_run(text, history):
    """one parse, then one run of the same object per entry of `history` (is the variable set?); returns the TRACE of every run"""
    import os
    import warnings as _w
    from xdoctest import core
    from ..corr import runloop
    with _w.catch_warnings():
        _w.simplefilter('ignore')
        exs = list(core.parse_docstr_examples(text, callname='t', style='freeform', fpath='<verif>', lineno=1))
    if not exs:
        return None
    ex = exs[0]
    ex.mode = 'native'
    out = []
    old = os.environ.pop('XDOCVERIF_TOGGLE', None)
    try:
        for setting in history:
            if setting:
                os.environ['XDOCVERIF_TOGGLE'] = '1'
            else:
                os.environ.pop('XDOCVERIF_TOGGLE', None)
            ns, T = gd.make_namespace(runloop.NS())
            ex.global_namespace = ns
            try:
                with _w.catch_warnings():
                    _w.simplefilter('ignore')
                    ex.run(on_error='return', verbose=0)
                out.append(list(T))
            except Exception as e:
                out.append('raise:' + type(e).__name__)
    finally:
        os.environ.pop('XDOCVERIF_TOGGLE', None)
        if old is not None:
            os.environ['XDOCVERIF_TOGGLE'] = old
    return out


def _toggle_case(rng):
    events = [rng.choice(TOGGLE_EVENTS) for _ in range(rng.randint(1, 6))]
    sc = S.build_c04(events, [rng.choice(S.SHAPES) for _ in range(5)], rng=rng)
    history = [rng.random() < 0.5 for _ in range(rng.randint(2, 4))]
    if len(set(history)) == 1:
        history.append(not history[0])
    return sc, history


def toggle_suite(ctx, corr):
    """REQUIRES(env:...) whose truth changes between runs of the SAME DocTest object: each run must execute exactly the
    statements that no SKIP / unmet REQUIRES covers in the environment of THAT run (nothing about a condition may be
    remembered on the parsed object)"""
    rng = ctx.sub_rng('toggle')
    for _ in range(150 if ctx.quick else 3000):
        sc, history = _toggle_case(rng)
        exp = [_toggle_reference(sc['groups'], h) for h in history]
        got = _toggle_run(sc['text'], history)
        corr.count('toggle')
        corr.nontriv(('toggle', sc['text'], tuple(history)))
        if got is None:
            corr.unknown += 1
            continue
        corr.tag('toggle:' + ('same' if got == exp else 'differs'))
        if got != exp:
            corr.expect_fail('toggle', {'toggle': True, 'text': sc['text'], 'history': history}, exp, got,
                             'TRACE per run (XDOCVERIF_TOGGLE set? %r) of one DocTest object differs from the statements that no SKIP / unmet REQUIRES covers in that run' % (history,))


def _toggle_hits(corr):
    hits = []
    for e in corr.expect_failures:
        if e['suite'] == 'toggle' and len(hits) < 2:
            hits.append({'kind': 'expectation', 'suite': 'toggle', 'input': e['input'], 'expected': e['expected'], 'impl': e['impl'], 'why': e['why']})
    return hits


def correspondence(ctx, corr):
    module_level(ctx, corr)
    toggle_suite(ctx, corr)
    import os
    os.environ['XDOCVERIF_MET'] = '1'
    from xdoctest import directive
    for a, v in SAT.items():
        assert ('1' if directive._is_requires_satisfied(a) else '0') == v, (a, v)
    # ---- (1) update histories
    hist = []
    maxlen = 2 if ctx.quick else 3
    for n in range(1, maxlen + 1):
        for seq in itertools.product(EVENTS, repeat=n):
            hist.append(([[e] for e in seq], {}))
    rng = ctx.sub_rng('histories')
    for _ in range(3000 if ctx.quick else 40000):
        h = [[rng.choice(EVENTS) for _ in range(rng.randint(1, 3))] for _ in range(rng.randint(1, 12))]
        dflt = rng.choice([{}, {}, {'SKIP': True}, {'ELLIPSIS': False}, {'SKIP': False, 'NORMALIZE_WHITESPACE': False}])
        hist.append((h, dflt))
    model = driver.run_lines([_history_line(h, d) for h, d in hist])
    for (h, d), m in zip(hist, model):
        r = real_history(h, d)
        corr.count('rs_update')
        if any(e[1] is not None for s in h for e in s):
            corr.nontriv(('h', repr(h), repr(d)))
        corr.tag('rs_update:skips' if r.endswith('skips=1') else 'rs_update:runs')
        if r != m:
            corr.disagree('rs_update', {'history': h, 'defaults': d}, m, r)
    corr.sample({'op': 'rs_update', 'history': hist[500][0], 'state_after_each_step': real_history(*hist[500]).split('\t')})
    # ---- (2) option strings
    optstrs = ['+SKIP', '-SKIP', 'SKIP', ' + SKIP ', '+skip', '+REQUIRES(a,b)', '+REQUIRES( a , b )', '-REQUIRES(--x)', '+REQUIRES(',
               '+REQUIRES)', '+REQUIRES()', 'REQUIRES(a', '+ELLIPSIS, -NORMALIZE_WHITESPACE', '+FOO', '', '+', '-', '+REPORT_UDIFF',
               '-report_ndiff', '+SKIP(reason, with comma)', '+REQUIRES(a)(b)', '+\tSKIP', 'IGNORE_WANT', '+DONT_ACCEPT_BLANKLINE']
    frag = ['+', '-', 'SKIP', 'REQUIRES', '(', ')', ',', ' ', 'a', 'module:x', 'ELLIPSIS', 'skip', '\t']
    for _ in range(1500 if ctx.quick else 15000):
        optstrs.append(''.join(rng.choice(frag) for _ in range(rng.randint(1, 7))))
    model = driver.run_lines(['split_opstr\t' + enc(s) for s in optstrs])
    for s, m in zip(optstrs, model):
        try:
            r = enc_list(directive._split_opstr(s))
        except (AssertionError, IndexError):
            r = 'raise'
        corr.count('split_opstr')
        if r != m:
            corr.disagree('split_opstr', {'optstr': s}, m, r)
    for inl in (False, True):
        model = driver.run_lines(['parse_optstr\t%s\t%d' % (enc(s), inl) for s in optstrs])
        for s, m in zip(optstrs, model):
            with warnings.catch_warnings():
                warnings.simplefilter('ignore')
                d = directive.parse_directive_optstr(s, inline=inl)
            r = 'none' if d is None else '%s:%s:%s:%s' % (d.name, '+' if d.positive else '-', 'i' if d.inline else 'b', enc_list(d.args))
            corr.count('parse_optstr')
            if d is not None:
                corr.nontriv(('po', s, inl))
            if r != m:
                corr.disagree('parse_optstr', {'optpart': s, 'inline': inl}, m, r)
    comments = ['xdoctest: +SKIP', 'doctest: +SKIP', 'xdoc: -SKIP', 'doc:+ELLIPSIS', 'XDOCTEST:  +skip', 'xdoctest +SKIP', 'xxdoc: +SKIP',
                'doctest:', ' xdoctest: +SKIP', 'xdoctest:+REQUIRES(a, b), +SKIP', 'Xdoc:\t+SKIP', 'doctests: +SKIP', 'xdoctest: +SKIP # more']
    for _ in range(300):
        comments.append(''.join(rng.choice(['x', 'doc', 'test', ':', ' ', '+SKIP', 'X', 'DOC']) for _ in range(rng.randint(1, 6))))
    model = driver.run_lines(['directive_re\t' + enc(s) for s in comments])
    for s, m in zip(comments, model):
        mm = directive.DIRECTIVE_RE.match(s)
        r = None
        if mm:
            g = [v for v in mm.groupdict().values() if v is not None]
            r = g[0] if g else ''
        from ..codec import dec_opt
        corr.count('directive_re')
        if dec_opt(m) != r:
            corr.disagree('directive_re', {'comment': s}, dec_opt(m), r)
    # ---- (3) end to end
    common.run_family(ctx, corr, 'c04_exhaustive', {'maxlen': 2 if ctx.quick else 3}, nshards=16 if ctx.quick else 64)
    common.run_family(ctx, corr, 'c04_random', {'count': 60 if ctx.quick else 1500})
    corr.exhaustive = True


def search(ctx, corr, broken):
    hits = common.search_families(ctx, corr, [('c04_exhaustive', {'maxlen': 2}), ('c04_random', {'count': 200})])
    # unit level law on the real RuntimeState: an inline-only update never changes the persistent state
    from xdoctest import directive
    import copy
    rng = ctx.sub_rng('search-units')
    for _ in range(3000):
        step = [rng.choice([e for e in EVENTS if e[0] == 'i']) for _ in range(rng.randint(1, 3))]
        pre = [rng.choice([e for e in EVENTS if e[0] == 'b']) for _ in range(rng.randint(0, 2))]
        rs = directive.RuntimeState()
        try:
            rs.update([directive.Directive(d[0], d[1], list(d[2]), inline=False) for _, d in pre])
            before = copy.deepcopy(rs._global_state)
            rs.update([directive.Directive(d[0], d[1], list(d[2]), inline=True) for _, d in step])
            after = copy.deepcopy(rs._global_state)
            rs.update([])
            cleared = rs.to_dict()
        except Exception as e:
            hits.append({'kind': 'law', 'law': 'update-raises', 'input': {'pre': pre, 'inline': step}, 'observed': repr(e)})
            continue
        if before != after or dict(cleared) != dict(before):
            hits.append({'kind': 'law', 'law': 'inline-leaks', 'input': {'pre': pre, 'inline': step},
                         'observed': {'before': repr(before), 'after': repr(after)}})
            break
    return hits


def classify(ctx, hit):
    return None


def _k_c04_b():
    from xdoctest import directive
    rs = directive.RuntimeState()
    before = dict(rs._global_state)
    rs.update([directive.Directive('REPORT_NDIFF', False, [], inline=True)])
    rs.update([])
    return rs['REPORT_NDIFF'] is True and before['REPORT_NDIFF'] is False


def _k_c04_c():
    from xdoctest import core
    ex = list(core.parse_docstr_examples('>>> x = 1\n', callname='t', style='freeform'))[0]
    ex.mode = 'native'
    ex.config['default_runtime_state'] = {'REQUIRES': True}
    try:
        ex.run(on_error='return', verbose=0)
    except TypeError:
        return True
    except Exception:
        return False
    return False


def replay_finding(ctx, finding):
    if finding['id'] == 'K-C04-b':
        return _k_c04_b()
    if finding['id'] == 'K-C04-c':
        return _k_c04_c()
    return False


def replay(ctx, failing):
    if failing.get('input', {}).get('toggle'):
        i = failing['input']
        got = _toggle_run(i['text'], i['history'])
        print(i['text'])
        print('XDOCVERIF_TOGGLE set per run: %r\nTRACE per run : %r\nexpected      : %r' % (i['history'], got, failing['expected']))
        return got != failing['expected']
    if failing.get('kind') == 'law':
        print('law %s on input %r: observed %r' % (failing.get('law'), failing['input'], failing.get('observed')))
        return True
    if 'module_source' in failing.get('input', {}):
        return common.replay_module_level(ctx, failing, 'module-level', MODULE_CASES)
    return common.replay_scenario(failing)

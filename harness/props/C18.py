"""C18 — Displayed doctest source is faithful and re-parses to the same doctest."""
import contextlib
import io
import math
import random
import re
import textwrap

from .. import driver, par
from ..codec import enc, enc_list, dec
from ..corr import execcorr as E
from ..gen import programs as P

LEAN_TARGETS = ['XdocModel.Proofs.C18', 'XdocModel.Pins.Format']
MANIFEST = {
    'text': ("Full for formatting, partial for re-parsing. Proved for ALL part lists with clean lines (no line-break character inside a line, "
             "no empty last line): `format_lines_faithful` (without colours and numbers the displayed text is, part after part, orig_lines "
             "then want_lines, each line once, in order), `line_numbers_correct` (the i-th displayed source line of a part is the decimal "
             "numeral of startline+line_offset+i — startline 1 or the doctest's file line — right-justified in ONE width, a blank, the line; "
             "want lines shifted by width+1; the numeral denotes that number), `reparse_same_partial` (the formatted text IS the newline-join of those lines and expandtabs leaves it alone, so the "
             "second parse is determined by orig/want lines). `ReparseSame` (same exec lines, wants, modes after re-parsing) is stated, NOT "
             "proved (needs the C13 stretch theorem labels_are_intended); it is observed on every generated doctest with the real parser. The WIDTH/alignment of the number column is not part "
             "of the property and not part of the verdict (model theorems `same_width` / `width_not_uniform_witness` are kept as remarks: "
             "the code under-counts the digits when text lies between two chunks)."),
    'note': ("Trusted: Lean kernel/axioms as audited; hand-written model Format.lean of format_part/format_parts/format_src/"
             "add_line_numbers/indent (colored=False only; pygments is outside), tied by this correspondence on the real parts; "
             "n_digits is modelled as the least d with endline <= 10^d (equal to int(ceil(log10)) below 10^15: compared around every power of ten)."),
    'technique': 'Lean 4 proof (splitlines/join/split lemmas, index lemma for add_line_numbers, Nat.toDigits lemmas of core) + differential correspondence + re-parse oracle',
}
RULE = ('doctests of the C01 program generator (26 statement kinds x prompt styles x indentation x wants/prose placement) x file line of the '
        'docstring in {1,7,95,998} x ALL 16 combinations of prefix/want/linenos/offset_linenos with colored=False, plus the CONFIG x ARGUMENT '
        'matrix (config colored / offset_linenos in {default, True, False} x argument colored in {False, None}, offset_linenos in {True, '
        'False, None}: the explicit argument must win, None means as configured; no ANSI codes when no colour was asked), format_part with '
        'partnos and explicit n_digits; compared: model `format_src`/`format_part`/`from_parts` on the real parts vs DocTest.format_src / '
        'DoctestPart.format_part / the docsrc rebuilt by freeform collection; `ndigits` vs the float formula around every power of ten up '
        'to 10^14 and on 1..20000; `add_line_numbers`, `indent` on random lines. Oracles compared eagerly: lines of the plain display = '
        'orig_lines+want_lines; re-parse with the REAL parser gives the same exec lines, wants and modes; every displayed number = the '
        "line's position (doctest-relative / file-relative) known from the generator. non-trivial = more than one part; distinct = (docstring, options)")
ASSUMPTIONS = ['colored=False (highlighting is pygments)', 'line numbers stay below 10^15 (float log10 agrees with the integer digit count)']

LINENOS = [1, 7, 95, 998]
NUM_RE = re.compile(r'^( *)(\d+) (.*)$')


def enc_parts(parts):
    f = []
    for p in parts:
        f.append(enc_list(list(p.exec_lines)))
        f.append('N' if p.want_lines is None else enc_list(list(p.want_lines)))
        f.append('N' if p.orig_lines is None else enc_list(list(p.orig_lines)))
        f.append(str(p.line_offset))
    return f


def oracle_plain(ex, text):
    """the plain display must be orig_lines + want_lines, part after part"""
    exp = []
    for p in ex._parts:
        exp.extend(p.orig_lines)
        if p.want_lines:
            exp.extend(p.want_lines)
    got = text.split('\n')
    if got != exp:
        return 'displayed lines %r, the parts hold %r' % (got, exp)
    return None


def oracle_reparse(ex, text):
    ex2 = E.parse_example(text)
    if ex2 is None:
        return 'the displayed text does not parse into one doctest'
    a = [l for p in ex._parts for l in p.exec_lines]
    b = [l for p in ex2._parts for l in p.exec_lines]
    if a != b:
        return 're-parsed exec lines %r, original %r' % (b, a)
    wa = [p.want for p in ex._parts if p.want]
    wb = [p.want for p in ex2._parts if p.want]
    if wa != wb:
        return 're-parsed wants %r, original %r' % (wb, wa)
    ma = [p.compile_mode for p in ex._parts if p.want]
    mb = [p.compile_mode for p in ex2._parts if p.want]
    if ma != mb:
        return 're-parsed modes %r, original %r' % (mb, ma)
    return None


def oracle_numbers(prog, line_of, L, offset, text, want):
    """every numbered line, in order, carries the position of the corresponding program line"""
    nums = []
    for l in text.split('\n'):
        m = NUM_RE.match(l)
        if m and (m.group(3).startswith(('>>>', '...')) or True):
            nums.append((int(m.group(2)), m.group(3)))
    # want lines never start with digits+blank after their shift (wants of the generator may: filter by prompt)
    src = [(n, t) for n, t in nums if t[:3] in ('>>>', '...')]
    if len(src) != len(line_of):
        return '%d numbered source lines for %d program lines' % (len(src), len(line_of))
    for j, (n, t) in enumerate(src):
        exp = (L + line_of[j]) if offset else (1 + line_of[j] - line_of[0])
        if n != exp:
            return 'program line %d (%r) is displayed with number %d, its position is %d' % (j, t, n, exp)
    return None


def cfg_format(ex, cfgc, cfgo, argc, argo, linenos):
    """format_src under a configuration: config value None = leave the default (colored: is stdout a tty; offset: False)"""
    saved = dict(ex.config)
    try:
        ex.config['verbose'] = 0
        if cfgc is not None:
            ex.config['colored'] = cfgc
        else:
            ex.config['colored'] = False     # the default under a pipe
        if cfgo is not None:
            ex.config['offset_linenos'] = cfgo
        return ex.format_src(linenos=linenos, colored=argc, want=True, offset_linenos=argo, prefix=True)
    finally:
        ex.config.clear()
        ex.config.update(saved)


def oracle_cfg(prog, line_of, L, ex, opts, real):
    cfgc, cfgo, argc, argo, linenos = opts
    eff_o = argo if argo is not None else bool(cfgo)
    if '\x1b' in real:
        return 'an uncoloured display was asked for (colored=%r, config %r) but the text has ANSI escape codes' % (argc, cfgc)
    if linenos:
        return oracle_numbers(prog, line_of, L, eff_o, real, True)
    return oracle_plain(ex, real) or oracle_reparse(ex, real)


def format_bits(ex, bits):
    prefix, want, linenos, offset = bool(bits & 1), bool(bits & 2), bool(bits & 4), bool(bits & 8)
    return ex.format_src(linenos=linenos, colored=False, want=want, offset_linenos=offset, prefix=prefix)


def _shard(args):
    seed, shard, count, maxlen = args
    rng = random.Random('c18:%d:%d' % (seed, shard))
    out = {'n': 0, 'nontrivial': set(), 'tags': {}, 'dis': [], 'exp': [], 'samples': []}
    cases = []
    lines = []
    stateful = []
    for _ in range(count):
        prog = P.gen_program(rng, max_len=maxlen)
        text, line_of, stmt_first = prog.render()
        L = rng.choice(LINENOS)
        ex = E.parse_example(text, lineno=L)
        if ex is None:
            continue
        pf = enc_parts(ex._parts)
        for bits in range(16):
            prefix, want, linenos, offset = bool(bits & 1), bool(bits & 2), bool(bits & 4), bool(bits & 8)
            real = ex.format_src(linenos=linenos, colored=False, want=want, offset_linenos=offset, prefix=prefix)
            b = '%d%d%d%d0' % (linenos, want, offset, prefix)
            lines.append('\t'.join(['format_src', b, str(ex.lineno)] + pf))
            cases.append(('src', prog, text, line_of, L, ex, (prefix, want, linenos, offset), real))
        # STATEFUL: the same DocTest object formatted after it has been RUN 1..3 times (what a failure report and a
        # re-run do) must display exactly what it displayed before, and that display must still be faithful
        if rng.random() < 0.35:
            nruns = rng.randint(1, 3)
            before = {b: format_bits(ex, b) for b in range(16)}
            with contextlib.redirect_stdout(io.StringIO()):
                for r in range(nruns):
                    E.run_example(ex, verbose=rng.choice([0, 3]))
            for b in range(16):
                after = format_bits(ex, b)
                why = None
                if after != before[b]:
                    why = 'after %d run(s) the same DocTest object displays %r, before it displayed %r' % (nruns, after[:300], before[b][:300])
                else:
                    prefix, want, linenos, offset = bool(b & 1), bool(b & 2), bool(b & 4), bool(b & 8)
                    if prefix and want and not linenos:
                        why = oracle_plain(ex, after) or oracle_reparse(ex, after)
                    elif prefix and linenos:
                        why = oracle_numbers(prog, line_of, L, offset, after, want)
                stateful.append(({'text': text, 'lineno': L, 'options': [b, nruns], 'op': 'after-run', 'program': prog.describe()}, why))
        # CONFIG x ARGUMENT: an explicit argument (True or False) wins over the doctest's configuration, None means
        # "as configured" (DoctestConfig.getvalue); what the command line flags --colored / --offset switch on
        for _ in range(6):
            cfgc, cfgo = rng.choice([None, True, False]), rng.choice([None, True, False])
            argc, argo = rng.choice([False, False, None]), rng.choice([True, False, None])
            linenos = rng.random() < 0.5
            eff_c = argc if argc is not None else bool(cfgc)
            eff_o = argo if argo is not None else bool(cfgo)
            if eff_c:
                continue       # a coloured display was asked for: pygments, outside the model
            real = cfg_format(ex, cfgc, cfgo, argc, argo, linenos)
            b = '%d1%d10' % (linenos, eff_o)
            lines.append('\t'.join(['format_src', b, str(ex.lineno)] + pf))
            cases.append(('cfg', prog, text, line_of, L, ex, (cfgc, cfgo, argc, argo, linenos), real))
        # one part with partnos / explicit digits
        p = rng.choice(ex._parts)
        nd = rng.choice([None, 1, 3])
        st = rng.choice([1, 9, 99])
        real = p.format_part(linenos=True, want=True, startline=st, n_digits=nd, colored=False, partnos=True, prefix=True)
        lines.append('\t'.join(['format_part', '1111', str(st), 'N' if nd is None else str(nd)] + enc_parts([p]) + [str(p.partno)]))
        cases.append(('part', prog, text, None, L, ex, (st, nd), real))
        # the text the freeform collector rebuilt
        lines.append('\t'.join(['from_parts'] + pf))
        cases.append(('from_parts', prog, text, None, L, ex, None, ex.docsrc))
    model = driver.run_lines(lines, jobs=1) if lines else []
    for (kind, prog, text, line_of, L, ex, opts, real), m in zip(cases, model):
        out['n'] += 1
        inp = {'text': text, 'lineno': L, 'options': opts, 'op': kind, 'program': prog.describe()}
        if kind == 'from_parts':
            from ..codec import dec_list
            mv = textwrap.dedent('\n'.join(dec_list(m)))
        else:
            mv = dec(m)
        if mv != real:
            out['dis'].append((inp, mv[:500], real[:500]))
        if kind == 'cfg':
            tag = 'cfg:colored=%s/%s offset=%s/%s' % (opts[0], opts[2], opts[1], opts[3])
            out['tags'][tag] = out['tags'].get(tag, 0) + 1
            why = oracle_cfg(prog, line_of, L, ex, opts, real)
            if why:
                out['exp'].append((inp, 'display as asked (explicit argument wins over the configuration)', real[:400], why[:800]))
            continue
        if kind != 'src':
            continue
        prefix, want, linenos, offset = opts
        if len(ex._parts) > 1:
            out['nontrivial'].add(hash((text, opts)))
        tag = 'opts:%d%d%d%d' % opts
        out['tags'][tag] = out['tags'].get(tag, 0) + 1
        why = None
        if prefix and want and not linenos:
            why = oracle_plain(ex, real) or oracle_reparse(ex, real)
        elif prefix and linenos:
            why = oracle_numbers(prog, line_of, L, offset, real, want)
        if why:
            out['exp'].append((inp, 'faithful display', real[:400], why[:800]))
        if len(out['samples']) < 1 and linenos and offset:
            out['samples'].append({'docstring': text, 'options': opts, 'displayed': real})
    for inp, why in stateful:
        out['n'] += 1
        out['tags']['after-run'] = out['tags'].get('after-run', 0) + 1
        if why:
            out['exp'].append((inp, 'the same display before and after running', None, why[:900]))
    out['exp'].sort(key=lambda e: len(e[0]['text']))
    out['dis'] = out['dis'][:10]
    out['exp'] = out['exp'][:10]
    return out


def _ndigits(corr):
    ns = list(range(0, 20001))
    for k in range(1, 15):
        ns += [10 ** k - 1, 10 ** k, 10 ** k + 1]
    model = driver.run_lines(['ndigits\t%d' % n for n in ns])
    for n, m in zip(ns, model):
        r = int(math.ceil(math.log(max(1, n), 10)))
        corr.count('ndigits')
        if int(m) != r:
            corr.disagree('ndigits', {'n': n}, m, r)


def _units(ctx, corr):
    from xdoctest import utils
    rng = ctx.sub_rng('units')
    lines = []
    cases = []
    for _ in range(300 if ctx.quick else 3000):
        ls = [''.join(rng.choice('ab >.') for _ in range(rng.randint(0, 5))) for _ in range(rng.randint(0, 12))]
        start = rng.choice([0, 1, 8, 95, 990])
        nd = rng.choice([None, None, 0, 1, 2, 4])
        lines.append('add_line_numbers\t%s\t%d\t%s' % (enc_list(ls), start, 'N' if nd is None else nd))
        cases.append(('aln', (ls, start, nd), utils.add_line_numbers(list(ls), start=start, n_digits=nd)))
        t = ''.join(rng.choice('ab \n') for _ in range(rng.randint(0, 12)))
        pre = rng.choice(['    ', '# ', '>>> ', ''])
        lines.append('indent\t%s\t%s' % (enc(t), enc(pre)))
        cases.append(('indent', (t, pre), utils.indent(t, pre)))
    from ..codec import dec_list
    model = driver.run_lines(lines)
    for (k, inp, real), m in zip(cases, model):
        corr.count(k)
        mv = dec_list(m) if k == 'aln' else dec(m)
        if mv != real:
            corr.disagree(k, {'input': inp}, mv, real)


def _merge(corr, res):
    corr.count('format', res['n'])
    corr.nontrivial |= res['nontrivial']
    for k, v in res['tags'].items():
        corr.tag(k, v)
    for inp, m, r in res['dis']:
        corr.disagree('format', inp, m, r)
    for inp, e, i, why in res['exp']:
        corr.expect_fail('format', inp, e, i, why)
    for s in res['samples'][:1]:
        corr.sample(s)


def correspondence(ctx, corr):
    q = ctx.quick
    res = par.pmap(_shard, [(ctx.seed, s, 60 if q else 1200, 6 if q else 10) for s in range(16)])
    for r in res:
        _merge(corr, r)
    _ndigits(corr)
    _units(ctx, corr)


def search(ctx, corr, broken):
    c2 = type(corr)()
    res = par.pmap(_shard, [(ctx.seed + 7, s, 150, 7) for s in range(16)])
    for r in res:
        _merge(c2, r)
    hits = [{'kind': 'expectation', 'suite': e['suite'], 'input': e['input'], 'expected': e['expected'], 'impl': e['impl'],
             'why': e['why']} for e in c2.expect_failures]
    hits.sort(key=lambda h: len(repr(h['input'])))
    return hits[:5]


def classify(ctx, hit):
    return None


def replay_finding(ctx, finding):
    return False


def replay(ctx, failing):
    inp = failing['input']
    text = inp['text']
    ex = E.parse_example(text, lineno=inp.get('lineno', 1))
    print('docstring (file line %s):\n%s' % (inp.get('lineno'), text))
    if ex is not None and inp.get('op') == 'after-run':
        b, nruns = inp['options']
        before = format_bits(ex, b)
        import io
        import contextlib
        with contextlib.redirect_stdout(io.StringIO()):
            for _ in range(nruns):
                E.run_example(ex)
        after = format_bits(ex, b)
        print('format_src(prefix=%r, want=%r, linenos=%r, offset_linenos=%r, colored=False)' % (bool(b & 1), bool(b & 2), bool(b & 4), bool(b & 8)))
        print('before running:\n%s\nafter %d run(s) of the same DocTest object:\n%s' % (before, nruns, after))
        prog = P.Program.from_desc(inp['program'])
        _t, line_of, _sf = prog.render()
        why = None
        if b & 1 and b & 2 and not b & 4:
            why = oracle_plain(ex, after) or oracle_reparse(ex, after)
        elif b & 1 and b & 4:
            why = oracle_numbers(prog, line_of, inp.get('lineno', 1), bool(b & 8), after, bool(b & 2))
        print('oracle: %s' % (why or 'faithful'))
        return after != before or bool(why)
    if ex is not None and inp.get('op') == 'cfg':
        cfgc, cfgo, argc, argo, linenos = inp['options']
        real = cfg_format(ex, cfgc, cfgo, argc, argo, linenos)
        print("config colored=%r offset_linenos=%r; format_src(linenos=%r, colored=%r, offset_linenos=%r, want=True, prefix=True):\n%s" % (
            cfgc, cfgo, linenos, argc, argo, real))
        prog = P.Program.from_desc(inp['program'])
        _t, line_of, _sf = prog.render()
        why = oracle_cfg(prog, line_of, inp['lineno'], ex, (cfgc, cfgo, argc, argo, linenos), real)
        print('oracle: %s' % (why or 'as asked'))
        return bool(why)
    if ex is None or inp.get('op') != 'src':
        print('recorded: %r' % (failing,))
        return True
    prefix, want, linenos, offset = inp['options']
    real = ex.format_src(linenos=linenos, colored=False, want=want, offset_linenos=offset, prefix=prefix)
    print('format_src(prefix=%r, want=%r, linenos=%r, offset_linenos=%r, colored=False):\n%s' % (prefix, want, linenos, offset, real))
    prog = P.Program.from_desc(inp['program'])
    _t, line_of, _sf = prog.render()
    why = None
    if prefix and want and not linenos:
        why = oracle_plain(ex, real) or oracle_reparse(ex, real)
    elif prefix and linenos:
        why = oracle_numbers(prog, line_of, inp['lineno'], offset, real, want)
    print('oracle: %s' % (why or 'faithful'))
    return bool(why)

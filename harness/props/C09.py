"""C09 — Every failure is recorded and rendered; one bad doctest never aborts the run."""
import io
import os
import shutil
import subprocess
import sys
import tempfile
import contextlib
import warnings

from . import _runloop_common as common
from ..gen import scenarios as S
from ..gen import doctests as gd

LEAN_TARGETS = ['XdocModel.Proofs.C09', 'XdocModel.Pins.Defaults']
MANIFEST = {
    'text': ("Partial. Proved for ALL part lists, oracles and configurations of the run-loop model: `return_mode_never_raises` "
             "(run(on_error='return') always returns a summary, given that every exception raised by executing doctest code carries a "
             "doctest frame — a CPython fact the harness checks on every observed run), `failed_iff_failure_recorded`, "
             "`failure_names_part`, and one theorem per fault kind of the property showing that it is RECORDED as a failure (wrong output, "
             "exception in the doctest / called code / earlier helper, compile-only error, raising repr with and without stdout, import "
             "error, malformed directive), plus totality of the traceback context-line lookup used by repr_failure. Observed, not proved: "
             "rendering of the report from real traceback objects and the module-level runner — the fault-injection matrix (fault kind x "
             "position x preceding want x multi-line x on_error x verbosity) runs DocTest.run + repr_failure (must render, name the "
             "exception type and the failing line), doctest_module on modules with a failing doctest in the middle (the others still run "
             "and are reported) and the CLI exit status. Holds after the repairs ac48a3f, b491c99, 35193d2 (see known_findings.json)."),
    'note': ("Trusted: as C02; CPython traceback objects and traceback.format_exception are outside the model; the hypothesis "
             "'every raised exception has a doctest frame' is validated by observation only."),
    'technique': 'Lean 4 proof (loop invariant + case analysis of the exception ladder) + fault-injection correspondence',
}
RULE = ('fault-injection matrix: 10 fault kinds (wrong output, exception, exception in called code, helper from an earlier longer / shorter '
        'part, compile-only error, raising repr, raising repr after stdout, malformed block / inline directive) x position '
        '(first/middle/last) x preceding want x preceding multi-line statement x on_error (return/raise) x verbosity (0 quick; 0..3 '
        'thorough): model vs DocTest.run, expectation failed + kind + TRACE + repr_failure renders and names type and line; runner level: '
        'a module with [pass, FAULT, pass] per fault kind + a module that fails to import, through doctest_module and `python -m xdoctest`. '
        'random composites: programs of every plain statement kind / both prompt styles / correct wants / prose between parts / inline SKIPs with one fault of 16 kinds at a random place (and sometimes a second, unreachable one), on_error and verbosity drawn at random: kind, exception type, TRACE, failing line, rendered report. '
        'non-trivial = every case (each injects a fault)')
ASSUMPTIONS = ['exceptions raised by exec/eval of a part always have a traceback frame whose filename is the doctest (checked on every run)']

MOD_FAULTS = {
    'wrong-output': ">>> print(1)\n2\n",
    'exception': ">>> raise ValueError('boom')\n",
    'called-exception': ">>> import json\n>>> json.loads('{')\n",
    'helper-long': ">>> def helper(a):\n...     b = a\n...     c = b\n...     d = c\n...     raise IndexError('h')\n>>> print('x')\nx\n>>> helper(1)\n",
    'compile': ">>> x = 1\n>>> return x\n",
    'badrepr': ">>> class B(object):\n...     def __repr__(self):\n...         raise RuntimeError('no repr')\n>>> B()\nsomething\n",
    'bad-directive': ">>> # xdoctest: +REQUIRES(not-a-valid-requirement)\n>>> print(1)\n",
}
EXC_NAMES = {'wrong-output': 'GotWantException', 'exception': 'ValueError', 'called-exception': 'JSONDecodeError',
             'helper-long': 'IndexError', 'compile': 'SyntaxError', 'badrepr': 'ExtractGotReprException', 'bad-directive': 'Exception'}


def _indent(text, n=4):
    return ''.join(' ' * n + l + '\n' for l in text.rstrip('\n').split('\n'))


def module_source(fault):
    return ('def first():\n    """\n    Example:\n        >>> print("ok1")\n        ok1\n    """\n\n'
            'def second():\n    """\n    Example:\n' + _indent(MOD_FAULTS[fault], 8) + '    """\n\n'
            'def third():\n    """\n    Example:\n        >>> print("ok3")\n        ok3\n    """\n')


def runner_level(ctx, corr):
    from xdoctest import runner
    d = tempfile.mkdtemp(prefix='xdocverif-c09-')
    try:
        for fault in MOD_FAULTS:
            modname = 'c09mod_' + fault.replace('-', '_')
            path = os.path.join(d, modname + '.py')
            with open(path, 'w') as f:
                f.write(module_source(fault))
            for verbose in ([0] if ctx.quick else [0, 1, 3]):
                buf = io.StringIO()
                err = None
                try:
                    with contextlib.redirect_stdout(buf), warnings.catch_warnings():
                        warnings.simplefilter('ignore')
                        rs = runner.doctest_module(path, command='all', verbose=verbose, argv=[])
                except BaseException as e:  # noqa
                    rs = None
                    err = '%s: %s' % (type(e).__name__, e)
                corr.count('runner:doctest_module')
                corr.nontriv(('runner', fault, verbose))
                inp = {'fault': fault, 'verbose': verbose, 'module_source': module_source(fault)}
                if rs is None:
                    corr.expect_fail('runner', inp, 'run_summary with n_failed=1, n_passed=2', err, 'doctest_module raised instead of returning')
                    continue
                obs = {k: rs.get(k) for k in ('n_failed', 'n_passed', 'n_skipped', 'n_total')}
                why = []
                if obs != {'n_failed': 1, 'n_passed': 2, 'n_skipped': 0, 'n_total': 3}:
                    why.append('tallies %r' % (obs,))
                failed = rs.get('failed', [])
                if [e.callname for e in failed] != ['second']:
                    why.append('failed list %r' % ([e.callname for e in failed],))
                for e in failed:
                    try:
                        txt = '\n'.join(e.repr_failure())
                        if EXC_NAMES[fault] not in txt:
                            why.append('report does not name %s' % EXC_NAMES[fault])
                    except Exception as ex:
                        why.append('repr_failure raised %r' % (ex,))
                if why:
                    corr.expect_fail('runner', inp, {'n_failed': 1, 'n_passed': 2, 'failed': ['second']}, obs, '; '.join(why))
            if fault in ('exception', 'compile', 'helper-long') or not ctx.quick:
                env = dict(os.environ)
                p = subprocess.run([sys.executable, '-m', 'xdoctest', path, 'all'], cwd=d, env=env, stdout=subprocess.PIPE,
                                   stderr=subprocess.STDOUT, timeout=120)
                out = p.stdout.decode('utf8', 'replace')
                corr.count('runner:cli')
                last = [l for l in out.splitlines() if 'failed' in l and 'passed' in l and '===' in l]
                if p.returncode == 0 or not last or '1 failed' not in last[-1] or '2 passed' not in last[-1]:
                    corr.expect_fail('cli', {'fault': fault, 'module_source': module_source(fault)},
                                     'exit status != 0 and "=== 1 failed, 2 passed"', {'rc': p.returncode, 'summary': last[-1:] or out[-300:]},
                                     'the native CLI did not report the failure / the remaining doctests')
        # a module that cannot be imported
        path = os.path.join(d, 'c09mod_importerror.py')
        with open(path, 'w') as f:
            f.write('raise RuntimeError("cannot import me")\n\ndef f():\n    """\n    >>> print(1)\n    1\n    """\n\ndef g():\n    """\n    >>> print(2)\n    2\n    """\n')
        buf = io.StringIO()
        try:
            with contextlib.redirect_stdout(buf), warnings.catch_warnings():
                warnings.simplefilter('ignore')
                rs = runner.doctest_module(path, command='all', verbose=0, argv=[], analysis='static')
            obs = {k: rs.get(k) for k in ('n_failed', 'n_passed', 'n_total')}
            corr.count('runner:import-error')
            if obs != {'n_failed': 2, 'n_passed': 0, 'n_total': 2}:
                corr.expect_fail('runner', {'fault': 'import-error'}, {'n_failed': 2, 'n_passed': 0, 'n_total': 2}, obs,
                                 'import error of the module under test is not recorded per doctest')
            else:
                for e in rs['failed']:
                    e.repr_failure()
        except BaseException as e:  # noqa
            corr.expect_fail('runner', {'fault': 'import-error'}, 'summary returned', repr(e), 'doctest_module raised')
    finally:
        shutil.rmtree(d, ignore_errors=True)


def running_loop_level(ctx, corr):
    """a doctest with top-level await started from INSIDE a running event loop cannot run: it must be
    recorded as a failure (ExistingEventLoopError), rendered, and stop there -- for both on_error modes"""
    import asyncio
    from ..corr import runloop
    from .. import driver
    cases = []
    for pre in (0, 1, 2):
        for post in (0, 1):
            for form in ('w%d = await aw(t(%d))', 'await aw(t(%d))'):
                for oe in ('return', 'raise'):
                    # earlier statements carry a want, so they are parts of their own (a part that
                    # contains an await is not started at all inside a running loop)
                    lines = []
                    for k in range(pre):
                        lines += ['>>> print(t(%d))' % k, '%d' % k]
                    k = pre
                    lines.append('>>> ' + (form % ((k, k) if form.count('%d') == 2 else (k,))))
                    if post:
                        # prose in between: the later statements are a chunk (hence a part) of their own
                        lines += ['', 'some prose', '']
                    lines += ['>>> y%d = t(%d)' % (j, j) for j in range(k + 1, k + 1 + post)]
                    cases.append(('\n'.join(lines) + '\n', oe, list(range(pre))))

    async def inside(text, oe):
        return runloop.observe(text, on_error=oe)

    obs = []
    for text, oe, T in cases:
        o = asyncio.run(inside(text, oe))
        obs.append(o)
    answers = driver.run_lines([o['line'] for o in obs if o.get('parse') == 'ok'])
    ai = 0
    for (text, oe, T), o in zip(cases, obs):
        corr.count('running-loop')
        inp = {'text': text, 'run': {'on_error': oe}, 'inside_running_loop': True}
        if o.get('parse') != 'ok':
            corr.expect_fail('running-loop', inp, 'parsed', o.get('parse'), 'not parsed')
            continue
        m = runloop.normalize_model_answer(answers[ai])
        ai += 1
        corr.nontriv(('loop', text, oe))
        corr.tag('running-loop:' + str(o['kind']))
        if m != o['obs']:
            corr.disagree('running-loop', inp, m, o['obs'])
        why = []
        if o['pfs'] != '010' or o['kind'] != 'loop':
            why.append('passed/failed/skipped=%s kind=%s, expected a recorded ExistingEventLoopError failure' % (o['pfs'], o['kind']))
        if o['T'] != T:
            why.append('TRACE %r, expected %r' % (o['T'], T))
        if oe == 'return' and o['ending'] != 'returned':
            why.append('run(on_error="return") ended with %s' % o['ending'])
        if oe == 'raise' and not str(o['ending']).startswith('raised'):
            why.append('run(on_error="raise") ended with %s' % o['ending'])
        if not why:
            try:
                txt = '\n'.join(o['ex'].repr_failure())
                if 'ExistingEventLoopError' not in txt:
                    why.append('failure report does not name ExistingEventLoopError')
            except Exception as ex:
                why.append('repr_failure() raised %r' % (ex,))
        if why:
            corr.expect_fail('running-loop', inp, {'pfs': '010', 'kind': 'loop', 'T': T},
                             {k: o.get(k) for k in ('pfs', 'kind', 'T', 'ending')}, '; '.join(why))


LATE_DIRECTIVE_TEXTS = [
    ">>> print(t(0))\n0\n>>>   # xdoctest: +SKIP(\n>>> print(t(1))\n",
    ">>>   # xdoctest: +SKIP(\n>>> print(t(0))\n",
    ">>> x = t(0)\n>>> \n... y = 1 # xdoc: +SKIP)\n",
    ">>> print(t(0))\n0\n>>>   # XDOCTEST: +REQUIRES(module:os\n>>> print(t(1))\n1\n",
]


def late_directive_level(ctx, corr):
    """a malformed directive that the parser never looks at (it sits on a source line that no PS1 statement of
    its chunk covers) is only found when the part's directives are read at run time: `malformed directive`
    is one of the faults of the property, so return mode must still return a failed summary (repaired by
    e87df5a; the docstring being COLLECTED without a warning is finding K-C14-b of C14)"""
    import warnings as _w
    from xdoctest import core
    from ..gen import doctests as gd
    for text in LATE_DIRECTIVE_TEXTS:
        for oe in ('return', 'raise'):
            corr.count('late-directive')
            inp = {'text': text, 'run': {'on_error': oe}, 'late_directive': True}
            with _w.catch_warnings():
                _w.simplefilter('ignore')
                exs = list(core.parse_docstr_examples(text, callname='t', style='freeform', fpath='<verif>', lineno=1))
            if not exs:
                corr.tag('late-directive:not-collected')
                continue          # rejected at parse time: contained, nothing to run
            ex = exs[0]
            ex.mode = 'native'
            ns, T = gd.make_namespace({})
            ex.global_namespace = ns
            why = []
            try:
                summary = ex.run(on_error=oe, verbose=0)
                ended = 'returned'
            except Exception as e:
                summary, ended = None, 'raised %s' % type(e).__name__
            corr.nontriv(('late', text, oe))
            corr.tag('late-directive:' + ended.split()[0])
            if oe == 'return':
                if summary is None:
                    why.append('run(on_error="return") %s' % ended)
                elif not summary['failed']:
                    why.append('summary not marked failed: %r' % ({k: summary[k] for k in ('passed', 'failed', 'skipped')},))
            elif summary is not None and not summary['failed']:
                why.append('run(on_error="raise") returned a summary that is not failed')
            if not why and ex.exc_info is not None:
                try:
                    txt = '\n'.join(ex.repr_failure())
                    if 'xdoc' not in txt.lower():
                        why.append('failure report does not show the failing directive line')
                except Exception as e2:
                    why.append('repr_failure() raised %r' % (e2,))
            if why:
                corr.expect_fail('late-directive', inp, 'failed summary returned and rendered', ended, '; '.join(why))


# ---------------------------------------------------------------------------------------------
STREAM_SWAPS = {
    # the doctest points sys.stdout somewhere else BY HAND (no context manager) and fails before its own restore line
    'buffer': ['>>> import sys, io', '>>> keep = sys.stdout', '>>> sys.stdout = io.StringIO()'],
    'closed': ['>>> import sys, io, os', '>>> keep = sys.stdout', '>>> fh = open(os.devnull, "w")', '>>> sys.stdout = fh', '>>> fh.close()'],
    'samepart': ['>>> import sys, io', '>>> keep = sys.stdout; sys.stdout = io.StringIO()'],
}
STREAM_FAULTS = {
    'exception': (['>>> raise ValueError("m%d" % t(0))'], 'ValueError'),
    'called': (['>>> boom(t(0))'], 'KeyError'),
    'wrong-output': (['>>> sys.stdout = keep', '>>> print(t(0))', 'not the output'], 'GotWantException'),
}


def stream_level(ctx, corr):
    """a doctest that redirects sys.stdout by hand and FAILS before its own restore line: the failure must still be
    recorded, returned and rendered into the stream that was sys.stdout when run() was called (verbosity 1..3), and
    sys.stdout must be that stream again afterwards, so that the NEXT doctest is reported too"""
    import contextlib
    import io
    import sys
    import warnings as _w
    from xdoctest import core
    from ..gen import doctests as gd
    for swap, pre in sorted(STREAM_SWAPS.items()):
        for fault, (flines, tname) in sorted(STREAM_FAULTS.items()):
            for split in (False, True):
                for oe in ('return', 'raise'):
                    for verbose in ((0, 2) if ctx.quick else (0, 1, 2, 3)):
                        lines = list(pre)
                        if split:
                            lines += ['', 'prose between the parts', '']
                        lines += flines + ['>>> sys.stdout = keep', '>>> print(t(1))']
                        text = '\n'.join(lines) + '\n'
                        inp = {'text': text, 'run': {'on_error': oe, 'verbose': verbose}, 'stream': True,
                               'desc': {'swap': swap, 'fault': fault, 'split': split}}
                        corr.count('stream')
                        corr.nontriv(('stream', text, oe, verbose))
                        why = _stream_case(text, oe, verbose, tname)
                        corr.tag('stream:' + ('ok' if not why else 'bad'))
                        if why:
                            corr.expect_fail('stream', inp, 'failed summary (%s), report in the caller\'s stream, sys.stdout restored' % tname,
                                             '; '.join(why)[:600], '; '.join(why))


def _stream_case(text, oe, verbose, tname):
    import contextlib
    import io
    import sys
    import warnings as _w
    from xdoctest import core
    from ..gen import doctests as gd
    why = []
    with _w.catch_warnings():
        _w.simplefilter('ignore')
        exs = list(core.parse_docstr_examples(text, callname='t', style='freeform', fpath='<verif>', lineno=1))
        nxt = list(core.parse_docstr_examples('>>> print(t(5))\n5\n', callname='n', style='freeform', fpath='<verif>', lineno=1))[0]
    ex = exs[0]
    ex.mode = nxt.mode = 'native'
    ns, T = gd.make_namespace({})
    ex.global_namespace = ns
    ns2, T2 = gd.make_namespace({})
    nxt.global_namespace = ns2
    buf = io.StringIO()
    before = sys.stdout
    try:
        with contextlib.redirect_stdout(buf):
            mine = sys.stdout
            try:
                summary = ex.run(on_error=oe, verbose=verbose)
                ended = 'returned'
            except BaseException as e:   # noqa
                summary, ended = None, 'raised %s: %s' % (type(e).__name__, str(e)[:80])
            after = sys.stdout
            sys.stdout = mine
            # the next doctest of the session
            try:
                s2 = nxt.run(on_error='return', verbose=verbose)
                ended2 = 'returned'
            except BaseException as e:   # noqa
                s2, ended2 = None, 'raised %s: %s' % (type(e).__name__, str(e)[:80])
            after2 = sys.stdout
            sys.stdout = mine
    finally:
        sys.stdout = before
    out = buf.getvalue()
    if after is not mine:
        why.append('after run() sys.stdout is %s, not the stream it was before' % type(after).__name__)
    if oe == 'return':
        if summary is None:
            why.append('run(on_error="return") %s' % ended)
        elif not summary['failed']:
            why.append('summary not marked failed')
    elif summary is not None or not ended.startswith('raised ' + tname):
        if not (summary is None and ended.startswith('raised')):
            why.append('run(on_error="raise") %s' % ended)
    if ex.exc_info is None:
        why.append('no failure recorded on the doctest')
    elif type(ex.exc_info[1]).__name__ != tname:
        why.append('recorded %s, expected %s' % (type(ex.exc_info[1]).__name__, tname))
    else:
        try:
            txt = '\n'.join(ex.repr_failure())
            if tname not in txt:
                why.append('failure report does not name %s' % tname)
        except Exception as e2:
            why.append('repr_failure() raised %r' % (e2,))
    if T != [0]:
        why.append('TRACE %r, expected [0]' % (T,))
    if verbose >= 1 and oe == 'return' and '* FAILURE' not in out:
        why.append('verbosity %d: the failure line was not written to the stream that was sys.stdout when run() was called' % verbose)
    if s2 is None or not s2['passed'] or after2 is not mine:
        why.append('the NEXT doctest: %s%s' % (ended2 if s2 is None else ('passed=%s' % s2['passed']), '' if after2 is mine else ', sys.stdout left replaced'))
    elif verbose >= 1 and '* SUCCESS' not in out:
        why.append('verbosity %d: the result line of the NEXT doctest did not reach the stream' % verbose)
    return why


def correspondence(ctx, corr):
    common.run_family(ctx, corr, 'c09_matrix', {'verbose': [0] if ctx.quick else [0, 1, 2, 3]})
    common.run_family(ctx, corr, 'c09_helper_sweep', {'verbose': [0] if ctx.quick else [0, 2], 'max_extra': 6 if ctx.quick else 12})
    common.run_family(ctx, corr, 'c09_rerun', {})
    common.run_family(ctx, corr, 'c09_random', {'count': 60 if ctx.quick else 2000})
    corr.exhaustive = True
    running_loop_level(ctx, corr)
    late_directive_level(ctx, corr)
    stream_level(ctx, corr)
    runner_level(ctx, corr)


def search(ctx, corr, broken):
    return common.search_families(ctx, corr, [('c09_matrix', {'verbose': [0, 2]}), ('c09_helper_sweep', {'verbose': [0, 2], 'max_extra': 8}), ('c09_rerun', {}), ('c09_random', {'count': 120})])


K_C09_A_TEXT = ">>> import sys\n>>> print(t(0))\n>>> sys.stdout.close()\n>>> print(t(1))\n"


def classify(ctx, hit):
    inp = hit.get('input') or {}
    text = inp.get('text') if isinstance(inp, dict) else None
    # K-C09-a: narrow -- the doctest itself closes the stream that is sys.stdout while it runs
    if text and 'sys.stdout.close()' in text and (hit.get('impl') or {}).get('ending') in ('escaped', None):
        return 'K-C09-a'
    return None


def replay_finding(ctx, finding):
    if finding['id'] == 'K-C09-a':
        from ..corr import runloop
        o = runloop.observe(K_C09_A_TEXT, on_error='return')
        return o.get('ending') == 'escaped'
    return False


def replay(ctx, failing):
    if failing.get('input', {}).get('late_directive'):
        from ..core import Corr
        c2 = Corr()
        late_directive_level(ctx, c2)
        bad = [e for e in c2.expect_failures if e['input']['text'] == failing['input']['text'] and e['input']['run'] == failing['input']['run']]
        print(failing['input']['text'])
        print('now: %s' % (bad[0]['why'] if bad else 'a failed summary is returned and rendered'))
        return bool(bad)
    if failing.get('input', {}).get('stream'):
        inp = failing['input']
        tname = STREAM_FAULTS[inp['desc']['fault']][1]
        why = _stream_case(inp['text'], inp['run']['on_error'], inp['run']['verbose'], tname)
        print(inp['text'])
        print('run: %r' % (inp['run'],))
        print('now: %s' % ('; '.join(why) if why else 'failure recorded, returned, reported in the caller\'s stream; sys.stdout restored; next doctest reported'))
        return bool(why)
    if failing.get('input', {}).get('inside_running_loop'):
        import asyncio
        from ..corr import runloop
        inp = failing['input']

        async def inside():
            return runloop.observe(inp['text'], on_error=inp['run']['on_error'])
        o = asyncio.run(inside())
        print(inp['text'])
        print('observed inside a running loop: pfs=%s kind=%s T=%r ending=%s' % (o.get('pfs'), o.get('kind'), o.get('T'), o.get('ending')))
        exp = failing.get('expected') or {}
        return o.get('pfs') != exp.get('pfs') or o.get('kind') != exp.get('kind') or o.get('T') != exp.get('T')
    if 'text' in failing.get('input', {}):
        return common.replay_scenario(failing)
    print('runner-level case: %r -> expected %r, observed %r' % (failing.get('input', {}).get('fault'), failing.get('expected'), failing.get('impl')))
    return True

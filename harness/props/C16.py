"""C16 — Static and dynamic analysis find the same doctests."""
import os
import random

from . import _collect_common as cc
from . import C07 as c07
from .. import driver, par
from ..codec import enc, dec, enc_list
from ..corr import collect as C
from ..gen import modules as gm

LEAN_TARGETS = ['XdocModel.Proofs.C16', 'XdocModel.Pins.Collect']
MANIFEST = {
    'text': ("Partial (after repairs 09d4434, 29b8101, d1ce38f). Proved for ALL mini-ASTs of the fragment: `static_eq_dynamic` — the (callname, docstring) pairs "
             "collected by the model of the AST visitor equal, as lists and hence as sets, the pairs collected by the model of the "
             "module/class __dict__ walk (`iter_module_doctestables` + `is_defined_by_module` + `parse_dynamic_calldefs`) on the object graph "
             "that importing the module builds (`execModule`). The fragment is an explicit decidable predicate (`InFragment`, "
             "`fragmentOk_iff`): decorators that keep __module__/__name__/__doc__ (wrappers staticmethod/classmethod/property only in first "
             "position, setters/deleters re-binding a property), every branch holding definitions executed by the import, the main guard "
             "block not executed (its else branch is an ordinary branch), distinct names per scope; a witness shows the collectors differ "
             "outside it. Doctests are a function of (callname, docstring, style), so equal pairs give equal identifiers and sources. "
             "Observed, not proved: that an import builds `execModule` (link 3: compared with vars() of the really imported module on every "
             "generated file), the import machinery. Links 1 (static model vs parse_static_calldefs) and 2 (dynamic model vs "
             "parse_dynamic_calldefs on the dumped graph) tie both models to the code; the property itself is compared end to end "
             "(parse_doctestables static vs dynamic, three styles) on every generated module."),
    'note': ("Trusted: Lean kernel; CPython import and class creation semantics (the object graph is an input of the dynamic model, dumped with "
             "plain vars()/getattr); functools.wraps; the correspondence harness."),
    'technique': 'Lean 4 proof (both collectors equal the same declarative inventory; dict-assignment fold lemmas) + three-link differential correspondence',
}
RULE = ('generated importable modules (as C07: functions, async functions, classes, static/class methods, properties with setters, decorated '
        'callables with functools.wraps and decorator factories - local ones and ones imported from another module, whose wrappers keep __module__ but have foreign __globals__ -, definitions inside if/else/try/with/for/while, imported functions and classes '
        'that carry doctests of their own, redefinitions, nested definitions, main guard), imported with '
        'util_import.import_module_from_path under unique names, files written as bytes (BOM / CRLF / CR / coding cookie variants); plus scratch PACKAGES '
        'whose __init__.py files re-export callables of their own submodules (relative / absolute spelling, renamed, star import, module '
        'objects, __all__) and of a sibling package whose name has the package name as a prefix, collected as a file and as a directory: link 1 static model vs static code, link 2 dynamic model vs dynamic code '
        'on the vars() dump, link 3 execModule vs the dump, and static vs dynamic code end to end x 3 styles; non-trivial = module with a '
        'class or an import; distinct = distinct source')
ASSUMPTIONS = ['importing a generated module binds exactly what execModule says (validated by link 3 on every module)',
               'generated modules outside the fragment (definitions in a branch the import does not execute) are only used for links 1-3']


def proj_filter(p):
    """drop inert entries (not defined here / not function-like) from a projection string"""
    out = []
    for ent in p.split('|') if p else []:
        k, v = ent.split('=', 1)
        if v == 'inert':
            continue
        if v.startswith('cls:'):
            head, rest = v.split('{', 1)
            members = [x for x in rest[:-1].split(';') if x and not x.endswith('=inert')]
            v = head + '{' + ';'.join(members) + '}'
        out.append(k + '=' + v)
    return '|'.join(out)


def check_module(m, res, d, label, src=None, path=None, inp=None):
    """src/path/inp: a module that is already on disk as part of a package (`__init__.py` with re-exports)"""
    from xdoctest.utils import util_import
    src = m.source if src is None else src
    if path is None:
        path, modname = cc.write_module(d, src)
    else:
        modname = None
    c07._cnt(res, 'modules')
    for f in sorted(m.features):
        c07._tag(res, f)
    if any('.' in k for k, _ in m.inventory) or 'import' in m.features:
        res['nontriv'].add(hash(src))
    inp = inp or {'kind': 'module-static-dynamic', 'source': src, 'label': label}
    # link 1: static model vs static code
    model = cc.model_calldefs([src])[0]
    impl, cds = C.real_calldefs(src)
    c07._cnt(res, 'link1:static')
    if model != impl:
        res['disagree'].append(('link1:static', {'kind': 'module-inventory', 'source': src}, model[:400], impl[:400]))
    # import
    try:
        with cc.quiet():
            module = util_import.import_module_from_path(path)
    except Exception as ex:
        res['unknown'] += 1
        c07._tag(res, 'import-failed:' + type(ex).__name__)
        return
    modname = modname or module.__name__
    try:
        toks = C.module_tokens(src, modname)
        graph = C.graph_tokens(module)
        doc = getattr(module, '__doc__', None)
        a = driver.run_lines([
            'dynamic\t%s\t%s\t%s' % (enc(modname), C.enc_opt(doc if isinstance(doc, str) else None), graph),
            'graph_proj\t%s\t%s' % (enc(modname), graph),
            'exec_proj\t%s\t%s\t%s' % (enc(modname), enc('some_other_module'), toks),
            'in_fragment\t%s\t%s\t%s' % (enc(modname), enc('some_other_module'), toks),
            'static_pairs\t%s' % toks,
            'exec_dynamic\t%s\t%s\t%s' % (enc(modname), enc('some_other_module'), toks)], jobs=1)
        # link 2: dynamic model vs dynamic code on the same object graph
        rd = C.real_dynamic(module)
        c07._cnt(res, 'link2:dynamic')
        if a[0] != rd:
            res['disagree'].append(('link2:dynamic', inp, a[0][:400], rd[:400]))
        # link 3: execModule vs the real module object
        c07._cnt(res, 'link3:exec')
        p_real, p_model = proj_filter(a[1]), proj_filter(a[2])
        if ' import *' in src or 'rebinding:alias' in m.features:
            # a star import binds names the mini-AST does not list (a later def re-binds such a key in place), and the model
            # applies `Alias = name` assignments after all definitions (Dynamic.applyAliases): only the ORDER of the module
            # dict is outside the model; the entries are compared as a set
            p_real, p_model = '|'.join(sorted(p_real.split('|'))), '|'.join(sorted(p_model.split('|')))
        if p_real != p_model:
            res['disagree'].append(('link3:exec', inp, p_model[:400], p_real[:400]))
        # the theorem on this instance
        c07._tag(res, 'in_fragment=' + a[3])
        if a[3] == '1':
            c07._cnt(res, 'theorem-instance')
            if a[4] != a[5]:
                res['disagree'].append(('theorem-instance', inp, a[4][:300], a[5][:300]))
        if (a[3] == '1') and not m.fragment:
            res['disagree'].append(('fragment', inp, 'in fragment', 'generator: a branch with definitions is not executed'))
        # the property, end to end on the real code
        for style in cc.STYLES:
            st, _ = cc.observe_static(path, style)
            dy = cc.observe_dynamic(path, style)
            s_ids = sorted(('%s:%d' % (o[0], o[1]), o[4]) for o in st)
            d_ids = sorted(('%s:%d' % (o[0], o[1]), o[2]) for o in dy)
            c07._cnt(res, 'static-vs-dynamic:' + style)
            if m.fragment:
                if s_ids != d_ids:
                    only_s = [x[0] for x in s_ids if x not in d_ids]
                    only_d = [x[0] for x in d_ids if x not in s_ids]
                    res['expect'].append(('static-vs-dynamic', dict(inp, style=style), 'same identifiers and sources',
                                          {'only_static': only_s[:10], 'only_dynamic': only_d[:10]},
                                          'static and dynamic collection differ on a module of ordinary definitions'))
                exp = sorted('%s:%d' % (cn, num) for cn, num, _ in cc.expected_ids(m, style))
                if sorted(x[0] for x in d_ids) != exp:
                    res['expect'].append(('dynamic-vs-inventory', dict(inp, style=style), exp, sorted(x[0] for x in d_ids),
                                          'dynamic collection differs from the inventory by construction'))
            else:
                c07._tag(res, 'outside-fragment')
        if len(res['samples']) < 1:
            res['samples'].append({'op': 'static-vs-dynamic', 'ids': [k for k, _ in m.inventory][:8], 'in_fragment_model': a[3]})
    finally:
        cc.forget_module(modname)


# ---------------------------------------------------------------------------- packages that re-export their own callables

def gen_package(rng):
    """{relative path: source} of a package whose `__init__.py` files re-export callables of their own submodules (relative and
    absolute spelling, renamed, star, module objects, __all__) and of a sibling package whose NAME starts with the package's;
    plus the generated modules by relative path. Every re-exported callable carries doctests: none of them belongs to the
    importing module."""
    pkg = cc.unique_modname('xdvpkg')
    oth = pkg + '_sib'
    o = gm.Opts(max_top=3, unexecuted_defs_p=0.0, alias_names=False)
    mods = {k: gm.gen_module(rng, o) for k in ('init', 'sub', 'inner', 'deep', 'oth')}

    def tops(m):
        return [cn for cn, _ in m.inventory if '.' not in cn and cn != '__doc__']

    def reexport(m_target, lines):
        src_lines = m_target.source.split('\n')
        at = src_lines.index('import functools')
        return '\n'.join(src_lines[:at] + lines + src_lines[at:])

    own = set(tops(mods['init']))
    sub_names, deep_names, oth_names = tops(mods['sub']), tops(mods['deep']), tops(mods['oth'])
    pick = lambda names, k: rng.sample(names, min(k, len(names)))
    lines = []
    for n in pick(sub_names, 3):
        lines.append(rng.choice(['from .sub import %s as re_%s' % (n, n), 'from %s.sub import %s as re_abs_%s' % (pkg, n, n)] +
                                ([] if n in own else ['from .sub import %s' % n])))
    lines.append(rng.choice(['from . import sub', 'from . import sub as sub_alias', 'import %s.sub' % pkg]))
    lines.append('from .inner import deep as deep_alias')
    for n in pick(deep_names, 2):
        lines.append('from .inner.deep import %s as re_deep_%s' % (n, n))
    for n in pick(oth_names, 2):
        lines.append('from %s.mod import %s as re_sib_%s' % (oth, n, n))
    if rng.random() < 0.4:
        lines.insert(0, 'from .sub import *')
    lines.append('__all__ = %r' % (sorted(own)[:3] + ['re_%s' % n for n in sub_names[:1]] + ['sub'],))
    inner_lines = ['from ..sub import %s as up_%s' % (n, n) for n in pick(sub_names, 2)]
    inner_lines += ['from .deep import %s as same_%s' % (n, n) for n in pick(deep_names, 2)]
    inner_lines.append(rng.choice(['from . import deep', 'from .deep import *']))
    files = {
        pkg + '/__init__.py': reexport(mods['init'], lines),
        pkg + '/sub.py': mods['sub'].source,
        pkg + '/inner/__init__.py': reexport(mods['inner'], inner_lines),
        pkg + '/inner/deep.py': mods['deep'].source,
        oth + '/__init__.py': '',
        oth + '/mod.py': mods['oth'].source,
    }
    gens = {pkg + '/__init__.py': mods['init'], pkg + '/sub.py': mods['sub'], pkg + '/inner/__init__.py': mods['inner'],
            pkg + '/inner/deep.py': mods['deep']}
    return pkg, oth, files, gens


def write_package(d, files):
    helper = os.path.join(d, gm.HELPER_NAME + '.py')
    with open(helper, 'w', encoding='utf8') as f:
        f.write(gm.HELPER_SOURCE)
    for rel, src in files.items():
        p = os.path.join(d, rel)
        os.makedirs(os.path.dirname(p), exist_ok=True)
        with open(p, 'wb') as f:
            f.write(C.to_bytes(src))


def forget_package(*prefixes):
    import sys
    for k in list(sys.modules):
        if any(k == p or k.startswith(p + '.') for p in prefixes):
            sys.modules.pop(k, None)


def observe_tree(target, root, style, analysis):
    """sorted [relative module path, callname:num, docsrc] of parse_doctestables on a file or a package directory"""
    from xdoctest import core
    with cc.quiet():
        exs = list(core.parse_doctestables(target, style=style, analysis=analysis))
    return sorted([os.path.relpath(str(e.modpath), root), '%s:%d' % (e.callname, e.num), e.docsrc] for e in exs)


def package_fails(files, pkg, oth, target_rel, style, expected=None):
    """the property on a package written to a scratch directory; returns a description of the difference or None"""
    with cc.scratch_dir() as d:
        write_package(d, files)
        try:
            target = os.path.join(d, target_rel)
            st = observe_tree(target, d, style, 'static')
            dy = observe_tree(target, d, style, 'dynamic')
            forget_package(pkg, oth)
            au = observe_tree(target, d, style, 'auto')     # the default of every front end (model: Switch.parseCalldefs)
        finally:
            forget_package(pkg, oth)
    if au != st:
        return {'mode': 'auto', 'only_static': [x[:2] for x in st if x not in au][:8], 'only_auto': [x[:2] for x in au if x not in st][:8]}
    if st != dy:
        return {'only_static': [x[:2] for x in st if x not in dy][:8], 'only_dynamic': [x[:2] for x in dy if x not in st][:8]}
    if expected is not None and [x[:2] for x in dy] != expected:
        return {'expected': expected[:12], 'dynamic': [x[:2] for x in dy][:12]}
    return None


def check_package(rng, res, label):
    pkg, oth, files, gens = gen_package(rng)
    c07._cnt(res, 'packages')
    res['nontriv'].add(hash(repr(sorted(files.items()))))
    c07._tag(res, 'package:star-import' if 'import *' in files[pkg + '/__init__.py'] else 'package:no-star')
    # the package __init__ as a single module: the three links and the property
    with cc.scratch_dir() as d:
        write_package(d, files)
        try:
            rel = pkg + '/__init__.py'
            check_module(gens[rel], res, d, label, src=files[rel], path=os.path.join(d, rel),
                         inp={'kind': 'package-static-dynamic', 'files': files, 'pkg': pkg, 'oth': oth, 'target': rel, 'label': label})
        finally:
            forget_package(pkg, oth)
    # the package directory, and the nested __init__ on its own: static = dynamic = inventory
    for target in (pkg, pkg + '/inner/__init__.py', pkg + '/__init__.py'):
        for style in (['auto'] if target != pkg else cc.STYLES):
            expected = sorted([rel, '%s:%d' % (cn, num)] for rel, m in gens.items()
                              if (target == pkg or rel == target) for cn, num, _ in cc.expected_ids(m, style))
            c07._cnt(res, 'package-static-vs-dynamic')
            f = package_fails(files, pkg, oth, target, style, expected)
            if f:
                res['expect'].append(('package-static-vs-dynamic',
                                      {'kind': 'package-static-dynamic', 'files': files, 'pkg': pkg, 'oth': oth, 'target': target,
                                       'style': style, 'label': label},
                                      expected[:20], f, 'static / dynamic collection of a package with re-exports differ (from each other or from the modules\' own definitions)'))


def _w_packages(args):
    seed, shard, count = args
    res = c07._new_result()
    rng = random.Random('c16p:%d:%d' % (seed, shard))
    for i in range(count):
        check_package(rng, res, 'c16p:%d:%d:%d' % (seed, shard, i))
    res['nontriv'] = len(res['nontriv'])
    return res


def _w_modules(args):
    seed, shard, count = args
    res = c07._new_result()
    rng = random.Random('c16m:%d:%d' % (seed, shard))
    with cc.scratch_dir() as d:
        for i in range(count):
            m = gm.gen_module(rng)
            check_module(m, res, d, 'c16m:%d:%d:%d' % (seed, shard, i))
    res['nontriv'] = len(res['nontriv'])
    return res


def correspondence(ctx, corr):
    c07.merge(corr, par.pmap(_w_modules, [(ctx.seed, s, 16 if ctx.quick else 120) for s in range(16)]))
    c07.merge(corr, par.pmap(_w_packages, [(ctx.seed, s, 2 if ctx.quick else 12) for s in range(16)]))


def _fails(source, style):
    """the property on the real code: static and dynamic identifiers + sources"""
    with cc.scratch_dir() as d:
        path, modname = cc.write_module(d, source)
        try:
            st, _ = cc.observe_static(path, style)
            dy = cc.observe_dynamic(path, style)
        finally:
            cc.forget_module(modname)
    s_ids = sorted(('%s:%d' % (o[0], o[1]), o[4]) for o in st)
    d_ids = sorted(('%s:%d' % (o[0], o[1]), o[2]) for o in dy)
    if s_ids != d_ids:
        return {'only_static': [x[0] for x in s_ids if x not in d_ids][:10], 'only_dynamic': [x[0] for x in d_ids if x not in s_ids][:10]}
    return None


def search(ctx, corr, broken):
    if not broken:
        return []
    hits = []
    rng = ctx.sub_rng('c16-search')
    for i in range(150):
        m = gm.gen_module(rng)
        if not m.fragment:
            continue
        for style in cc.STYLES:
            f = _fails(m.source, style)
            if f:
                hits.append({'kind': 'expectation', 'suite': 'static-vs-dynamic', 'input': {'kind': 'module-static-dynamic', 'source': m.source,
                                                                                             'style': style},
                             'expected': 'same identifiers and sources', 'impl': f, 'why': 'found by the search'})
                break
        if len(hits) >= 3:
            break
    return hits


def classify(ctx, hit):
    return None


def replay_finding(ctx, finding):
    return False


def replay(ctx, failing):
    inp = failing['input']
    if inp.get('kind') == 'module-static-dynamic':
        bad = False
        print(inp['source'])
        for style in ([inp['style']] if 'style' in inp else cc.STYLES):
            f = _fails(inp['source'], style)
            print('style=%s: %s' % (style, f or 'static and dynamic agree'))
            bad = bad or bool(f)
        return bad
    if inp.get('kind') == 'package-static-dynamic':
        for rel in sorted(inp['files']):
            print('----- %s\n%s' % (rel, inp['files'][rel]))
        bad = False
        for style in ([inp['style']] if 'style' in inp else cc.STYLES):
            f = package_fails(inp['files'], inp['pkg'], inp['oth'], inp['target'], style)
            print('target=%s style=%s: %s' % (inp['target'], style, f or 'static and dynamic agree'))
            bad = bad or bool(f)
        return bad
    if inp.get('kind') == 'module-inventory':
        return c07.replay(ctx, failing)
    print('recorded case: %r' % (inp,))
    return True

"""C16 — Static and dynamic analysis find the same doctests."""
import os
import random

from . import _collect_common as cc
from . import C07 as c07
from .. import driver, par
from ..codec import enc, dec, enc_list
from ..corr import collect as C
from ..gen import modules as gm

LEAN_TARGETS = ['XdocModel.Proofs.C16', 'XdocModel.Pins.Collect']
MANIFEST = {
    'text': ("Partial (after repairs 09d4434, 29b8101, d1ce38f). Proved for ALL mini-ASTs of the fragment: `static_eq_dynamic` — the (callname, docstring) pairs "
             "collected by the model of the AST visitor equal, as lists and hence as sets, the pairs collected by the model of the "
             "module/class __dict__ walk (`iter_module_doctestables` + `is_defined_by_module` + `parse_dynamic_calldefs`) on the object graph "
             "that importing the module builds (`execModule`). The fragment is an explicit decidable predicate (`InFragment`, "
             "`fragmentOk_iff`): decorators that keep __module__/__name__/__doc__ (wrappers staticmethod/classmethod/property only in first "
             "position, setters/deleters re-binding a property), every branch holding definitions executed by the import, the main guard "
             "block not executed (its else branch is an ordinary branch), distinct names per scope; a witness shows the collectors differ "
             "outside it. Doctests are a function of (callname, docstring, style), so equal pairs give equal identifiers and sources. "
             "Observed, not proved: that an import builds `execModule` (link 3: compared with vars() of the really imported module on every "
             "generated file), the import machinery. Links 1 (static model vs parse_static_calldefs) and 2 (dynamic model vs "
             "parse_dynamic_calldefs on the dumped graph) tie both models to the code; the property itself is compared end to end "
             "(parse_doctestables static vs dynamic, three styles) on every generated module."),
    'note': ("Trusted: Lean kernel; CPython import and class creation semantics (the object graph is an input of the dynamic model, dumped with "
             "plain vars()/getattr); functools.wraps; the correspondence harness."),
    'technique': 'Lean 4 proof (both collectors equal the same declarative inventory; dict-assignment fold lemmas) + three-link differential correspondence',
}
RULE = ('generated importable modules (as C07: functions, async functions, classes, static/class methods, properties with setters, decorated '
        'callables with functools.wraps and decorator factories - local ones and ones imported from another module, whose wrappers keep __module__ but have foreign __globals__ -, definitions inside if/else/try/with/for/while, imported functions and classes '
        'that carry doctests of their own, redefinitions, nested definitions, main guard), imported with '
        'util_import.import_module_from_path under unique names: link 1 static model vs static code, link 2 dynamic model vs dynamic code '
        'on the vars() dump, link 3 execModule vs the dump, and static vs dynamic code end to end x 3 styles; non-trivial = module with a '
        'class or an import; distinct = distinct source')
ASSUMPTIONS = ['importing a generated module binds exactly what execModule says (validated by link 3 on every module)',
               'generated modules outside the fragment (definitions in a branch the import does not execute) are only used for links 1-3']


def proj_filter(p):
    """drop inert entries (not defined here / not function-like) from a projection string"""
    out = []
    for ent in p.split('|') if p else []:
        k, v = ent.split('=', 1)
        if v == 'inert':
            continue
        if v.startswith('cls:'):
            head, rest = v.split('{', 1)
            members = [x for x in rest[:-1].split(';') if x and not x.endswith('=inert')]
            v = head + '{' + ';'.join(members) + '}'
        out.append(k + '=' + v)
    return '|'.join(out)


def check_module(m, res, d, label):
    from xdoctest.utils import util_import
    src = m.source
    path, modname = cc.write_module(d, src)
    c07._cnt(res, 'modules')
    for f in sorted(m.features):
        c07._tag(res, f)
    if any('.' in k for k, _ in m.inventory) or 'import' in m.features:
        res['nontriv'].add(hash(src))
    inp = {'kind': 'module-static-dynamic', 'source': src, 'label': label}
    # link 1: static model vs static code
    model = cc.model_calldefs([src])[0]
    impl, cds = C.real_calldefs(src)
    c07._cnt(res, 'link1:static')
    if model != impl:
        res['disagree'].append(('link1:static', {'kind': 'module-inventory', 'source': src}, model[:400], impl[:400]))
    # import
    try:
        with cc.quiet():
            module = util_import.import_module_from_path(path)
    except Exception as ex:
        res['unknown'] += 1
        c07._tag(res, 'import-failed:' + type(ex).__name__)
        return
    try:
        toks = C.module_tokens(src, modname)
        graph = C.graph_tokens(module)
        doc = getattr(module, '__doc__', None)
        a = driver.run_lines([
            'dynamic\t%s\t%s\t%s' % (enc(modname), C.enc_opt(doc if isinstance(doc, str) else None), graph),
            'graph_proj\t%s\t%s' % (enc(modname), graph),
            'exec_proj\t%s\t%s\t%s' % (enc(modname), enc('some_other_module'), toks),
            'in_fragment\t%s\t%s\t%s' % (enc(modname), enc('some_other_module'), toks),
            'static_pairs\t%s' % toks,
            'exec_dynamic\t%s\t%s\t%s' % (enc(modname), enc('some_other_module'), toks)], jobs=1)
        # link 2: dynamic model vs dynamic code on the same object graph
        rd = C.real_dynamic(module)
        c07._cnt(res, 'link2:dynamic')
        if a[0] != rd:
            res['disagree'].append(('link2:dynamic', inp, a[0][:400], rd[:400]))
        # link 3: execModule vs the real module object
        c07._cnt(res, 'link3:exec')
        if proj_filter(a[1]) != proj_filter(a[2]):
            res['disagree'].append(('link3:exec', inp, proj_filter(a[2])[:400], proj_filter(a[1])[:400]))
        # the theorem on this instance
        c07._tag(res, 'in_fragment=' + a[3])
        if a[3] == '1':
            c07._cnt(res, 'theorem-instance')
            if a[4] != a[5]:
                res['disagree'].append(('theorem-instance', inp, a[4][:300], a[5][:300]))
        if (a[3] == '1') and not m.fragment:
            res['disagree'].append(('fragment', inp, 'in fragment', 'generator: a branch with definitions is not executed'))
        # the property, end to end on the real code
        for style in cc.STYLES:
            st, _ = cc.observe_static(path, style)
            dy = cc.observe_dynamic(path, style)
            s_ids = sorted(('%s:%d' % (o[0], o[1]), o[4]) for o in st)
            d_ids = sorted(('%s:%d' % (o[0], o[1]), o[2]) for o in dy)
            c07._cnt(res, 'static-vs-dynamic:' + style)
            if m.fragment:
                if s_ids != d_ids:
                    only_s = [x[0] for x in s_ids if x not in d_ids]
                    only_d = [x[0] for x in d_ids if x not in s_ids]
                    res['expect'].append(('static-vs-dynamic', dict(inp, style=style), 'same identifiers and sources',
                                          {'only_static': only_s[:10], 'only_dynamic': only_d[:10]},
                                          'static and dynamic collection differ on a module of ordinary definitions'))
                exp = sorted('%s:%d' % (cn, num) for cn, num, _ in cc.expected_ids(m, style))
                if sorted(x[0] for x in d_ids) != exp:
                    res['expect'].append(('dynamic-vs-inventory', dict(inp, style=style), exp, sorted(x[0] for x in d_ids),
                                          'dynamic collection differs from the inventory by construction'))
            else:
                c07._tag(res, 'outside-fragment')
        if len(res['samples']) < 1:
            res['samples'].append({'op': 'static-vs-dynamic', 'ids': [k for k, _ in m.inventory][:8], 'in_fragment_model': a[3]})
    finally:
        cc.forget_module(modname)


def _w_modules(args):
    seed, shard, count = args
    res = c07._new_result()
    rng = random.Random('c16m:%d:%d' % (seed, shard))
    with cc.scratch_dir() as d:
        for i in range(count):
            m = gm.gen_module(rng)
            check_module(m, res, d, 'c16m:%d:%d:%d' % (seed, shard, i))
    res['nontriv'] = len(res['nontriv'])
    return res


def correspondence(ctx, corr):
    c07.merge(corr, par.pmap(_w_modules, [(ctx.seed, s, 16 if ctx.quick else 120) for s in range(16)]))


def _fails(source, style):
    """the property on the real code: static and dynamic identifiers + sources"""
    with cc.scratch_dir() as d:
        path, modname = cc.write_module(d, source)
        try:
            st, _ = cc.observe_static(path, style)
            dy = cc.observe_dynamic(path, style)
        finally:
            cc.forget_module(modname)
    s_ids = sorted(('%s:%d' % (o[0], o[1]), o[4]) for o in st)
    d_ids = sorted(('%s:%d' % (o[0], o[1]), o[2]) for o in dy)
    if s_ids != d_ids:
        return {'only_static': [x[0] for x in s_ids if x not in d_ids][:10], 'only_dynamic': [x[0] for x in d_ids if x not in s_ids][:10]}
    return None


def search(ctx, corr, broken):
    if not broken:
        return []
    hits = []
    rng = ctx.sub_rng('c16-search')
    for i in range(150):
        m = gm.gen_module(rng)
        if not m.fragment:
            continue
        for style in cc.STYLES:
            f = _fails(m.source, style)
            if f:
                hits.append({'kind': 'expectation', 'suite': 'static-vs-dynamic', 'input': {'kind': 'module-static-dynamic', 'source': m.source,
                                                                                             'style': style},
                             'expected': 'same identifiers and sources', 'impl': f, 'why': 'found by the search'})
                break
        if len(hits) >= 3:
            break
    return hits


def classify(ctx, hit):
    return None


def replay_finding(ctx, finding):
    return False


def replay(ctx, failing):
    inp = failing['input']
    if inp.get('kind') == 'module-static-dynamic':
        bad = False
        print(inp['source'])
        for style in ([inp['style']] if 'style' in inp else cc.STYLES):
            f = _fails(inp['source'], style)
            print('style=%s: %s' % (style, f or 'static and dynamic agree'))
            bad = bad or bool(f)
        return bad
    if inp.get('kind') == 'module-inventory':
        return c07.replay(ctx, failing)
    print('recorded case: %r' % (inp,))
    return True
